import sys
from .core import main
sys.exit(main())
