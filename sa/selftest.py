"""Thorough tier: checker self-test on seeded scratch variants (filled in per property)."""


def run(pid, rep, seed):
    from .selftests import run_for
    run_for(pid, rep, seed)
