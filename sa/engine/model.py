"""E1 - resolved program model of /repo's basic_robotics package (stdlib ast only).

Parses every basic_robotics/**/*.py of the tree under analysis (never imports it),
resolves imports (aliases, package re-exports, star imports), builds class/function
tables with MRO, parent links, and resolves call targets.
"""
import ast
import os
import builtins
import hashlib

PKG = 'basic_robotics'


class AnalysisError(Exception):
    """The analyser cannot do its job (anchor vanished, unparsable source...)."""


class FuncInfo:
    def __init__(self, module, cls, node, outer=None):
        self.module = module          # Module
        self.cls = cls                # ClassInfo or None
        self.node = node
        self.name = node.name
        self.outer = outer            # enclosing FuncInfo for nested defs
        if outer is not None:
            self.qualname = outer.qualname + '.<locals>.' + node.name
        elif cls is not None:
            self.qualname = cls.name + '.' + node.name
        else:
            self.qualname = node.name
        a = node.args
        self.params = [x.arg for x in a.posonlyargs + a.args]
        self.vararg = a.vararg.arg if a.vararg else None
        self.kwarg = a.kwarg.arg if a.kwarg else None
        self.kwonly = [x.arg for x in a.kwonlyargs]
        nd = len(a.defaults)
        self.defaults = {}
        allpos = a.posonlyargs + a.args
        for p, d in zip(allpos[len(allpos) - nd:], a.defaults):
            self.defaults[p.arg] = d
        for p, d in zip(a.kwonlyargs, a.kw_defaults):
            if d is not None:
                self.defaults[p.arg] = d
        self.jit = None
        for d in node.decorator_list:
            tgt = d.func if isinstance(d, ast.Call) else d
            nm = tgt.id if isinstance(tgt, ast.Name) else (tgt.attr if isinstance(tgt, ast.Attribute) else None)
            if nm in ('jit', 'njit'):
                self.jit = d
        self.decorators = [ast.unparse(d) for d in node.decorator_list]

    @property
    def key(self):
        return self.module.name + ':' + self.qualname

    @property
    def where(self):
        return '%s:%d' % (self.module.relpath, self.node.lineno)

    def body(self):
        """Body statements without the docstring."""
        b = self.node.body
        if b and isinstance(b[0], ast.Expr) and isinstance(b[0].value, ast.Constant) and isinstance(b[0].value.value, str):
            return b[1:]
        return b

    def __repr__(self):
        return '<Func %s>' % self.key


class ClassInfo:
    def __init__(self, module, node):
        self.module = module
        self.node = node
        self.name = node.name
        self.methods = {}
        self.base_exprs = node.bases
        self.bases = []  # resolved ClassInfo

    @property
    def key(self):
        return self.module.name + ':' + self.name

    def __repr__(self):
        return '<Class %s>' % self.key


class Module:
    def __init__(self, name, path, relpath, src, is_pkg):
        self.name = name
        self.path = path
        self.relpath = relpath
        self.src = src
        self.is_pkg = is_pkg
        try:
            self.tree = ast.parse(src, filename=path)
        except SyntaxError as e:
            raise AnalysisError('cannot parse %s: %s' % (relpath, e))
        self.imports = {}     # local name -> ('module', dotted) | ('from', dotted_module, name)
        self.stars = []       # dotted module names star-imported
        self.funcs = {}
        self.classes = {}
        self.toplevel_assigned = set()
        self.parents = {}
        for p in ast.walk(self.tree):
            for c in ast.iter_child_nodes(p):
                self.parents[c] = p

    def abs_module(self, level, modname):
        if level == 0:
            return modname
        base = self.name.split('.')
        if not self.is_pkg:
            base = base[:-1]
        if level > 1:
            base = base[:len(base) - (level - 1)]
        return '.'.join(base + ([modname] if modname else []))


class Model:
    def __init__(self, root):
        self.root = root
        self.modules = {}
        self.all_funcs = []
        pkgdir = os.path.join(root, PKG)
        if not os.path.isdir(pkgdir):
            raise AnalysisError('no %s package under %s' % (PKG, root))
        digest = hashlib.sha256()
        for dirpath, dirnames, filenames in os.walk(pkgdir):
            dirnames[:] = sorted(d for d in dirnames if d != '__pycache__')
            for fn in sorted(filenames):
                if not fn.endswith('.py'):
                    continue
                path = os.path.join(dirpath, fn)
                rel = os.path.relpath(path, root)
                parts = rel[:-3].split(os.sep)
                is_pkg = parts[-1] == '__init__'
                if is_pkg:
                    parts = parts[:-1]
                with open(path, encoding='utf-8') as f:
                    src = f.read()
                digest.update(rel.encode() + b'\0' + src.encode() + b'\0')
                self.modules['.'.join(parts)] = Module('.'.join(parts), path, rel, src, is_pkg)
        self.digest = digest.hexdigest()
        for m in self.modules.values():
            self._index(m)
        for m in self.modules.values():
            for c in m.classes.values():
                for b in c.base_exprs:
                    r = self.resolve_expr(m, b)
                    if r and r[0] == 'class':
                        c.bases.append(r[1])
        if not os.environ.get('VERIF_NO_KWNORM'):
            self.n_kw_normalised = self._normalise_keyword_calls()

    # ---------------------------------------------------------------- keyword calls
    def _normalise_keyword_calls(self):
        """Calls of the package's own functions, methods and classes written with keyword arguments are put into positional form (in this
        process' syntax trees only): each keyword moves to the position its parameter has in the callee's signature; parameters skipped in
        between are filled with the callee's default when that default is a constant.  The callee is the resolved function / class
        constructor; for a method on a receiver of unknown type, the signature shared by EVERY method of that name in the package.  Calls
        with * / ** arguments, or whose keywords do not all name parameters, are left as written.  How a maintainer spells the arguments
        of a call then makes no difference to any rule."""
        import copy
        by_name = {}
        for g in self.all_funcs:
            if g.cls is not None:
                by_name.setdefault(g.name, []).append(g)
        n = 0
        for fi in list(self.all_funcs):
            for c in ast.walk(fi.node):
                if not (isinstance(c, ast.Call) and c.keywords and all(k.arg for k in c.keywords)) or any(isinstance(a, ast.Starred) for a in c.args):
                    continue
                try:
                    r = self.resolve_call(fi, c)
                except Exception:
                    r = None
                callee, skip = None, 0
                if r is not None and r[0] == 'func':
                    callee = r[1]
                    skip = 1 if (callee.cls is not None and isinstance(c.func, ast.Attribute) and callee.params[:1] in (['self'], ['cls'])
                                 and 'staticmethod' not in callee.decorators) else 0
                elif r is not None and r[0] == 'class':
                    callee = self.find_method(r[1], '__init__')
                    skip = 1
                elif r is not None and r[0] == 'method':
                    cands = by_name.get(r[1], [])
                    sigs = {(tuple(g.params), tuple(ast.dump(d) for d in g.node.args.defaults)) for g in cands}
                    if cands and len(sigs) == 1 and 'staticmethod' not in cands[0].decorators:
                        callee, skip = cands[0], 1
                if callee is None or callee.vararg or callee.kwarg or callee.kwonly:
                    continue
                params = callee.params[skip:]
                dflt = dict(zip(callee.params[len(callee.params) - len(callee.node.args.defaults):], callee.node.args.defaults))
                kw = {k.arg: k.value for k in c.keywords}
                if not set(kw) <= set(params) or len(c.args) > len(params) or any(params.index(k) < len(c.args) for k in kw):
                    continue
                args = list(c.args)
                last = max(params.index(k) for k in kw)
                ok = True
                for p_ in params[len(args):last + 1]:
                    if p_ in kw:
                        args.append(kw[p_])
                    elif p_ in dflt and isinstance(dflt[p_], ast.Constant):
                        args.append(copy.deepcopy(dflt[p_]))
                    else:
                        ok = False
                        break
                if ok:
                    for a_ in args:
                        if not hasattr(a_, 'lineno'):
                            ast.copy_location(a_, c)
                        fi.module.parents[a_] = c
                        for sub in ast.walk(a_):
                            for ch in ast.iter_child_nodes(sub):
                                fi.module.parents.setdefault(ch, sub)
                    c.args, c.keywords = args, []
                    n += 1
        return n

    # ---------------------------------------------------------------- indexing
    def _index(self, m):
        def index_func(node, cls, outer):
            fi = FuncInfo(m, cls, node, outer)
            self.all_funcs.append(fi)
            for sub in ast.walk(node):
                if sub is node:
                    continue
                if isinstance(sub, (ast.FunctionDef, ast.AsyncFunctionDef)) and self._enclosing_def(m, sub) is node:
                    index_func(sub, None, fi)
            return fi

        def visit(stmts):
            for st in stmts:
                if isinstance(st, ast.Import):
                    for a in st.names:
                        if a.asname:
                            m.imports[a.asname] = ('module', a.name)
                        else:
                            m.imports[a.name.split('.')[0]] = ('module', a.name.split('.')[0])
                elif isinstance(st, ast.ImportFrom):
                    mod = m.abs_module(st.level, st.module)
                    for a in st.names:
                        if a.name == '*':
                            m.stars.append(mod)
                        else:
                            m.imports[a.asname or a.name] = ('from', mod, a.name)
                elif isinstance(st, (ast.FunctionDef, ast.AsyncFunctionDef)):
                    m.funcs[st.name] = index_func(st, None, None)
                elif isinstance(st, ast.ClassDef):
                    ci = ClassInfo(m, st)
                    m.classes[st.name] = ci
                    for s2 in st.body:
                        if isinstance(s2, (ast.FunctionDef, ast.AsyncFunctionDef)):
                            ci.methods[s2.name] = index_func(s2, ci, None)
                elif isinstance(st, (ast.Assign, ast.AnnAssign, ast.AugAssign)):
                    tg = st.targets if isinstance(st, ast.Assign) else [st.target]
                    for t in tg:
                        for n in ast.walk(t):
                            if isinstance(n, ast.Name):
                                m.toplevel_assigned.add(n.id)
                elif isinstance(st, (ast.If, ast.Try, ast.With, ast.For, ast.While)):
                    for field in ('body', 'orelse', 'finalbody'):
                        visit(getattr(st, field, []) or [])
                    for h in getattr(st, 'handlers', []) or []:
                        visit(h.body)
        visit(m.tree.body)

    def _enclosing_def(self, m, node):
        p = m.parents.get(node)
        while p is not None and not isinstance(p, (ast.FunctionDef, ast.AsyncFunctionDef, ast.Lambda, ast.ClassDef)):
            p = m.parents.get(p)
        return p

    # ---------------------------------------------------------------- lookup
    def module(self, dotted):
        m = self.modules.get(dotted)
        if m is None:
            raise AnalysisError('anchor module vanished: ' + dotted)
        return m

    def func(self, modname, qualname):
        """Anchor lookup; raises AnalysisError when the symbol vanished."""
        f = self.find_func(modname, qualname)
        if f is None:
            raise AnalysisError('anchor vanished: %s:%s' % (modname, qualname))
        return f

    def find_func(self, modname, qualname):
        m = self.modules.get(modname)
        if m is None:
            return None
        parts = qualname.split('.')
        if len(parts) == 1:
            return m.funcs.get(parts[0])
        if len(parts) == 2 and parts[0] in m.classes:
            return m.classes[parts[0]].methods.get(parts[1])
        for f in self.all_funcs:
            if f.module is m and f.qualname == qualname:
                return f
        return None

    def cls(self, modname, name):
        m = self.module(modname)
        c = m.classes.get(name)
        if c is None:
            raise AnalysisError('anchor class vanished: %s:%s' % (modname, name))
        return c

    def mro(self, ci):
        out, seen = [], set()

        def go(c):
            if c.key in seen:
                return
            seen.add(c.key)
            out.append(c)
            for b in c.bases:
                go(b)
        go(ci)
        return out

    def find_method(self, ci, name):
        for c in self.mro(ci):
            if name in c.methods:
                return c.methods[name]
        return None

    def subclasses(self, ci):
        out = []
        for m in self.modules.values():
            for c in m.classes.values():
                if c is not ci and ci in self.mro(c):
                    out.append(c)
        return out

    # ---------------------------------------------------------------- name resolution
    def resolve_global(self, m, name, _seen=None):
        """Resolve a module-level name of module m.
        -> ('func', FuncInfo) | ('class', ClassInfo) | ('module', dotted) | ('ext', dotted)
           | ('var', module, name) | None"""
        _seen = _seen or set()
        if (m.name, name) in _seen:
            return None
        _seen.add((m.name, name))
        if name in m.funcs:
            return ('func', m.funcs[name])
        if name in m.classes:
            return ('class', m.classes[name])
        if name in m.imports:
            imp = m.imports[name]
            if imp[0] == 'module':
                return self._module_ref(imp[1])
            _, mod, nm = imp
            if mod in self.modules:
                target = self.modules[mod]
                r = self.resolve_global(target, nm, _seen)
                if r is not None:
                    return r
                sub = mod + '.' + nm
                if sub in self.modules:
                    return ('module', sub)
                return None
            if mod.split('.')[0] == PKG:
                return None
            return ('ext', self._canon(mod + '.' + nm))
        if name in m.toplevel_assigned:
            return ('var', m, name)
        for star in m.stars:
            if star in self.modules:
                r = self.resolve_global(self.modules[star], name, _seen)
                if r is not None:
                    return r
        return None

    def _module_ref(self, dotted):
        if dotted in self.modules:
            return ('module', dotted)
        return ('ext', self._canon(dotted))

    @staticmethod
    def _canon(dotted):
        return dotted

    def has_ext_star(self, m, _seen=None):
        """True when m (transitively) star-imports a module outside the repo (names then unknowable)."""
        _seen = _seen or set()
        if m.name in _seen:
            return False
        _seen.add(m.name)
        for s in m.stars:
            if s not in self.modules:
                return True
            if self.has_ext_star(self.modules[s], _seen):
                return True
        return False

    def resolve_expr(self, m, expr, local_names=()):
        """Resolve a Name / dotted Attribute expression evaluated in module m's global scope.
        local_names: names bound locally (shadow globals) -> None."""
        if isinstance(expr, ast.Name):
            if expr.id in local_names:
                return None
            r = self.resolve_global(m, expr.id)
            if r is None and hasattr(builtins, expr.id):
                return ('ext', 'builtins.' + expr.id)
            return r
        if isinstance(expr, ast.Attribute):
            base = self.resolve_expr(m, expr.value, local_names)
            if base is None:
                return None
            if base[0] == 'module':
                tm = self.modules[base[1]]
                r = self.resolve_global(tm, expr.attr)
                if r is not None:
                    return r
                sub = base[1] + '.' + expr.attr
                if sub in self.modules:
                    return ('module', sub)
                return None
            if base[0] == 'ext':
                return ('ext', base[1] + '.' + expr.attr)
            if base[0] == 'class':
                f = self.find_method(base[1], expr.attr)
                if f:
                    return ('func', f)
            return None
        return None

    def ext_name(self, m, expr, local_names=()):
        """Dotted external name ('numpy.linalg.norm') or None."""
        r = self.resolve_expr(m, expr, local_names)
        if r and r[0] == 'ext':
            return r[1]
        return None

    # ---------------------------------------------------------------- per-function helpers
    def enclosing_func(self, m, node):
        p = m.parents.get(node)
        while p is not None:
            if isinstance(p, (ast.FunctionDef, ast.AsyncFunctionDef)):
                for f in self.all_funcs:
                    if f.node is p:
                        return f
            p = m.parents.get(p)
        return None

    def funcs_in(self, modname):
        m = self.module(modname)
        return [f for f in self.all_funcs if f.module is m]

    def local_names(self, fi):
        """Names bound in the function's own scope (params, assignments, for targets, withs, imports)."""
        names = set(fi.params + fi.kwonly)
        if fi.vararg:
            names.add(fi.vararg)
        if fi.kwarg:
            names.add(fi.kwarg)
        globs = set()
        for n in walk_own(fi.node):
            if isinstance(n, ast.Name) and isinstance(n.ctx, (ast.Store, ast.Del)):
                names.add(n.id)
            elif isinstance(n, (ast.FunctionDef, ast.AsyncFunctionDef, ast.ClassDef)) and n is not fi.node:
                names.add(n.name)
            elif isinstance(n, ast.Global):
                globs.update(n.names)
            elif isinstance(n, (ast.Import, ast.ImportFrom)):
                for a in n.names:
                    names.add((a.asname or a.name).split('.')[0])
            elif isinstance(n, ast.ExceptHandler) and n.name:
                names.add(n.name)
        return names - globs

    def scope_locals(self, fi):
        """Local names of fi plus those of enclosing functions (closure)."""
        s = set()
        f = fi
        while f is not None:
            s |= self.local_names(f)
            f = f.outer
        return s

    def resolve_call(self, fi, call, self_cls=None, var_types=None):
        """Resolve the callee of `call` occurring inside function fi.
        -> ('func', FuncInfo) | ('class', ClassInfo) | ('ext', dotted) | ('method', name, recv_expr) | None
        self_cls: ClassInfo to use for `self.` receivers (defaults to fi.cls).
        var_types: {local name: ClassInfo} known object types of locals."""
        m = fi.module
        fn = call.func
        loc = self.scope_locals(fi)
        cls = self_cls or fi.cls or (fi.outer.cls if fi.outer else None)
        if isinstance(fn, ast.Name):
            if fn.id in loc:
                # maybe a nested def
                f = fi
                while f is not None:
                    for g in self.all_funcs:
                        if g.outer is f and g.name == fn.id:
                            return ('func', g)
                    f = f.outer
                return None
            return self.resolve_expr(m, fn)
        if isinstance(fn, ast.Attribute):
            v = fn.value
            if isinstance(v, ast.Name) and v.id == 'self' and cls is not None and 'self' in loc:
                f = self.find_method(cls, fn.attr)
                if f:
                    return ('func', f)
                return ('method', fn.attr, v)
            if isinstance(v, ast.Call) and isinstance(v.func, ast.Name) and v.func.id == 'super' and cls is not None:
                for b in self.mro(cls)[1:]:
                    if fn.attr in b.methods:
                        return ('func', b.methods[fn.attr])
                return None
            if isinstance(v, ast.Name) and var_types and v.id in var_types:
                f = self.find_method(var_types[v.id], fn.attr)
                if f:
                    return ('func', f)
            r = self.resolve_expr(m, fn, loc)
            if r is not None:
                return r
            return ('method', fn.attr, v)
        return None


def walk_own(func_node):
    """Walk a function's own body, not descending into nested defs/lambdas/classes
    (their nodes themselves are yielded, their bodies are not)."""
    stack = list(ast.iter_child_nodes(func_node))
    while stack:
        n = stack.pop()
        yield n
        if isinstance(n, (ast.FunctionDef, ast.AsyncFunctionDef, ast.Lambda, ast.ClassDef)):
            if isinstance(n, (ast.FunctionDef, ast.AsyncFunctionDef)):
                # decorators and defaults belong to the enclosing scope
                stack.extend(n.decorator_list)
                stack.extend(n.args.defaults)
                stack.extend(d for d in n.args.kw_defaults if d is not None)
            continue
        stack.extend(ast.iter_child_nodes(n))


def walk_deep(node):
    return ast.walk(node)


def src(node):
    """Normalised source of a node (whitespace/comment/paren independent)."""
    try:
        return ast.unparse(node)
    except Exception:  # pragma: no cover
        return ast.dump(node)


def is_self_attr(node, attr=None, selfname='self'):
    return (isinstance(node, ast.Attribute) and isinstance(node.value, ast.Name)
            and node.value.id == selfname and (attr is None or node.attr == attr))


def const_value(node):
    """Python value of a constant-foldable literal expression or raise ValueError."""
    if isinstance(node, ast.Constant):
        return node.value
    if isinstance(node, ast.UnaryOp) and isinstance(node.op, (ast.USub, ast.UAdd)):
        v = const_value(node.operand)
        return -v if isinstance(node.op, ast.USub) else +v
    if isinstance(node, ast.Tuple):
        return tuple(const_value(e) for e in node.elts)
    if isinstance(node, ast.BinOp):
        a, b = const_value(node.left), const_value(node.right)
        ops = {ast.Add: lambda: a + b, ast.Sub: lambda: a - b, ast.Mult: lambda: a * b,
               ast.Div: lambda: a / b, ast.FloorDiv: lambda: a // b, ast.Pow: lambda: a ** b}
        for k, f in ops.items():
            if isinstance(node.op, k):
                return f()
    raise ValueError('not constant')
