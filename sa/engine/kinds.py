"""E7 - Lie-kind typing of expressions (AST level, single-assignment locals resolved).

Kinds: SO3, so3, SE3, se3, VEC3, VEC6, MAT3 (3x3, not known to be a rotation), MAT4, SCALAR, TOP (unknown).
A call is reported only when the argument's kind is KNOWN and wrong - TOP never fires.
"""
import ast

SO3, so3, SE3, se3, VEC3, VEC6, MAT3, MAT4, SCALAR, TOP = 'SO3', 'so3', 'SE3', 'se3', 'VEC3', 'VEC6', 'MAT3', 'MAT4', 'SCALAR', 'TOP'

SIGS = {
    # name: (argument kinds, result kind)
    'MatrixExp3': ((so3,), SO3), 'MatrixLog3': ((SO3,), so3), 'VecToso3': ((VEC3,), so3), 'so3ToVec': ((so3,), VEC3),
    'MatrixExp6': ((se3,), SE3), 'MatrixLog6': ((SE3,), se3), 'VecTose3': ((VEC6,), se3), 'se3ToVec': ((se3,), VEC6),
    'TransInv': ((SE3,), SE3), 'RotInv': ((SO3,), SO3), 'Adjoint': ((SE3,), 'MAT6'),
}
ACCEPT = {
    # wanted kind -> kinds that are acceptable
    SO3: {SO3}, so3: {so3}, SE3: {SE3}, se3: {se3}, VEC3: {VEC3}, VEC6: {VEC6},
}
WRONG = {
    SO3: {so3, MAT3, SE3, se3, VEC3, VEC6, MAT4, SCALAR}, so3: {SO3, SE3, se3, VEC3, VEC6, MAT4, SCALAR},
    SE3: {se3, SO3, so3, VEC3, VEC6, MAT3, MAT4, SCALAR}, se3: {SE3, SO3, so3, VEC3, VEC6, MAT3, SCALAR},
    VEC3: {SO3, so3, SE3, se3, MAT3, MAT4, VEC6}, VEC6: {SO3, so3, SE3, se3, MAT3, MAT4, VEC3},
}


def callee_name(call):
    f = call.func
    if isinstance(f, ast.Attribute):
        return f.attr
    if isinstance(f, ast.Name):
        return f.id
    return None


class Kinds:
    def __init__(self, fnode):
        self.assigns = {}
        for n in ast.walk(fnode):
            if isinstance(n, ast.Assign) and len(n.targets) == 1 and isinstance(n.targets[0], ast.Name):
                self.assigns.setdefault(n.targets[0].id, []).append(n.value)
            elif isinstance(n, ast.AugAssign) and isinstance(n.target, ast.Name):
                self.assigns.setdefault(n.target.id, []).append(None)

    def kind(self, e, depth=0):
        if depth > 12 or e is None:
            return TOP
        if isinstance(e, ast.Constant):
            return SCALAR if isinstance(e.value, (int, float)) and not isinstance(e.value, bool) else TOP
        if isinstance(e, ast.Name):
            vals = self.assigns.get(e.id)
            if vals and len(vals) == 1 and vals[0] is not None:
                return self.kind(vals[0], depth + 1)
            return TOP
        if isinstance(e, ast.Call):
            nm = callee_name(e)
            if nm in SIGS:
                return SIGS[nm][1]
            if nm in ('conj', 'copy', 'conjugate') and isinstance(e.func, ast.Attribute):
                return self.kind(e.func.value, depth + 1)
            if nm == 'transpose' and isinstance(e.func, ast.Attribute):
                k = self.kind(e.args[0] if e.args and isinstance(e.func.value, ast.Name) and e.func.value.id in ('np', 'numpy') else e.func.value, depth + 1)
                return k if k in (SO3,) else (so3 if k == so3 else (MAT3 if k == MAT3 else TOP))
            if nm in ('gTM',):
                return SE3
            if nm in ('gRot',):
                return SO3
            if nm in ('reshape', 'flatten') and isinstance(e.func, ast.Attribute):
                k = self.kind(e.func.value, depth + 1)
                return k if k in (VEC3, VEC6) else TOP
            if nm in ('dot', 'matmul') and len(e.args) == 2:
                return self.mul(self.kind(e.args[0], depth + 1), self.kind(e.args[1], depth + 1))
            if nm in ('array', 'asarray') and e.args:
                return self.kind(e.args[0], depth + 1)
            return TOP
        if isinstance(e, ast.Attribute):
            if e.attr == 'TM':
                return SE3
            if e.attr == 'T':
                k = self.kind(e.value, depth + 1)
                return k if k in (SO3, so3, MAT3) else TOP
            return TOP
        if isinstance(e, ast.Subscript):
            base = self.kind(e.value, depth + 1)
            sl = ast.unparse(e.slice).replace(' ', '')
            if base == SE3 and sl in ('0:3,0:3', ':3,:3'):
                return SO3
            if base == se3 and sl in ('0:3,0:3', ':3,:3'):
                return so3
            if sl in ('3:6', '0:3', ':3'):
                # a three-slice of a pose / six-vector is a 3-vector (rotation vector or position)
                return VEC3
            if sl in ('0:6', ':6') and base in (VEC6, TOP):
                return VEC6 if base == VEC6 else TOP
            return TOP
        if isinstance(e, ast.BinOp):
            a, b = self.kind(e.left, depth + 1), self.kind(e.right, depth + 1)
            if isinstance(e.op, ast.MatMult):
                return self.mul(a, b)
            if isinstance(e.op, (ast.Div,)):
                if b == SCALAR or isinstance(e.right, (ast.Constant, ast.Name)) and b in (SCALAR, TOP) and isinstance(e.right, ast.Constant):
                    return self.scale(a)
                return TOP
            if isinstance(e.op, ast.Mult):
                if isinstance(e.right, ast.Constant):
                    return self.scale(a)
                if isinstance(e.left, ast.Constant):
                    return self.scale(b)
                if a == SCALAR:
                    return self.scale(b)
                if b == SCALAR:
                    return self.scale(a)
                return TOP
            if isinstance(e.op, (ast.Add, ast.Sub)):
                if a == b and a in (so3, se3, VEC3, VEC6):
                    return a
                if a in (SO3, MAT3) and b in (SO3, MAT3):
                    return MAT3
                return TOP
            return TOP
        if isinstance(e, ast.UnaryOp) and isinstance(e.op, ast.USub):
            k = self.kind(e.operand, depth + 1)
            return k if k in (so3, se3, VEC3, VEC6, SCALAR) else (MAT3 if k == SO3 else TOP)
        return TOP

    @staticmethod
    def scale(k):
        if k in (so3, se3, VEC3, VEC6, SCALAR):
            return k
        if k == SO3 or k == MAT3:
            return MAT3
        if k == SE3 or k == MAT4:
            return MAT4
        return TOP

    @staticmethod
    def mul(a, b):
        if a == SO3 and b == SO3:
            return SO3
        if a == SE3 and b == SE3:
            return SE3
        if a in (SO3, MAT3) and b in (SO3, MAT3):
            return MAT3
        if a == SO3 and b == VEC3:
            return VEC3
        return TOP

    def check_calls(self, fnode):
        """-> [(call node, wanted, got)] for calls of typed primitives whose argument kind is known and wrong,
              and the list of all typed call sites examined"""
        bad, seen = [], []
        for n in ast.walk(fnode):
            if isinstance(n, ast.Call):
                nm = callee_name(n)
                if nm in SIGS and n.args:
                    want = SIGS[nm][0][0]
                    got = self.kind(n.args[0])
                    seen.append((n, want, got))
                    if got in WRONG.get(want, ()):
                        bad.append((n, want, got))
        return bad, seen
