"""Straight-line interpreter of scalar/3-vector arithmetic into the exact polynomial domain (E9)."""
import ast
from fractions import Fraction

from .poly import Poly, pabs, fn


class Uninterp(Exception):
    pass


class PyList(list):
    """value of a Python list display (as opposed to an array): `+` concatenates"""


class PolyInterp:
    def __init__(self, call_hook=None, np_names=('np', 'numpy', 'math')):
        self.env = {}
        self.call_hook = call_hook
        self.np = set(np_names)
        self.quotients = {}     # symbol name -> (numerator Poly, denominator Poly)

    def run(self, stmts):
        """Interpret assignments until the first return; -> value of the return expression (or None)."""
        for st in stmts:
            if isinstance(st, ast.Assign):
                v = self.ev(st.value)
                for t in st.targets:
                    self.bind(t, v)
            elif isinstance(st, ast.Return):
                return self.ev(st.value) if st.value is not None else None
            elif isinstance(st, ast.Expr) and isinstance(st.value, ast.Constant):
                continue
            else:
                raise Uninterp('statement %s at line %d' % (type(st).__name__, st.lineno))
        return None

    def bind(self, t, v):
        if isinstance(t, ast.Name):
            self.env[t.id] = v
        elif isinstance(t, (ast.Tuple, ast.List)):
            if not isinstance(v, (list, tuple)) or len(v) != len(t.elts):
                raise Uninterp('cannot unpack')
            for e, x in zip(t.elts, v):
                self.bind(e, x)
        else:
            raise Uninterp('store target')

    def ev(self, e):
        if isinstance(e, ast.Constant) and (e.value is None or isinstance(e.value, (str, bool))):
            return ('opaque', repr(e.value))          # non-numeric constants (log texts, flags): usable only if never combined
        if isinstance(e, ast.Constant) and isinstance(e.value, (int, float)) and not isinstance(e.value, bool):
            return Poly.const(Fraction(str(e.value)))
        if isinstance(e, ast.Name):
            if e.id in self.env:
                return self.env[e.id]
            raise Uninterp('unknown name ' + e.id)
        if isinstance(e, ast.UnaryOp) and isinstance(e.op, ast.USub):
            return self.map1(lambda x: -x, self.ev(e.operand))
        if isinstance(e, ast.UnaryOp) and isinstance(e.op, ast.UAdd):
            return self.ev(e.operand)
        if isinstance(e, ast.BinOp):
            return self.binop(e.op, self.ev(e.left), self.ev(e.right))
        if isinstance(e, ast.List):
            return PyList(self.ev(x) for x in e.elts)
        if isinstance(e, ast.Tuple):
            return [self.ev(x) for x in e.elts]
        if isinstance(e, ast.Subscript):
            base = self.ev(e.value)
            sl = e.slice
            if isinstance(base, list):
                if isinstance(sl, ast.Constant) and isinstance(sl.value, int):
                    return base[sl.value]
                if isinstance(sl, ast.Slice) and sl.step is None:
                    lo = 0 if sl.lower is None else sl.lower.value
                    hi = len(base) if sl.upper is None else sl.upper.value
                    return base[lo:hi]
            raise Uninterp('subscript ' + ast.unparse(e))
        if isinstance(e, ast.Attribute):
            if isinstance(e.value, ast.Name) and e.value.id in self.np and e.attr == 'pi':
                return Poly.sym('pi')
            if e.attr == 'T':
                return self.ev(e.value)
            raise Uninterp('attribute ' + ast.unparse(e))
        if isinstance(e, ast.ListComp) and len(e.generators) == 1 and not e.generators[0].ifs and not e.generators[0].is_async:
            # a comprehension over explicit sequences (possibly zipped): evaluated element by element
            g = e.generators[0]
            it = g.iter
            if isinstance(it, ast.Call) and isinstance(it.func, ast.Name) and it.func.id == 'zip' and not it.keywords:
                seqs = [self.ev(a) for a in it.args]
                if not all(isinstance(q, list) for q in seqs):
                    raise Uninterp('zip of non-sequences')
                items = [list(t) for t in zip(*seqs)]
            else:
                q = self.ev(it)
                if not isinstance(q, list):
                    raise Uninterp('comprehension over a non-sequence')
                items = list(q)
            out = PyList()
            saved = dict(self.env)
            try:
                for item in items:
                    self.bind(g.target, item)
                    out.append(self.ev(e.elt))
            finally:
                self.env = saved
            return out
        if isinstance(e, ast.Call):
            return self.call(e)
        raise Uninterp('expression ' + ast.unparse(e)[:50])

    def map1(self, f, v):
        if isinstance(v, list):
            return [self.map1(f, x) for x in v]
        return f(v)

    def binop(self, op, a, b):
        def one(x, y):
            if isinstance(op, ast.Add):
                return x + y
            if isinstance(op, ast.Sub):
                return x - y
            if isinstance(op, ast.Mult):
                return x * y
            if isinstance(op, ast.Div):
                if isinstance(y, Poly) and (y.is_const() or len(y.t) == 1):
                    return x / y
                q = 'q%d' % len(self.quotients)
                self.quotients[q] = (x, y)
                return Poly.sym(q)
            if isinstance(op, ast.Pow):
                return x ** y
            raise Uninterp('operator')
        if isinstance(a, PyList) and isinstance(b, PyList) and isinstance(op, ast.Add):
            return PyList(list(a) + list(b))
        if isinstance(a, list) and isinstance(b, list):
            if len(a) != len(b):
                raise Uninterp('shape mismatch')
            return [one(x, y) for x, y in zip(a, b)]
        if isinstance(a, list):
            return [one(x, b) for x in a]
        if isinstance(b, list):
            return [one(a, y) for y in b]
        try:
            return one(a, b)
        except ValueError as ex:
            raise Uninterp(str(ex))

    def call(self, e):
        f = e.func
        name = None
        if isinstance(f, ast.Name):
            name = f.id
        elif isinstance(f, ast.Attribute) and isinstance(f.value, ast.Name) and f.value.id in self.np:
            name = 'np.' + f.attr
        elif isinstance(f, ast.Attribute):
            if f.attr in ('flatten', 'copy', 'reshape', 'squeeze', 'ravel', 'astype'):
                return self.ev(f.value)
            name = '.' + f.attr
        if name in ('np.array', 'np.asarray', 'float', 'np.squeeze') and e.args:
            v = self.ev(e.args[0])
            return list(v) if isinstance(v, PyList) else v
        if name == 'np.cross' and len(e.args) == 2:
            u, v = self.ev(e.args[0]), self.ev(e.args[1])
            if not (isinstance(u, list) and isinstance(v, list) and len(u) == 3 and len(v) == 3):
                raise Uninterp('cross of non 3-vectors')
            return [u[1] * v[2] - u[2] * v[1], u[2] * v[0] - u[0] * v[2], u[0] * v[1] - u[1] * v[0]]
        if name == 'np.dot' and len(e.args) == 2:
            u, v = self.ev(e.args[0]), self.ev(e.args[1])
            if isinstance(u, list) and isinstance(v, list) and len(u) == len(v):
                s = Poly()
                for x, y in zip(u, v):
                    s = s + x * y
                return s
            raise Uninterp('dot')
        if name in ('abs', 'np.abs'):
            return self.map1(pabs, self.ev(e.args[0]))
        if name in ('np.sin', 'np.cos') and e.args:
            return self.map1(lambda x: fn(name[3:], x), self.ev(e.args[0]))
        if name in ('np.sqrt',) and e.args:
            return self.map1(lambda x: fn('sqrt', x), self.ev(e.args[0]))
        if self.call_hook is not None:
            r = self.call_hook(self, e, name)
            if r is not None:
                return r
        raise Uninterp('call ' + ast.unparse(e)[:60])
