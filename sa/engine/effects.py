"""E3 - effects and aliasing (may-write / may-alias summaries over the resolved program).

Abstract value of an expression = set of origins (param, kind):
    kind 'obj'  the very object / array passed as that parameter
         'pay'  the numeric payload storage of that parameter object (tm.TM/.TAA, Screw/Wrench .data)
         'meta' the metadata objects carried by a screw/wrench (frame_applied, position_applied) - tracked,
                but excluded from the value-semantics obligations by the property
Fresh storage = empty set.  The transfer table for NumPy is sa/engine/alias.py (views vs copies).
Per function (flow-sensitive, all paths via the flow engine) we compute a Summary:
    writes   {(param, kind): [(node, how)]}     storage of a parameter that may be written
    ret_obj  origins the returned object(s) may BE
    ret_pay  origins the payload of the returned object(s) may share storage with
    stores   {field: origins} stored into attributes of `self` (constructors: what the payload becomes)
Summaries are computed bottom-up on demand (recursion => optimistic empty summary, iterated once more).
Unknown callees are treated as reading their arguments and returning fresh storage (unknown => silent).
"""
import ast

from .model import src, walk_own
from .flow import Flow
from .typestate import EventDomain
from .alias import VIEW_METHODS, VIEW_ATTRS, VIEW_NP_FUNCS, is_basic_index

PAYLOAD_FIELDS = {'TM', 'TAA', 'data'}
META_FIELDS = {'frame_applied', 'position_applied'}
VALUE_CLASSES = ('tm', 'Screw', 'Wrench', 'Twist')
# methods of the value classes that write the receiver (class semantics; confirmed by reading)
MUTATING_METHODS = {
    'set': 'pay', 'sTM': 'pay', 'sTAA': 'pay', 'setQuat': 'pay', 'angleMod': 'pay', '__setitem__': 'pay', 'TAAtoTM': 'pay',
    'TMtoTAA': 'pay', 'transformSqueezedCopy': 'pay', 'from3DOF': 'pay', 'from6DOF': 'pay', 'from7DOF': 'pay',
    'changeFrame': 'pay', '_setFrame': 'meta',
}
INPLACE_ARRAY_METHODS = {'fill', 'put', 'itemset', 'sort', 'resize', 'partition'}
INPLACE_NP = {'copyto', 'put', 'place', 'putmask', 'fill_diagonal'}
FRESH_OBJ_METHODS = {'copy', 'inv', 'pinv', 'T', 'cT', 'spawnNew', 'toTM', 'toScrew'}


class Summary:
    def __init__(self):
        self.writes = {}
        self.ret_obj = set()
        self.ret_pay = set()
        self.stores = {}
        self.default_escapes = []   # (param, node, how)

    def sig(self):
        return (frozenset(self.writes), frozenset(self.ret_obj), frozenset(self.ret_pay),
                frozenset((k, frozenset(v)) for k, v in self.stores.items()))


class FxDomain(EventDomain):
    """marks = frozenset of (key, origin); key = local name or (name, 'pay') / (name, 'meta') for local objects"""

    def __init__(self, fx, fi, summ):
        self.fx = fx
        self.fi = fi
        self.summ = summ
        self.model = fx.model

    # -------------------------------------------------------------- env helpers
    @staticmethod
    def get(env, key):
        return {o for (k, o) in env if k == key}

    @staticmethod
    def put(env, key, origins):
        env = frozenset((k, o) for (k, o) in env if k != key)
        return env | frozenset((key, o) for o in origins)

    # -------------------------------------------------------------- values
    def val(self, e, env):
        """-> (obj_origins, pay_origins): what the value may BE and what its payload may share storage with."""
        if e is None:
            return set(), set()
        if isinstance(e, ast.Name):
            obj = self.get(env, e.id)
            pay = self.get(env, (e.id, 'pay'))
            for fld in PAYLOAD_FIELDS:
                pay |= {(p, 'pay') for (p, k) in self.get(env, (e.id, fld)) if k in ('obj', 'pay')}
            for (p, k) in obj:
                if k == 'obj':
                    pay.add((p, 'pay'))
                elif k == 'pay':
                    pay.add((p, 'pay'))
            return obj, pay
        if isinstance(e, ast.Attribute):
            bobj, bpay = self.val(e.value, env)
            if isinstance(e.value, ast.Name):
                held = self.get(env, (e.value.id, e.attr))
                if held:
                    # an attribute this function itself assigned: it holds exactly what was stored
                    hp = {(p, 'pay') for (p, k) in held if k in ('obj', 'pay')}
                    return set(held), hp
            if e.attr in PAYLOAD_FIELDS:
                out = {(p, 'pay') for (p, k) in bobj if k == 'obj'} | bpay
                # payload of a locally built object
                if isinstance(e.value, ast.Name):
                    out |= self.get(env, (e.value.id, 'pay'))
                return set(out), set(out)
            if e.attr in META_FIELDS:
                out = {(p, 'meta') for (p, k) in bobj if k == 'obj'}
                if isinstance(e.value, ast.Name):
                    out |= self.get(env, (e.value.id, 'meta'))
                return set(out), set()
            if e.attr in VIEW_ATTRS:
                return bobj, bpay
            return set(), set()
        if isinstance(e, ast.Subscript):
            bobj, bpay = self.val(e.value, env)
            if is_basic_index(e.slice):
                # view of an array, or __getitem__ view of a value object's payload
                out = {(p, 'pay') for (p, k) in bobj if k in ('obj', 'pay')} | bpay
                return set(out), set(out)
            return set(), set()
        if isinstance(e, ast.Call):
            return self.call_val(e, env)
        if isinstance(e, ast.IfExp):
            a, b = self.val(e.body, env), self.val(e.orelse, env)
            return a[0] | b[0], a[1] | b[1]
        if isinstance(e, (ast.Tuple, ast.List)):
            o, p = set(), set()
            for x in e.elts:
                a = self.val(x, env)
                o |= a[0]
                p |= a[1]
            return o, p
        if isinstance(e, ast.Starred):
            return self.val(e.value, env)
        if isinstance(e, ast.NamedExpr):
            return self.val(e.value, env)
        return set(), set()

    def call_val(self, e, env):
        f = e.func
        # numpy
        if isinstance(f, ast.Attribute) and isinstance(f.value, ast.Name) and f.value.id in ('np', 'numpy'):
            if f.attr in VIEW_NP_FUNCS and e.args:
                o, p = self.val(e.args[0], env)
                out = {(x, 'pay') for (x, k) in o if k in ('obj', 'pay')} | p
                return set(out), set(out)
            return set(), set()
        if isinstance(f, ast.Attribute):
            robj, rpay = self.val(f.value, env)
            m = f.attr
            if m in VIEW_METHODS:
                out = {(x, 'pay') for (x, k) in robj if k in ('obj', 'pay')} | rpay
                return set(out), set(out)
            if m in ('copy', 'flatten', 'astype', 'tolist'):
                return set(), set()
            # method of a value class, resolved by name
            if robj or rpay:
                s = self.fx.method_summary(m)
                if s is not None:
                    obj, pay = set(), set()
                    argvals = [self.val(a, env) for a in e.args]
                    for (p, k) in s.ret_obj:
                        if p == 'self':
                            obj |= robj if k == 'obj' else set()
                            if k == 'pay':
                                obj |= {(x, 'pay') for (x, kk) in robj if kk in ('obj', 'pay')} | rpay
                    for (p, k) in s.ret_pay:
                        if p == 'self':
                            pay |= {(x, 'pay') for (x, kk) in robj if kk in ('obj', 'pay')} | rpay
                    return obj, pay
                return set(), set()
        r = self.model.resolve_call(self.fi, e)
        if r is None:
            return set(), set()
        if r[0] == 'class':
            ci = r[1]
            init = self.model.find_method(ci, '__init__')
            if init is None:
                return set(), set()
            s = self.fx.summary(init)
            pay = set()
            bound = self.bind(init, e, skip_self=True)
            for fld, origs in s.stores.items():
                for (p, k) in origs:
                    if p in bound and fld in PAYLOAD_FIELDS:
                        ao, ap = self.val(bound[p], env)
                        pay |= {(x, 'pay') for (x, kk) in ao if kk in ('obj', 'pay')} | ap
            return set(), pay
        if r[0] == 'func':
            callee = r[1]
            s = self.fx.summary(callee)
            bound = self.bind(callee, e, skip_self=callee.cls is not None and isinstance(f, ast.Attribute))
            recv = f.value if (callee.cls is not None and isinstance(f, ast.Attribute)) else None
            obj, pay = set(), set()
            for (p, k) in s.ret_obj | s.ret_pay:
                target = None
                if p == 'self' and recv is not None:
                    target = recv
                elif p in bound:
                    target = bound[p]
                if target is None:
                    continue
                ao, ap = self.val(target, env)
                if (p, k) in s.ret_obj and k == 'obj':
                    obj |= ao
                pay |= {(x, 'pay') for (x, kk) in ao if kk in ('obj', 'pay')} | ap
            return obj, pay
        return set(), set()

    def bind(self, callee, call, skip_self):
        params = callee.params[1:] if (callee.cls is not None and (skip_self or callee.name == '__init__')) else callee.params
        bound = {}
        for p, a in zip(params, call.args):
            if isinstance(a, ast.Starred):
                break
            bound[p] = a
        for k in call.keywords:
            if k.arg:
                bound[k.arg] = k.value
        return bound

    # -------------------------------------------------------------- events
    def rec_write(self, origins, node, how):
        for o in origins:
            self.summ.writes.setdefault(o, []).append((node, how))

    def on_store(self, target, value, stmt, state):
        env, consts = state
        if isinstance(target, ast.Name):
            if isinstance(stmt, ast.AugAssign):
                # in-place operator on an aliasing name writes the storage it aliases (ndarray semantics)
                o, p = self.val(target, env)
                self.rec_write({(x, 'pay') for (x, k) in o if k in ('obj', 'pay')}, stmt, 'augmented assignment ' + src(stmt)[:60])
                return ((env, consts),)
            if value is None:
                rhs = getattr(self, '_unpack_rhs', None)
                if rhs is not None and not isinstance(stmt, (ast.For, ast.AsyncFor, ast.With)):
                    # element of a tuple unpacking: it may be any part of the unpacked value
                    o, p = self.val(rhs, env)
                    pay = {(x, 'pay') for (x, k) in o if k in ('obj', 'pay')} | p
                    env = self.put(self.put(env, target.id, set(o)), (target.id, 'pay'), pay - {(x, 'pay') for (x, k) in o})
                    return ((env, consts),)
                env = self.put(self.put(env, target.id, set()), (target.id, 'pay'), set())
                return ((env, consts),)
            o, p = self.val(value, env)
            env = self.put(env, target.id, o)
            env = self.put(env, (target.id, 'pay'), p - {(x, 'pay') for (x, k) in o})
            # metadata of locally built screws/wrenches is not tracked further
            return ((env, consts),)
        if isinstance(target, ast.Subscript):
            o, p = self.val(target.value, env)
            hit = {(x, 'pay') for (x, k) in o if k in ('obj', 'pay')} | p
            self.rec_write(hit, stmt, 'element/slice store ' + src(stmt)[:70])
            return ((env, consts),)
        if isinstance(target, ast.Attribute):
            o, p = self.val(target.value, env)
            kind = 'meta' if target.attr in META_FIELDS else 'pay'
            for (x, k) in o:
                if k == 'obj':
                    if x == 'self' and self.fi.name == '__init__':
                        continue
                    self.summ.writes.setdefault((x, kind), []).append((stmt, 'attribute store ' + src(stmt)[:70]))
            vo, vp = self.val(value, env) if value is not None else (set(), set())
            if isinstance(target.value, ast.Name):
                nm = target.value.id
                if nm == 'self' and self.fi.cls is not None:
                    stored = {(x, 'pay') for (x, k) in vo if k in ('obj', 'pay')} | vp
                    self.summ.stores.setdefault(target.attr, set()).update(stored)
                    for (x, k) in stored:
                        d = self.fi.defaults.get(x)
                        if d is not None and self.is_mutable_default(d):
                            self.summ.default_escapes.append((x, stmt, 'stored as self.%s' % target.attr))
                env = self.put(env, (nm, target.attr), vo | vp)
            return ((env, consts),)
        return ((env, consts),)

    @staticmethod
    def is_mutable_default(d):
        if isinstance(d, ast.Constant):
            return False
        if isinstance(d, (ast.List, ast.Dict, ast.Set)):
            return True
        if isinstance(d, ast.Call):
            return True
        return False

    def on_call(self, call, state):
        env, consts = state
        f = call.func
        if isinstance(f, ast.Attribute):
            if isinstance(f.value, ast.Name) and f.value.id in ('np', 'numpy') and f.attr in INPLACE_NP and call.args:
                o, p = self.val(call.args[0], env)
                self.rec_write({(x, 'pay') for (x, k) in o if k in ('obj', 'pay')} | p, call, 'in-place ' + src(call)[:60])
                return ((env, consts),)
            o, p = self.val(f.value, env)
            if f.attr in INPLACE_ARRAY_METHODS:
                self.rec_write({(x, 'pay') for (x, k) in o if k in ('obj', 'pay')} | p, call, 'in-place ' + src(call)[:60])
            elif (o or p) and f.attr in MUTATING_METHODS and not (isinstance(f.value, ast.Name) and f.value.id == 'self' and self.fi.name == '__init__'):
                kind = MUTATING_METHODS[f.attr]
                hit = {(x, kind) for (x, k) in o if k == 'obj'}
                if hit:
                    self.rec_write(hit, call, 'mutating method ' + src(call)[:60])
        r = self.model.resolve_call(self.fi, call)
        if r is not None and r[0] == 'func':
            callee = r[1]
            if callee is not self.fi:
                s = self.fx.summary(callee)
                is_m = callee.cls is not None and isinstance(f, ast.Attribute)
                bound = self.bind(callee, call, skip_self=is_m)
                for (p, k), sites in s.writes.items():
                    tgt = None
                    if p == 'self' and is_m:
                        tgt = f.value
                    elif p in bound:
                        tgt = bound[p]
                    if tgt is None:
                        continue
                    o, pp = self.val(tgt, env)
                    if k == 'meta':
                        hit = {(x, 'meta') for (x, kk) in o if kk == 'obj'}
                    else:
                        hit = {(x, 'pay') for (x, kk) in o if kk in ('obj', 'pay')} | pp
                    if hit:
                        self.rec_write(hit, call, 'callee %s writes its parameter `%s`: %s' % (callee.qualname, p, src(call)[:60]))
        elif r is not None and r[0] == 'class':
            init = self.model.find_method(r[1], '__init__')
            if init is not None:
                s = self.fx.summary(init)
                bound = self.bind(init, call, skip_self=True)
                for (p, k), sites in s.writes.items():
                    if p in bound and k != 'meta':
                        o, pp = self.val(bound[p], env)
                        hit = {(x, 'pay') for (x, kk) in o if kk in ('obj', 'pay')} | pp
                        if hit:
                            self.rec_write(hit, call, 'constructor %s writes its argument `%s`' % (r[1].name, p))
        return ((env, consts),)

    def on_return(self, node, state):
        outs = list(super().on_return(node, state))
        if node.value is not None:
            for (env, consts) in outs:
                vals = [node.value]
                if isinstance(node.value, ast.Tuple):
                    vals = node.value.elts
                for v in vals:
                    o, p = self.val(v, env)
                    self.summ.ret_obj |= {(x, k) for (x, k) in o}
                    self.summ.ret_pay |= p | {(x, 'pay') for (x, k) in o if k in ('obj', 'pay')}
        return outs

    def enter_loop(self, node, state):
        env, consts = state
        o, p = self.val(node.iter, env)
        for n in ast.walk(node.target):
            if isinstance(n, ast.Name):
                env = self.put(env, n.id, o)
                env = self.put(env, (n.id, 'pay'), p)
        return ((env, consts),)

    def widen(self, states):
        # merge all environments into one (join = union)
        env = frozenset().union(*[s[0] for s in states])
        consts = frozenset.intersection(*[s[1] for s in states]) if states else frozenset()
        return {(env, consts)}

    MAX_STATES = 24


class Effects:
    def __init__(self, model):
        self.model = model
        self._sum = {}
        self._busy = set()
        self._by_method = None

    def summary(self, fi):
        if fi.key in self._sum:
            return self._sum[fi.key]
        if fi.key in self._busy:
            return Summary()
        self._busy.add(fi.key)
        try:
            prev = None
            s = Summary()
            for _ in range(3):
                s = Summary()
                dom = FxDomain(self, fi, s)
                env = frozenset()
                names = list(fi.params)
                if fi.vararg:
                    names.append(fi.vararg)
                for p in names:
                    env |= {(p, (p, 'obj'))}
                try:
                    Flow(dom).run(fi.body(), {(env, frozenset())})
                except RuntimeError:
                    pass
                if prev is not None and prev == s.sig():
                    break
                prev = s.sig()
                self._sum[fi.key] = s      # allow recursive calls to see the current approximation
            self._sum[fi.key] = s
            return s
        finally:
            self._busy.discard(fi.key)

    def method_summary(self, name):
        """Joined summary of the methods called `name` in the value classes (receiver type unknown statically)."""
        if self._by_method is None:
            self._by_method = {}
            for m in self.model.modules.values():
                for c in m.classes.values():
                    if c.name in VALUE_CLASSES:
                        for mn, fi in c.methods.items():
                            self._by_method.setdefault(mn, []).append(fi)
        fis = self._by_method.get(name)
        if not fis:
            return None
        out = Summary()
        for fi in fis:
            s = self.summary(fi)
            out.ret_obj |= s.ret_obj
            out.ret_pay |= s.ret_pay
            for k, v in s.writes.items():
                out.writes.setdefault(k, []).extend(v)
        return out
