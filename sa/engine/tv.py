"""Translation validation driver: port (modern_high_performance.py) vs vendored reference (modern_robotics 1.1.1)."""
import ast
import os

from .normal import Normalizer, Unsupported, first_diff, show, Inlining
from .mrspec import SHAPES
from .model import AnalysisError

REF_PATH = os.path.join(os.path.dirname(os.path.dirname(os.path.dirname(os.path.abspath(__file__)))),
                        'vendor', 'modern_robotics_core_1_1_1.py')
PORT_MOD = 'basic_robotics.modern_robotics_numba.modern_high_performance'


def toplevel_funcs(tree):
    return {n.name: n for n in tree.body if isinstance(n, ast.FunctionDef)}


def toplevel_names(tree):
    out = set()
    for n in tree.body:
        if isinstance(n, (ast.Import, ast.ImportFrom)):
            for a in n.names:
                out.add((a.asname or a.name).split('.')[0])
        elif isinstance(n, ast.Assign):
            for t in n.targets:
                for x in ast.walk(t):
                    if isinstance(x, ast.Name):
                        out.add(x.id)
        elif isinstance(n, (ast.FunctionDef, ast.ClassDef)):
            out.add(n.name)
    return out


ATTR_SHAPES = {'_bottom_joints_space': (3, 6), '_top_joints_space': (3, 6), '_bottom_joints_local': (3, 6), '_top_joints_local': (3, 6),
               'lengths': (6, 1)}
N_RULE_HELPERS = {'Norm', 'SafeTrace', 'SafeCopy', 'SafeDot', 'MatMul', 'SafeClip'}
_REF = {}


def ref_funcs():
    if 'f' not in _REF:
        with open(REF_PATH) as f:
            tree = ast.parse(f.read())
        _REF['f'] = (toplevel_funcs(tree), toplevel_names(tree))
    return _REF['f']


def port_private(port_names):
    """names of port-module functions that are not part of the reference API (helpers a maintainer extracted)"""
    ref = set(ref_funcs()[0])
    return {n for n in port_names if n not in ref and n not in N_RULE_HELPERS}


def port_normalizer(node, port, port_globals, nref, which):
    nz = Normalizer(node, SHAPES, port.keys(), nref, helper_rules=True, global_names=port_globals)
    if which is not None:
        nz.inliner = Inlining(port, SHAPES, port.keys(), True, port_globals, which)
    return nz


def compare_all(model):
    """-> (results, ref_funcs, port_funcs); results: name -> dict(verdict, detail, port_line, ref_line, rewrites)"""
    with open(REF_PATH) as f:
        ref_tree = ast.parse(f.read())
    ref = toplevel_funcs(ref_tree)
    pm = model.module(PORT_MOD)
    port = toplevel_funcs(pm.tree)
    port_globals = toplevel_names(pm.tree)
    ref_globals = toplevel_names(ref_tree)
    results = {}
    for name, rnode in ref.items():
        if name not in port:
            results[name] = {'verdict': 'MISSING', 'detail': 'function absent from the port', 'ref_line': rnode.lineno}
            continue
        pnode = port[name]
        res = {'port_line': pnode.lineno, 'ref_line': rnode.lineno}
        priv = port_private(port.keys())
        try:
            rn = Normalizer(rnode, SHAPES, ref.keys(), None, helper_rules=False, global_names=ref_globals)
            rt = rn.run()
            pn = port_normalizer(pnode, port, port_globals, len(rn.params), (lambda n_: n_ in priv))
            pt = pn.run()
        except Unsupported as e:
            res.update(verdict='UNCOVERED', detail=str(e))
            results[name] = res
            continue
        if rt != pt:
            # second opinion: the same comparison with every loop-free, effect-free helper inlined on BOTH sides (a helper that was
            # extracted, merged or inlined by hand changes the call structure, not the value)
            try:
                rn2 = Normalizer(rnode, SHAPES, ref.keys(), None, helper_rules=False, global_names=ref_globals)
                rn2.inliner = Inlining(ref, SHAPES, ref.keys(), False, ref_globals, lambda n_: True)
                rt2 = rn2.run()
                pn2 = port_normalizer(pnode, port, port_globals, len(rn.params), (lambda n_: n_ not in N_RULE_HELPERS))
                pt2 = pn2.run()
                if rt2 == pt2:
                    rt, pt = rt2, pt2
                    res['inlined'] = sorted(rn2.inliner.used | pn2.inliner.used)
            except Unsupported:
                pass
        if rt == pt:
            res.update(verdict='EQUIVALENT', detail='' if 'inlined' not in res else 'equal after inlining ' + ', '.join(res['inlined']))
        else:
            d = first_diff(pt, rt)
            res.update(verdict='DIFFERENT', detail='port: %s  |  reference: %s' % (show(d[0]), show(d[1])),
                       port_term=show(d[0], maxlen=400), ref_term=show(d[1], maxlen=400))
        res['token_identical'] = _strip(pnode) == _strip(rnode)
        results[name] = res
    return results, ref, port


def _strip(node):
    body = node.body
    if body and isinstance(body[0], ast.Expr) and isinstance(body[0].value, ast.Constant) and isinstance(body[0].value.value, str):
        body = body[1:]
    return [ast.dump(s) for s in body]


_NF_CACHE = {}


def _normalizer(model, pm, node, name, prune=True, cls=None):
    """Normalizer for a function of repo module `pm` with the module's private helpers (functions that are not part of the
    reference API) inlined - the same configuration for repository functions and for the reference implementations written in rules."""
    funcs = toplevel_funcs(pm.tree)
    known = set(funcs)
    allf = dict(funcs)
    for star in pm.stars:
        if star in model.modules:
            sf = toplevel_funcs(model.modules[star].tree)
            known |= set(sf)
            for k_, v_ in sf.items():
                allf.setdefault(k_, v_)
    gl = toplevel_names(pm.tree)
    nz = Normalizer(node, SHAPES, known, None, True, gl)
    nz.prune_loops = prune
    nz.attr_shapes = dict(ATTR_SHAPES)
    # module aliases of the kernel modules used by the Python layers (import ... as fmr / mr): alias.f(x) is f(x)
    kernel_mods = {PORT_MOD, 'basic_robotics.general.faser_high_performance'}
    for alias, target in getattr(pm, 'imports', {}).items():
        # ('module', dotted) | ('from', dotted_module, name): `from pkg import mod as alias` names a module too
        last = (target[1] if target[0] == 'module' else target[2]).split('.')[-1]
        hit = last in ('fmr', 'mr', 'faser_high_performance', 'modern_high_performance')
        if hit:
            nz.module_aliases.add(alias)
            for km in kernel_mods:
                if km in model.modules:
                    known |= set(toplevel_funcs(model.modules[km].tree))
                    for k_, v_ in toplevel_funcs(model.modules[km].tree).items():
                        allf.setdefault(k_, v_)
    nz.module_funcs = set(known)
    priv = set(port_private(allf.keys()))
    meths = {}
    if cls is not None:
        # private methods of the class (self._helper(...)): inlined like private module-level helpers
        try:
            lineage = list(model.mro(cls))
        except Exception:  # noqa
            lineage = [cls]
        for c_ in lineage:                   # own helpers first, then inherited ones
            for m_, f_ in c_.methods.items():
                if m_.startswith('_') and not m_.startswith('__') and m_ != name and m_ not in meths:
                    allf['meth:' + m_] = f_.node
                    meths[m_] = 'meth:' + m_
                    priv.add('meth:' + m_)
    if priv:
        nz.inliner = Inlining(allf, SHAPES, known, True, gl, lambda n_: n_ in priv and n_ != name)
        nz.inliner.self_methods = meths
        nz.inliner.module_aliases = set(nz.module_aliases)
        nz.inliner.attr_shapes = dict(nz.attr_shapes)
        nz.self_methods = meths
    return nz


def port_nf(model, name, module=PORT_MOD, prune=True):
    """Normal form ('fn', effects, value) of a top-level function of a repo module (cached per model digest)."""
    key = (model.digest, module, name, prune)
    if key in _NF_CACHE:
        return _NF_CACHE[key]
    pm = model.module(module)
    funcs = toplevel_funcs(pm.tree)
    if name not in funcs:
        raise AnalysisError('anchor vanished: %s:%s' % (module, name))
    known = set(funcs)
    # star-imported kernels are callable by bare name as well
    for star in pm.stars:
        if star in model.modules:
            known |= set(toplevel_funcs(model.modules[star].tree))
    nz = _normalizer(model, pm, funcs[name], name, prune)
    try:
        t = nz.run()
    except Unsupported as e:
        raise AnalysisError('%s can no longer be normalised: %s' % (name, e))
    _NF_CACHE[key] = (t, nz)
    return t, nz


def subst_params(term, args):
    """Instantiate a normal form: ('p', i) -> args[i]; constant reads out of block arguments are folded."""
    from .normal import is_num
    if isinstance(term, tuple):
        if term and term[0] == 'p' and len(term) == 2 and isinstance(term[1], int):
            return args[term[1]] if term[1] < len(args) else term
        t = tuple(subst_params(x, args) for x in term)
        if t and t[0] == 'idx' and isinstance(t[1], tuple) and t[1] and t[1][0] == 'block' and all(is_num(i) for i in t[2]) \
                and len(t[2]) == len(t[1][1]):
            r = int(t[2][0][1])
            c = int(t[2][1][1]) if len(t[2]) == 2 else 0
            for (r0, r1, c0, c1, x) in t[1][2]:
                if r0 <= r < r1 and c0 <= c < c1 and r1 - r0 == 1 and c1 - c0 == 1:
                    return x
        return t
    return term


def read_cell(model, term, r, c, depth=0):
    """Element (r, c) of an array-valued normal form, looking through blocks, ite-free values and calls to
    repo functions whose own normal form is a block.  Returns a scalar term or None when unknown."""
    from .normal import is_num
    if depth > 6 or not isinstance(term, tuple):
        return None
    if term[0] == 'block':
        one_d = len(term[1]) == 1
        for (r0, r1, c0, c1, t) in term[2]:
            if r0 <= r < r1 and (one_d or c0 <= c < c1):
                if r1 - r0 == 1 and (one_d or c1 - c0 == 1):
                    return t
                return read_cell(model, t, r - r0, 0 if one_d else c - c0, depth + 1)
        return None
    if term[0] == 'call' and isinstance(term[1], str) and not term[1].startswith('numpy.'):
        try:
            nf, _ = port_nf(model, term[1])
        except AnalysisError:
            return None
        return read_cell(model, subst_params(nf[2], term[2]), r, c, depth + 1)
    if term[0] == 'call' and term[1] in ('numpy.zeros',):
        from .normal import num
        return num(0)
    if term[0] == 'call' and term[1] in ('numpy.eye', 'numpy.identity'):
        from .normal import num
        return num(1.0 if r == c else 0.0)
    return None


def port_closure(model, roots, modules=(PORT_MOD, 'basic_robotics.general.faser_high_performance')):
    """Transitive callee closure (by bare function name) of the given kernel names inside the JIT modules."""
    funcs = {}
    for mn in modules:
        if mn in model.modules:
            for name, node in toplevel_funcs(model.modules[mn].tree).items():
                funcs.setdefault(name, node)
    seen, work = set(), [r for r in roots if r in funcs]
    while work:
        n = work.pop()
        if n in seen:
            continue
        seen.add(n)
        for c in ast.walk(funcs[n]):
            if isinstance(c, ast.Call):
                nm = c.func.id if isinstance(c.func, ast.Name) else (c.func.attr if isinstance(c.func, ast.Attribute) else None)
                if nm in funcs and nm not in seen:
                    work.append(nm)
    return seen


def kernel_roots_called_from(model, func_infos):
    """Names of JIT-module functions called (as mr.X / fmr.X / bare X) from the given FuncInfos."""
    funcs = set()
    for mn in (PORT_MOD, 'basic_robotics.general.faser_high_performance'):
        if mn in model.modules:
            funcs |= set(toplevel_funcs(model.modules[mn].tree))
    out = set()
    for fi in func_infos:
        for c in ast.walk(fi.node):
            if isinstance(c, ast.Call):
                nm = c.func.attr if isinstance(c.func, ast.Attribute) else (c.func.id if isinstance(c.func, ast.Name) else None)
                if nm in funcs:
                    out.add(nm)
    return out


def matches_spec(model, module, name, spec_src, prune=True):
    """Normal-form equality of the repo's top-level function `name` of `module` with a reference implementation written in
    the rule (same parameter order; local names, temporaries, layout and the N1-N16 rewrites are immaterial).
    -> (equal, description of the first difference)."""
    t, nz = port_nf(model, name, module, prune)
    pm = model.module(module)
    funcs = toplevel_funcs(pm.tree)
    known = set(funcs)
    for star in pm.stars:
        if star in model.modules:
            known |= set(toplevel_funcs(model.modules[star].tree))
    tree = ast.parse(_dedent(spec_src))
    fn = [n for n in tree.body if isinstance(n, ast.FunctionDef)]
    if len(fn) != 1:
        raise AnalysisError('spec for %s must define exactly one function' % name)
    fn[0].name = name                      # same shape contracts / recursion naming as the repo function
    sz = _normalizer(model, pm, fn[0], name, prune)
    try:
        s = sz.run()
    except Unsupported as e:
        raise AnalysisError('spec of %s cannot be normalised: %s' % (name, e))
    if s == t:
        return True, 'equal'
    from .normal import first_diff, show
    d = first_diff(t, s)
    if d is None:
        return False, 'normal forms differ'
    a, b, path = d
    return False, 'repo: %s  |  spec: %s' % (show(a)[:150], show(b)[:150])


def _dedent(s):
    import textwrap
    return textwrap.dedent(s).strip() + '\n'


def func_nf(model, fi, prune=True):
    """Normal form of any function / method known to the model (FuncInfo)."""
    key = (model.digest, fi.key, prune)
    if key in _NF_CACHE:
        return _NF_CACHE[key]
    pm = fi.module
    funcs = toplevel_funcs(pm.tree)
    known = set(funcs)
    for star in pm.stars:
        if star in model.modules:
            known |= set(toplevel_funcs(model.modules[star].tree))
    nz = _normalizer(model, pm, fi.node, fi.node.name, prune, getattr(fi, 'cls', None))
    try:
        t = nz.run()
    except Unsupported as e:
        raise AnalysisError('%s can no longer be normalised: %s' % (fi.qualname, e))
    _NF_CACHE[key] = (t, nz)
    return t, nz


def fi_matches_spec(model, fi, spec_src, prune=True, cell_shape=None):
    """As matches_spec, for any function or method (the spec names `self` like the method does).  With `cell_shape`, a returned
    array of that constant shape is compared element by element when the two normal forms assemble it differently
    (row-wise vs column-wise fills, hstack vs slice stores); the effect terms must still be identical."""
    t, nz = func_nf(model, fi, prune)
    pm = fi.module
    funcs = toplevel_funcs(pm.tree)
    known = set(funcs)
    for star in pm.stars:
        if star in model.modules:
            known |= set(toplevel_funcs(model.modules[star].tree))
    tree = ast.parse(_dedent(spec_src))
    fn = [n for n in tree.body if isinstance(n, ast.FunctionDef)]
    if len(fn) != 1:
        raise AnalysisError('spec for %s must define exactly one function' % fi.qualname)
    fn[0].name = fi.node.name
    sz = _normalizer(model, pm, fn[0], fi.node.name, prune, getattr(fi, 'cls', None))
    try:
        s = sz.run()
    except Unsupported as e:
        raise AnalysisError('spec of %s cannot be normalised: %s' % (fi.qualname, e))
    if s == t:
        return True, 'equal'
    from .normal import first_diff, show
    if cell_shape is not None and s[1] == t[1]:
        eq, idx, ca, cb = cells_equal(nz, t[2], sz, s[2], cell_shape)
        if eq:
            return True, 'equal element by element'
        return False, 'element %s: repo %s  |  spec %s' % (idx, show(ca)[:130] if ca is not None else '?', show(cb)[:130] if cb is not None else '?')
    d = first_diff(t, s)
    if d is None:
        return False, 'normal forms differ'
    a, b, path = d
    return False, 'repo: %s  |  spec: %s' % (show(a)[:150], show(b)[:150])


def cell_of(nz, term, idx):
    """Normal form of element `idx` (tuple of ints) of an array-valued term, looking through the ways an array can be assembled
    (block regions, transposition, hstack / concatenate of 1-D parts).  None when the element cannot be named."""
    from .normal import is_num, num
    if not isinstance(term, tuple) or not term:
        return None
    k = term[0]
    if k == 'T' and len(idx) == 2:
        return cell_of(nz, term[1], (idx[1], idx[0]))
    if k == 'block':
        shape = term[1]
        r = idx[0]
        c = idx[1] if len(idx) == 2 else 0
        if len(idx) != len(shape):
            return None
        for (r0, r1, c0, c1, t) in term[2]:
            if r0 <= r < r1 and c0 <= c < c1:
                if r1 - r0 == 1 and c1 - c0 == 1:
                    sh = nz.shape(t)
                    if sh in ((), None) or sh == (1,) or sh == (1, 1):
                        return t if sh in ((), None) else cell_of(nz, t, (0,) * len(sh))
                sh = nz.shape(t)
                if sh == ():
                    return t                                   # a scalar broadcast over the region
                if sh is not None and len(sh) == 1:
                    if c1 - c0 == 1 or len(shape) == 1:
                        return cell_of(nz, t, (r - r0,))
                    if r1 - r0 == 1:
                        return cell_of(nz, t, (c - c0,))
                    return cell_of(nz, t, (c - c0,))          # 1-D value broadcast along rows
                if sh is not None and len(sh) == 2:
                    return cell_of(nz, t, (r - r0, c - c0))
                return None
        return None
    if k == 'call' and term[1] in ('numpy.hstack', 'numpy.concatenate') and len(term[2]) >= 1 and term[2][0][0] in ('tuple', 'list') and len(idx) == 1:
        off = 0
        for part in term[2][0][1]:
            sh = nz.shape(part)
            if sh is None or len(sh) != 1 or not isinstance(sh[0], int):
                return None
            if off <= idx[0] < off + sh[0]:
                return cell_of(nz, part, (idx[0] - off,))
            off += sh[0]
        return None
    # 2-D assembly: vstack / hstack / concatenate(axis=...) of parts with known constant shapes, and (n,) <-> (n,1) reshapes
    if k == 'call' and term[1] in ('numpy.vstack', 'numpy.hstack', 'numpy.concatenate') and len(term[2]) >= 1 and term[2][0][0] in ('tuple', 'list') and len(idx) == 2:
        kw = dict(term[3]) if len(term) > 3 else {}
        axis = 0 if term[1] == 'numpy.vstack' else (1 if term[1] == 'numpy.hstack' else None)
        if axis is None:
            ax = kw.get('axis', num(0))
            axis = int(ax[1]) if is_num(ax) else None
        if axis in (0, 1):
            off = 0
            for part in term[2][0][1]:
                sh = nz.shape(part)
                if sh is None or not all(isinstance(x, int) for x in sh) or len(sh) not in (1, 2):
                    return None
                if len(sh) == 1:
                    if axis != 0 or term[1] != 'numpy.vstack':
                        return None
                    sh2 = (1, sh[0])                          # vstack treats a 1-D part as one row
                else:
                    sh2 = sh
                n_ = sh2[axis]
                if off <= idx[axis] < off + n_:
                    sub = list(idx)
                    sub[axis] -= off
                    return cell_of(nz, part, (sub[1],) if len(sh) == 1 else tuple(sub))
                off += n_
            return None
    if k == 'call' and (term[1] == ('meth', 'reshape') or term[1] == 'numpy.reshape') and len(term[2]) >= 2:
        base = term[2][0]
        tgt = term[2][1] if len(term[2]) == 2 else ('tuple', tuple(term[2][1:]))
        dims = [int(x[1]) for x in tgt[1]] if (tgt[0] == 'tuple' and all(is_num(x) for x in tgt[1])) else ([int(tgt[1])] if is_num(tgt) else None)
        bsh = nz.shape(base)
        if dims is not None and len(dims) == len(idx):
            if len(dims) == 2 and dims[1] == 1 and idx[1] == 0 and (bsh is None or len(bsh) == 1 or (len(bsh) == 2 and bsh[1] == 1)):
                c_ = cell_of(nz, base, (idx[0],) if (bsh is None or len(bsh) == 1) else (idx[0], 0))
                if c_ is not None or bsh is not None:
                    return c_
            if len(dims) == 1 and bsh is not None and len(bsh) == 2 and bsh[1] == 1:
                return cell_of(nz, base, (idx[0], 0))
            if len(dims) == 1 and bsh is not None and len(bsh) == 1:
                return cell_of(nz, base, idx)
    sh = nz.shape(term)
    if sh is None:
        return None
    if sh == ():
        return term
    if len(sh) == len(idx):
        try:
            return nz.index(term, tuple(num(i) for i in idx))
        except Exception:  # noqa
            return ('idx', term, tuple(num(i) for i in idx))
    return None


def cells_equal(nz_a, a, nz_b, b, shape):
    """element-wise equality of two array-valued normal forms of the given constant shape; -> (equal, first differing index or None)"""
    import itertools as _it
    for idx in _it.product(*[range(n) for n in shape]):
        ca, cb = cell_of(nz_a, a, idx), cell_of(nz_b, b, idx)
        if ca is None or cb is None or ca != cb:
            return False, idx, ca, cb
    return True, None, None, None
