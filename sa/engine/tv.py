"""Translation validation driver: port (modern_high_performance.py) vs vendored reference (modern_robotics 1.1.1)."""
import ast
import os

from .normal import Normalizer, Unsupported, first_diff, show
from .mrspec import SHAPES
from .model import AnalysisError

REF_PATH = os.path.join(os.path.dirname(os.path.dirname(os.path.dirname(os.path.abspath(__file__)))),
                        'vendor', 'modern_robotics_core_1_1_1.py')
PORT_MOD = 'basic_robotics.modern_robotics_numba.modern_high_performance'


def toplevel_funcs(tree):
    return {n.name: n for n in tree.body if isinstance(n, ast.FunctionDef)}


def toplevel_names(tree):
    out = set()
    for n in tree.body:
        if isinstance(n, (ast.Import, ast.ImportFrom)):
            for a in n.names:
                out.add((a.asname or a.name).split('.')[0])
        elif isinstance(n, ast.Assign):
            for t in n.targets:
                for x in ast.walk(t):
                    if isinstance(x, ast.Name):
                        out.add(x.id)
        elif isinstance(n, (ast.FunctionDef, ast.ClassDef)):
            out.add(n.name)
    return out


def compare_all(model):
    """-> (results, ref_funcs, port_funcs); results: name -> dict(verdict, detail, port_line, ref_line, rewrites)"""
    with open(REF_PATH) as f:
        ref_tree = ast.parse(f.read())
    ref = toplevel_funcs(ref_tree)
    pm = model.module(PORT_MOD)
    port = toplevel_funcs(pm.tree)
    port_globals = toplevel_names(pm.tree)
    ref_globals = toplevel_names(ref_tree)
    results = {}
    for name, rnode in ref.items():
        if name not in port:
            results[name] = {'verdict': 'MISSING', 'detail': 'function absent from the port', 'ref_line': rnode.lineno}
            continue
        pnode = port[name]
        res = {'port_line': pnode.lineno, 'ref_line': rnode.lineno}
        try:
            rn = Normalizer(rnode, SHAPES, ref.keys(), None, helper_rules=False, global_names=ref_globals)
            rt = rn.run()
            pn = Normalizer(pnode, SHAPES, port.keys(), len(rn.params), helper_rules=True, global_names=port_globals)
            pt = pn.run()
        except Unsupported as e:
            res.update(verdict='UNCOVERED', detail=str(e))
            results[name] = res
            continue
        if rt == pt:
            res.update(verdict='EQUIVALENT', detail='')
        else:
            d = first_diff(pt, rt)
            res.update(verdict='DIFFERENT', detail='port: %s  |  reference: %s' % (show(d[0]), show(d[1])),
                       port_term=show(d[0], maxlen=400), ref_term=show(d[1], maxlen=400))
        res['token_identical'] = _strip(pnode) == _strip(rnode)
        results[name] = res
    return results, ref, port


def _strip(node):
    body = node.body
    if body and isinstance(body[0], ast.Expr) and isinstance(body[0].value, ast.Constant) and isinstance(body[0].value.value, str):
        body = body[1:]
    return [ast.dump(s) for s in body]
