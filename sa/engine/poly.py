"""E9 - exact polynomial value domain (rational coefficients) with |.| and sin/cos atoms.

A Poly is a dict {monomial: Fraction}; a monomial is a sorted tuple of (atom, power);
an atom is a symbol name (str) or ('abs', key_of_a_sign-normalised_poly) or ('fn', name, key).
Two values are equal iff their normal forms are identical - no solving, no path exploration.
Non-negative symbols can be declared (abs(h) = h).
"""
from fractions import Fraction


class Poly:
    __slots__ = ('t',)
    NONNEG = set()

    def __init__(self, terms=None):
        self.t = {m: c for m, c in (terms or {}).items() if c != 0}

    # -- construction
    @staticmethod
    def const(c):
        return Poly({(): Fraction(c)})

    @staticmethod
    def sym(name):
        return Poly({((name, 1),): Fraction(1)})

    def key(self):
        return tuple(sorted(((m, c) for m, c in self.t.items()), key=repr))

    def __eq__(self, o):
        return isinstance(o, Poly) and self.t == o.t

    def __hash__(self):
        return hash(self.key())

    def is_const(self):
        return all(m == () for m in self.t)

    def const_value(self):
        return self.t.get((), Fraction(0))

    # -- arithmetic
    def __add__(self, o):
        o = _lift(o)
        r = dict(self.t)
        for m, c in o.t.items():
            r[m] = r.get(m, 0) + c
        return Poly(r)

    __radd__ = __add__

    def __neg__(self):
        return Poly({m: -c for m, c in self.t.items()})

    def __sub__(self, o):
        return self + (-_lift(o))

    def __rsub__(self, o):
        return _lift(o) - self

    def __mul__(self, o):
        o = _lift(o)
        r = {}
        for m1, c1 in self.t.items():
            for m2, c2 in o.t.items():
                m = _mul_mono(m1, m2)
                r[m] = r.get(m, 0) + c1 * c2
        return _trig_reduce(Poly(r))

    __rmul__ = __mul__

    def __truediv__(self, o):
        o = _lift(o)
        if not o.is_const() or o.const_value() == 0:
            if len(o.t) == 1:
                # division by a single monomial: negative powers
                (m, c), = o.t.items()
                inv = tuple((a, -p) for a, p in m)
                return self * Poly({inv: 1 / c})
            raise ValueError('division by a non-monomial polynomial')
        return Poly({m: c / o.const_value() for m, c in self.t.items()})

    def __pow__(self, n):
        if isinstance(n, Poly):
            if not n.is_const():
                raise ValueError('symbolic exponent')
            n = n.const_value()
        n = Fraction(n)
        if n.denominator != 1 or n < 0:
            raise ValueError('non-natural exponent')
        r = Poly.const(1)
        for _ in range(int(n)):
            r = r * self
        return r

    def __repr__(self):
        if not self.t:
            return '0'
        parts = []
        for m, c in sorted(self.t.items(), key=lambda x: repr(x[0])):
            ms = '*'.join(('%s' % _atom_str(a)) + ('' if p == 1 else '^%d' % p) for a, p in m)
            if ms:
                parts.append(('%s*%s' % (c, ms)) if c != 1 else ms)
            else:
                parts.append(str(c))
        return ' + '.join(parts)


def _atom_str(a):
    if isinstance(a, str):
        return a
    if a[0] == 'abs':
        return '|%s|' % Poly(dict(a[1]))
    return '%s(%s)' % (a[1], Poly(dict(a[2])))


def _lift(x):
    if isinstance(x, Poly):
        return x
    return Poly.const(x)


def _mul_mono(m1, m2):
    d = {}
    for a, p in m1 + m2:
        d[a] = d.get(a, 0) + p
    return tuple(sorted(((a, p) for a, p in d.items() if p != 0), key=lambda x: repr(x[0])))


def _trig_reduce(p):
    """sin(x)^2 -> 1 - cos(x)^2 (keeps identities like x^2+y^2+z^2 == 1 decidable)."""
    changed = True
    while changed:
        changed = False
        for m, c in list(p.t.items()):
            for i, (a, pw) in enumerate(m):
                if isinstance(a, tuple) and a[0] == 'fn' and a[1] == 'sqrt' and pw >= 2:
                    # sqrt(u)^2 -> u   (on the domain where sqrt(u) is a number at all)
                    rest = m[:i] + (((a, pw - 2),) if pw > 2 else ()) + m[i + 1:]
                    q = Poly({_mul_mono(rest, ()): c}) * Poly(dict(a[2]))
                    r = dict(p.t)
                    del r[m]
                    p = Poly(r) + q
                    changed = True
                    break
                if isinstance(a, tuple) and a[0] == 'fn' and a[1] == 'sin' and pw >= 2:
                    rest = m[:i] + (((a, pw - 2),) if pw > 2 else ()) + m[i + 1:]
                    cosatom = ('fn', 'cos', a[2])
                    q = Poly({_mul_mono(rest, ()): c}) - Poly({_mul_mono(rest, ((cosatom, 2),)): c})
                    r = dict(p.t)
                    del r[m]
                    p = Poly(r) + q
                    changed = True
                    break
            if changed:
                break
    return p


def pabs(p):
    """|p| in normal form: constants evaluated, content and sign pulled out, monomials split per factor."""
    p = _lift(p)
    if not p.t:
        return Poly()
    if p.is_const():
        return Poly.const(abs(p.const_value()))
    if len(p.t) == 1:
        (m, c), = p.t.items()
        r = Poly.const(abs(c))
        for a, pw in m:
            if isinstance(a, str) and a in Poly.NONNEG or (isinstance(a, tuple) and a[0] == 'abs') or pw % 2 == 0:
                r = r * Poly({((a, pw),): Fraction(1)})
            else:
                inner = Poly({((a, 1),): Fraction(1)})
                r = r * (Poly({((('abs', inner.key()), 1),): Fraction(1)}) ** pw)
        return r
    lead_m = sorted(p.t, key=repr)[0]
    c = p.t[lead_m]
    inner = Poly({m: v / c for m, v in p.t.items()})
    return Poly({((('abs', inner.key()), 1),): abs(c)})


def fn(name, p):
    p = _lift(p)
    return Poly({((('fn', name, p.key()), 1),): Fraction(1)})
