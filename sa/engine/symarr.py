"""Structural formula check of the two sync functions of class tm on their E6 normal form (used by C03 R03.2)."""
import ast
from .normal import Normalizer, Shapes, Unsupported, is_num, num, show

RET = {'MatrixExp3': (3, 3), 'VecToso3': (3, 3), 'so3ToVec': (3,), 'MatrixLog3': (3, 3), 'TransToRp': ('tuple', ((3, 3), (3,)))}


def _callname(t):
    if isinstance(t, tuple) and t and t[0] == 'call':
        f = t[1]
        if isinstance(f, str):
            return f.split('.')[-1]
        if isinstance(f, tuple) and f[0] == 'attr':
            return f[2]
        if isinstance(f, tuple) and f[0] == 'meth':
            return f[1]
    return None


def _field_writes(term, acc=None):
    """('setattr', base, field, value) chain -> {field: value} (last write wins)"""
    acc = {} if acc is None else acc
    if isinstance(term, tuple) and term and term[0] == 'setattr':
        _field_writes(term[1], acc)
        acc[term[2]] = term[3]
    return acc


def _stack_axis(t):
    """0 for vstack / concatenate along axis 0, 1 for hstack / concatenate along axis 1 (1-D parts: hstack and plain concatenate join
    end to end, reported as 1 / 0 alike), else None"""
    if not (isinstance(t, tuple) and t and t[0] == 'call'):
        return None
    n = _callname(t)
    if n == 'vstack':
        return 0
    if n == 'hstack':
        return 1
    if n == 'concatenate':
        ax = dict(t[3]).get('axis', num(0)) if len(t) > 3 else num(0)
        return int(ax[1]) if (isinstance(ax, tuple) and ax[0] == 'num' and int(ax[1]) in (0, 1)) else None
    return None


def _strip_shape_ops(t):
    """drop .flatten()/.reshape(..) wrappers (shape only)"""
    while isinstance(t, tuple) and t and t[0] == 'call' and _callname(t) in ('flatten', 'reshape', 'ravel') and isinstance(t[1], tuple) and t[1][0] == 'meth':
        t = t[2][0]
    return t


def _args(t):
    """arguments of a call term, without the module receiver of `mr.f(x)` style calls"""
    a = t[2]
    if isinstance(t[1], tuple) and t[1][0] == 'meth' and a and a[0][0] == 'g':
        return a[1:]
    return a


def _is_field(t, field):
    t = _strip_shape_ops(t)
    return t == ('attr', ('p', 0), field)


def _sel(t, field, lo, hi):
    """t selects elements lo..hi-1 of self.<field> (slice, or the scalarised block of the same elements)"""
    t = _strip_shape_ops(t)
    if isinstance(t, tuple) and t and t[0] == 'idx' and len(t[2]) == 1 and t[2][0][0] == 'sl':
        sl = t[2][0]
        l = 0 if sl[1] is None else int(sl[1][1])
        h = None if sl[2] is None else int(sl[2][1])
        return (l, h) == (lo, hi) and _is_field(t[1], field)
    if isinstance(t, tuple) and t and t[0] == 'block' and len(t[2]) == hi - lo:
        for k, c in enumerate(t[2]):
            x = c[4]
            if not (x[0] == 'idx' and x[2] == (num(lo + k),) and _is_field(x[1], field)):
                return False
        return True
    return False


def check_tm_sync_formulas(model, rep, tmcls):
    shapes = Shapes({}, RET)
    for name in ('TAAtoTM', 'TMtoTAA'):
        fi = tmcls.methods.get(name)
        nz = Normalizer(fi.node, shapes, [], None, True, {'mr', 'np', 'R'})
        if any(isinstance(c_, ast.Call) and isinstance(c_.func, ast.Attribute) and c_.func.attr in tmcls.methods and c_.func.attr.startswith('_')
               and not c_.func.attr.startswith('__') for c_ in ast.walk(fi.node)):
            from . import tv as _tv
            nz = _tv._normalizer(model, fi.module, fi.node, name, False, tmcls)        # private / static helpers of the class inlined
        try:
            env = nz.run_env()
        except Unsupported as e:
            rep.unresolved_item('R03.2', fi.where, 'sync function outside the normaliser: %s' % e)
            continue
        if env is None:
            rep.ob('R03.2', fi, name + ' formula', False, 'sync function returns a value on some path instead of storing the representation')
            continue
        w = _field_writes(env.get('self'))
        self0 = ('p', 0)
        if name == 'TAAtoTM':
            tmv = w.get('TM')
            # the TAA the matrix is built from: either the incoming field or its (6,1) reshape stored first
            ok, msg = False, 'TM is %s' % show(tmv)[:160] if tmv is not None else 'TM not assigned'
            if tmv is not None and _stack_axis(tmv) == 0 and tmv[2] and tmv[2][0][0] == 'tuple' and len(tmv[2][0][1]) == 2:
                top, last = tmv[2][0][1]
                last_ok = last[0] == 'block' and [c[4] for c in last[2]] == [num(0), num(0), num(0), num(1)]
                if _stack_axis(top) == 1 and top[2][0][0] == 'tuple' and len(top[2][0][1]) == 2:
                    rot, tra = top[2][0][1]
                    rot_ok = _callname(rot) == 'MatrixExp3' and _callname(_args(rot)[0]) == 'VecToso3'
                    src_ok = rot_ok and _sel(_args(_args(rot)[0])[0], 'TAA', 3, 6)
                    tra_ok = _sel(tra, 'TAA', 0, 3)
                    ok = last_ok and rot_ok and src_ok and tra_ok
                    msg = 'last row 0 0 0 1: %s; rotation = MatrixExp3(VecToso3(TAA[3:6])): %s; translation = TAA[0:3]: %s' % (last_ok, rot_ok and src_ok, tra_ok)
            rep.ob('R03.2', fi, 'TM = [[exp(hat(TAA[3:6])), TAA[0:3]], [0 0 0 1]]', ok, msg)
            taa = w.get('TAA')
            if taa is not None:
                okr = _callname(taa) == 'reshape' and taa[2][0] == ('attr', self0, 'TAA')
                rep.ob('R03.2', fi, 'TAA only normalised to a (6,1) column', okr, 'TAA is rewritten as %s inside TAAtoTM' % show(taa)[:100])
        else:
            taa = w.get('TAA')
            ok, msg = False, 'TAA is %s' % show(taa)[:160] if taa is not None else 'TAA not assigned'
            def is_rp(t, k):
                return isinstance(t, tuple) and t[0] == 'unpack' and t[2] == k and _callname(t[1]) == 'TransToRp' and _args(t[1]) == (('attr', self0, 'TM'),)
            if taa is not None and _callname(taa) == 'reshape' and len(taa[2]) == 2 and taa[2][1] == ('tuple', (num(6), num(1))) \
                    and _stack_axis(taa[2][0]) in (0, 1) and taa[2][0][2][0][0] == 'tuple' and len(taa[2][0][2][0][1]) == 2:
                # the two 3-vectors joined end to end, then made a column: the same (6,1) column
                pos, r = taa[2][0][2][0][1]
                pos_ok = is_rp(_strip_shape_ops(pos), 1)
                r = _strip_shape_ops(r)
                rot_ok = _callname(r) == 'so3ToVec' and _callname(_args(r)[0]) == 'MatrixLog3' and is_rp(_args(_args(r)[0])[0], 0)
                ok = pos_ok and rot_ok
                msg = 'position part = TransToRp(TM)[1]: %s; rotation part = so3ToVec(MatrixLog3(TransToRp(TM)[0])): %s' % (pos_ok, rot_ok)
            if taa is not None and _stack_axis(taa) == 0 and taa[2] and taa[2][0][0] == 'tuple' and len(taa[2][0][1]) == 2:
                pos, rotv = taa[2][0][1]

                def is_col(t):
                    return _callname(t) == 'reshape' and isinstance(t[1], tuple) and t[1][0] == 'meth' and len(t[2]) == 2 and t[2][1] == ('tuple', (num(3), num(1)))
                pos_ok = is_col(pos) and is_rp(pos[2][0], 1)
                r = rotv[2][0] if is_col(rotv) else None
                rot_ok = r is not None and _callname(r) == 'so3ToVec' and _callname(_args(r)[0]) == 'MatrixLog3' and is_rp(_args(_args(r)[0])[0], 0)
                ok = pos_ok and rot_ok
                msg = 'position column = TransToRp(TM)[1]: %s; rotation column = so3ToVec(MatrixLog3(TransToRp(TM)[0])): %s' % (pos_ok, rot_ok)
            rep.ob('R03.2', fi, 'TAA = [[p], [vee(log(R))]] as a (6,1) column, (R, p) = TransToRp(TM)', ok, msg)
