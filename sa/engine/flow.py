"""E2 - structured forward abstract interpretation over Python statement trees.

A rule supplies a Domain (transfer / assume); the engine enumerates all control paths
symbolically as *sets of abstract states* (a disjunctive, path-sensitive analysis):
if/elif/else, for/while (+else), break/continue, return, raise, try/except/else/finally,
with.  Loops are iterated to a fixpoint over the finite state set.

States must be hashable.  No repository code is executed.
"""
import ast


class Domain:
    """Override in rule code."""

    def transfer(self, stmt, state):
        """Simple statement (Assign, AugAssign, Expr, Delete, Assert, Import, nested def...).
        Return an iterable of successor states (usually one).  May return
        ('raise', state) tuples inside the iterable to signal an exceptional exit."""
        return (state,)

    def assume(self, test, truth, state):
        """Atom `test` is assumed to evaluate to `truth`.  Return refined state, or None
        when the branch is infeasible in this state."""
        return state

    def enter_loop(self, node, state):
        """`for` target binding etc.  Called for each iteration entry."""
        return (state,)

    def with_enter(self, node, state):
        return (state,)

    def on_return(self, node, state):
        """States after evaluating the return expression (iterable)."""
        return (state,)

    def effects(self, expr, state):
        """Side effects of evaluating a test / iterator / context expression (iterable of states)."""
        return (state,)

    def widen(self, states):
        return states

    def loop_may_skip(self, node, state):
        """False when the rule knows the loop body runs at least once (e.g. range(num_dof), num_dof >= 1)."""
        return True

    def enter_while(self, node, state):
        """States entering the body of a `while` (iterable); path-recording domains bound the number of rounds here."""
        return (state,)

    def handler_enter(self, handler, state):
        """States on entry to an `except` handler (iterable); domains that record paths mark the entry."""
        return (state,)

    def while_may_skip(self, node, state):
        """False when the rule knows the body of this `while` runs at least once (a counting loop `k = 0; while k < num_dof`)."""
        return True

    MAX_STATES = 256
    MAX_ITERS = 40


class Exit:
    __slots__ = ('kind', 'node', 'state')

    def __init__(self, kind, node, state):
        self.kind = kind    # 'return' | 'fall' | 'raise'
        self.node = node
        self.state = state

    def __repr__(self):
        return 'Exit(%s@%s,%r)' % (self.kind, getattr(self.node, 'lineno', '?'), self.state)


class _Out:
    def __init__(self):
        self.fall = set()
        self.brk = set()
        self.cont = set()
        self.exits = []   # Exit (return/raise)

    def merge_nonlocal(self, other):
        self.brk |= other.brk
        self.cont |= other.cont
        self.exits.extend(other.exits)


def split_cond(dom, test, truth, states):
    """All states after assuming `test` == truth, splitting and/or/not."""
    out = set()
    if isinstance(test, ast.BoolOp):
        is_and = isinstance(test.op, ast.And)
        if is_and == truth:
            # all operands must be `truth` (and->True, or->False)
            cur = set(states)
            for v in test.values:
                cur = split_cond(dom, v, truth, cur)
            return cur
        # some operand is `truth`, earlier ones are not
        cur = set(states)
        for v in test.values:
            out |= split_cond(dom, v, truth, cur)
            cur = split_cond(dom, v, not truth, cur)
        return out
    if isinstance(test, ast.UnaryOp) and isinstance(test.op, ast.Not):
        return split_cond(dom, test.operand, not truth, states)
    for s in states:
        r = dom.assume(test, truth, s)
        if r is not None:
            out.add(r)
    return out


class Flow:
    def __init__(self, dom):
        self.dom = dom

    def run(self, body, init_states):
        """body: list of statements.  -> list of Exit (normal fallthrough exits have kind 'fall')."""
        out = self.block(body, set(init_states))
        exits = list(out.exits)
        for s in out.fall:
            exits.append(Exit('fall', None, s))
        # break/continue outside loop cannot happen in valid code
        return exits

    def run_loop_body(self, body, init_states):
        """One iteration of a loop body in isolation.
        -> (ends, breaks, exits): states at the end of the iteration (fall-through or `continue`),
           states leaving through `break`, and return/raise exits."""
        out = self.block(body, set(init_states))
        return set(out.fall) | set(out.cont), set(out.brk), list(out.exits)

    # ------------------------------------------------------------------
    def block(self, stmts, states):
        out = _Out()
        cur = set(states)
        for st in stmts:
            if not cur:
                break
            o = self.stmt(st, cur)
            out.merge_nonlocal(o)
            cur = o.fall
            if len(cur) > self.dom.MAX_STATES:
                cur = set(self.dom.widen(cur))
        out.fall = cur
        return out

    def stmt(self, st, states):
        dom = self.dom
        out = _Out()
        if isinstance(st, ast.If):
            states = self._effects(st.test, states)
            t = split_cond(dom, st.test, True, states)
            f = split_cond(dom, st.test, False, states)
            o1 = self.block(st.body, t)
            o2 = self.block(st.orelse, f) if st.orelse else None
            out.merge_nonlocal(o1)
            out.fall |= o1.fall
            if o2 is not None:
                out.merge_nonlocal(o2)
                out.fall |= o2.fall
            else:
                out.fall |= f
            return out
        if isinstance(st, (ast.While, ast.For, ast.AsyncFor)):
            return self.loop(st, states)
        if isinstance(st, ast.Return):
            for s in states:
                for r in dom.on_return(st, s):
                    out.exits.append(Exit('return', st, r))
            return out
        if isinstance(st, ast.Raise):
            for s in states:
                out.exits.append(Exit('raise', st, s))
            return out
        if isinstance(st, ast.Break):
            out.brk |= states
            return out
        if isinstance(st, ast.Continue):
            out.cont |= states
            return out
        if isinstance(st, ast.Pass):
            out.fall |= states
            return out
        if isinstance(st, (ast.With, ast.AsyncWith)):
            cur = set()
            for s in states:
                cur.update(dom.with_enter(st, s))
            o = self.block(st.body, cur)
            out.merge_nonlocal(o)
            out.fall |= o.fall
            return out
        if isinstance(st, ast.Try) or st.__class__.__name__ == 'TryStar':
            return self.try_(st, states)
        if isinstance(st, ast.Match):
            # conservative: every case may or may not run
            out.fall |= states
            for case in st.cases:
                o = self.block(case.body, states)
                out.merge_nonlocal(o)
                out.fall |= o.fall
            return out
        # simple statement
        for s in states:
            for r in dom.transfer(st, s):
                if isinstance(r, tuple) and len(r) == 2 and r[0] == 'raise':
                    out.exits.append(Exit('raise', st, r[1]))
                else:
                    out.fall.add(r)
        return out

    def _effects(self, expr, states):
        out = set()
        for s in states:
            out.update(self.dom.effects(expr, s))
        return out

    def loop(self, st, states):
        dom = self.dom
        out = _Out()
        is_while = isinstance(st, ast.While)
        head = set(states)        # states at loop head (before test)
        seen_head = set()
        exit_normal = set()       # states leaving by a false test / exhausted iterator
        iters = 0
        while True:
            new = head - seen_head
            if not new:
                break
            iters += 1
            if iters > dom.MAX_ITERS:
                raise RuntimeError('loop fixpoint not reached at line %d' % st.lineno)
            seen_head |= new
            if is_while:
                new_e = self._effects(st.test, new)
                enter = set()
                for s_ in split_cond(dom, st.test, True, new_e):
                    enter.update(dom.enter_while(st, s_))
                leave = split_cond(dom, st.test, False, new_e)
                if iters == 1:
                    leave = {s for s in leave if dom.while_may_skip(st, s)}
                exit_normal |= leave
            else:
                enter = set()
                if iters == 1:
                    new = self._effects(st.iter, new)
                for s in new:
                    enter.update(dom.enter_loop(st, s))
                if iters == 1:
                    exit_normal |= {s for s in new if dom.loop_may_skip(st, s)}
                else:
                    exit_normal |= new   # iterator may be exhausted at any later head state
            o = self.block(st.body, enter)
            out.exits.extend(o.exits)
            out.fall |= o.brk     # break skips orelse
            head = seen_head | o.fall | o.cont
            if len(head) > dom.MAX_STATES:
                head = set(dom.widen(head)) | seen_head
        if st.orelse:
            o = self.block(st.orelse, exit_normal)
            out.merge_nonlocal(o)
            out.fall |= o.fall
        else:
            out.fall |= exit_normal
        return out

    def try_(self, st, states):
        out = _Out()
        # body: collect every intermediate state as a potential handler entry
        inter = set(states)
        cur = set(states)
        body_out = _Out()
        for s in st.body:
            if not cur:
                break
            o = self.stmt(s, cur)
            body_out.merge_nonlocal(o)
            cur = o.fall
            inter |= cur
            # states inside compound statements: approximate with states at their exits
            inter |= o.brk | o.cont
            for e in o.exits:
                inter.add(e.state)
        body_out.fall = cur
        raised_in_body = [e for e in body_out.exits if e.kind == 'raise']
        after = _Out()
        after.brk |= body_out.brk
        after.cont |= body_out.cont
        after.exits.extend(e for e in body_out.exits if e.kind != 'raise')
        if st.handlers:
            for h in st.handlers:
                entry = set()
                for s_ in inter:
                    entry.update(self.dom.handler_enter(h, s_))
                o = self.block(h.body, entry)
                after.merge_nonlocal(o)
                after.fall |= o.fall
            # a bare/`Exception` handler catches explicit raises; otherwise they may propagate too
            catch_all = any(h.type is None or (isinstance(h.type, ast.Name) and h.type.id in ('Exception', 'BaseException'))
                            for h in st.handlers)
            if not catch_all:
                after.exits.extend(raised_in_body)
        else:
            after.exits.extend(raised_in_body)
        if st.orelse:
            o = self.block(st.orelse, body_out.fall)
            after.merge_nonlocal(o)
            after.fall |= o.fall
        else:
            after.fall |= body_out.fall
        if not st.finalbody:
            return after
        # finally: run on every way out
        fo = self.block(st.finalbody, after.fall)
        out.merge_nonlocal(fo)
        out.fall |= fo.fall
        for kind, sset in (('brk', after.brk), ('cont', after.cont)):
            if sset:
                o = self.block(st.finalbody, sset)
                out.exits.extend(o.exits)
                getattr(out, kind).update(o.fall)
        for e in after.exits:
            o = self.block(st.finalbody, {e.state})
            out.exits.extend(o.exits)
            for s in o.fall:
                out.exits.append(Exit(e.kind, e.node, s))
        return out
