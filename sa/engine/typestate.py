"""E4 - event-driven typestate domain on top of the flow engine.

State = (marks, consts):
  marks  - rule-specific hashable (e.g. frozenset of dirty markers)
  consts - frozenset of (local name, constant) pairs known on this path (flag filtering)

Subclasses override on_call / on_store; events are delivered in evaluation order
(calls inside the value before the store of an assignment).
"""
import ast

from .flow import Domain
from .alias import calls_in_order

_UNK = object()


def consts_get(consts, name):
    for n, v in consts:
        if n == name:
            return v
    return _UNK


def consts_set(consts, name, value=_UNK):
    out = frozenset((n, v) for n, v in consts if n != name)
    if value is not _UNK:
        out = out | {(name, value)}
    return out


def _const_of(node):
    if isinstance(node, ast.Constant) and isinstance(node.value, (int, bool, str, type(None), float)):
        return node.value
    if isinstance(node, ast.UnaryOp) and isinstance(node.op, ast.USub) and isinstance(node.operand, ast.Constant) \
            and isinstance(node.operand.value, (int, float)):
        return -node.operand.value
    return _UNK


class EventDomain(Domain):
    # ---- hooks -------------------------------------------------------
    def on_call(self, call, state):
        return (state,)

    def on_store(self, target, value, stmt, state):
        """target: ast node being stored to (Name / Attribute / Subscript)."""
        return (state,)

    # ---- machinery ----------------------------------------------------
    def effects(self, expr, state):
        if expr is None:
            return (state,)
        states = {state}
        for c in calls_in_order(expr):
            nxt = set()
            for s in states:
                nxt.update(self.on_call(c, s))
            states = nxt
        return states

    def on_return(self, node, state):
        return self.effects(node.value, state)

    def _store_all(self, targets, value, stmt, states):
        for t in targets:
            if isinstance(t, (ast.Tuple, ast.List)):
                # clients that track aliases may consult `_unpack_rhs`: the value an element of the unpacking may come from (the
                # matching element of a literal right-hand side, else the whole right-hand side - a may-alias over-approximation)
                prev = getattr(self, '_unpack_rhs', None)
                for j, el in enumerate(t.elts):
                    rhs = value if value is not None else prev
                    if isinstance(rhs, (ast.Tuple, ast.List)) and len(rhs.elts) == len(t.elts) and \
                            not any(isinstance(x, ast.Starred) for x in list(rhs.elts) + list(t.elts)):
                        rhs = rhs.elts[j]
                    self._unpack_rhs = rhs
                    try:
                        states = self._store_all([el], None, stmt, states)
                    finally:
                        self._unpack_rhs = prev
                continue
            if isinstance(t, ast.Starred):
                t = t.value
            nxt = set()
            for s in states:
                marks, consts = s
                if isinstance(t, ast.Name):
                    cv = _const_of(value) if value is not None else _UNK
                    consts = consts_set(consts, t.id, cv)
                    # constants copied from other known names
                    if value is not None and isinstance(value, ast.Name):
                        v2 = consts_get(s[1], value.id)
                        if v2 is not _UNK:
                            consts = consts_set(consts, t.id, v2)
                    s = (marks, consts)
                else:
                    # index expressions may contain calls
                    for s2 in self.effects(t, s):
                        nxt.update(self.on_store(t, value, stmt, s2))
                    continue
                nxt.update(self.on_store(t, value, stmt, s))
            states = nxt
        return states

    def transfer(self, stmt, state):
        if isinstance(stmt, ast.Assign):
            states = self.effects(stmt.value, state)
            return self._store_all(stmt.targets, stmt.value, stmt, set(states))
        if isinstance(stmt, ast.AnnAssign):
            if stmt.value is None:
                return (state,)
            states = self.effects(stmt.value, state)
            return self._store_all([stmt.target], stmt.value, stmt, set(states))
        if isinstance(stmt, ast.AugAssign):
            states = self.effects(stmt.value, state)
            return self._store_all([stmt.target], None, stmt, set(states))
        if isinstance(stmt, ast.Expr):
            return self.effects(stmt.value, state)
        if isinstance(stmt, (ast.FunctionDef, ast.AsyncFunctionDef, ast.ClassDef)):
            marks, consts = state
            return ((marks, consts_set(consts, stmt.name)),)
        if isinstance(stmt, ast.Assert):
            return self.effects(stmt.test, state)
        if isinstance(stmt, ast.Delete):
            return (state,)
        return (state,)

    def enter_loop(self, node, state):
        marks, consts = state
        for n in ast.walk(node.target):
            if isinstance(n, ast.Name):
                consts = consts_set(consts, n.id)
        return ((marks, consts),)

    def with_enter(self, node, state):
        states = {state}
        for item in node.items:
            nxt = set()
            for s in states:
                nxt.update(self.effects(item.context_expr, s))
            states = nxt
            if item.optional_vars is not None:
                states = self._store_all([item.optional_vars], None, node, states)
        return states

    def assume(self, test, truth, state):
        marks, consts = state
        # name == const / name != const / name is None / bare name
        if isinstance(test, ast.Compare) and len(test.ops) == 1:
            l, r = test.left, test.comparators[0]
            op = test.ops[0]
            if isinstance(r, ast.Name) and not isinstance(l, ast.Name):
                l, r = r, l
            if isinstance(l, ast.Name):
                cv = _const_of(r)
                known = consts_get(consts, l.id)
                if cv is not _UNK and isinstance(op, (ast.Eq, ast.NotEq, ast.Is, ast.IsNot)):
                    want_eq = isinstance(op, (ast.Eq, ast.Is)) == truth
                    if known is not _UNK:
                        try:
                            same = (known == cv) and (type(known) is type(cv) or isinstance(op, (ast.Eq, ast.NotEq)))
                        except Exception:
                            same = False
                        if same != want_eq:
                            return None
                        return state
                    if want_eq:
                        return (marks, consts_set(consts, l.id, cv))
                    return state
        if isinstance(test, ast.Name):
            known = consts_get(consts, test.id)
            if known is not _UNK:
                if bool(known) != truth:
                    return None
        if isinstance(test, ast.Constant):
            if bool(test.value) != truth:
                return None
        return state


# ---------------------------------------------------------------------------------------
# Must-hold facts (guard dominance)
# ---------------------------------------------------------------------------------------
MUTATORS = {'append', 'remove', 'pop', 'insert', 'extend', 'clear', 'update', 'setdefault', 'popitem', 'sort',
            'reverse', 'add', 'discard'}


def norm_fact(test, truth):
    """(truth, text) with negative comparison operators folded into the polarity."""
    if isinstance(test, ast.Compare) and len(test.ops) == 1:
        op = test.ops[0]
        flip = {ast.IsNot: ast.Is, ast.NotIn: ast.In, ast.NotEq: ast.Eq}
        for neg, pos in flip.items():
            if isinstance(op, neg):
                t2 = ast.Compare(left=test.left, ops=[pos()], comparators=test.comparators)
                return (not truth, ast.unparse(t2))
    return (truth, ast.unparse(test))


def names_in(node):
    return frozenset(n.id for n in ast.walk(node) if isinstance(n, ast.Name))


class FactDomain(EventDomain):
    """marks = (facts, user); facts = frozenset of (truth, text, names).  A fact dies when a name it
    mentions is rebound, or when an object expression it mentions is stored into / mutated."""

    def user_store(self, target, value, stmt, facts, user):
        return user

    def user_call(self, call, facts, user):
        return user

    @staticmethod
    def has(facts, truth, text):
        return any(f[0] == truth and f[1] == text for f in facts)

    def on_store(self, target, value, stmt, state):
        (facts, user), consts = state
        user = self.user_store(target, value, stmt, facts, user)
        if isinstance(target, ast.Name):
            facts = frozenset(f for f in facts if target.id not in f[2])
        else:
            base = target
            while isinstance(base, ast.Subscript):
                base = base.value
            txt = ast.unparse(base)
            # writing INTO an object changes nothing about which object the name holds: facts about its identity (None-ness) survive
            ident = {'%s is None' % txt, '%s == None' % txt, '%s is not None' % txt, '%s != None' % txt}
            facts = frozenset(f for f in facts if txt not in f[1] or f[1] in ident)
        return (((facts, user), consts),)

    def on_call(self, call, state):
        (facts, user), consts = state
        user = self.user_call(call, facts, user)
        f = call.func
        if isinstance(f, ast.Attribute) and f.attr in MUTATORS:
            txt = ast.unparse(f.value)
            base = f.value
            while isinstance(base, ast.Subscript):
                base = base.value
            btxt = ast.unparse(base)
            facts = frozenset(x for x in facts if txt not in x[1] and btxt not in x[1])
        return (((facts, user), consts),)

    def enter_loop(self, node, state):
        out = []
        for (marks, consts) in super().enter_loop(node, state):
            facts, user = marks
            tn = names_in(node.target)
            facts = frozenset(f for f in facts if not (tn & f[2]))
            out.append(((facts, user), consts))
        return out

    def assume(self, test, truth, state):
        st = super().assume(test, truth, state)
        if st is None:
            return None
        (facts, user), consts = st
        t, txt = norm_fact(test, truth)
        # contradiction with a live fact => infeasible
        if self.has(facts, not t, txt):
            return None
        facts = facts | {(t, txt, names_in(test))}
        return ((facts, user), consts)
