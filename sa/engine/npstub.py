"""E10 - which `np.<attr>` resolve in the environment the suite runs in.

Static oracle (parsed, never imported): the installed NumPy's type stub `numpy/__init__.pyi`
(module-level names), its table of attributes removed in 2.0 (`_expired_attrs_2_0.py`) and the
`_type_info` table of aliases removed in 1.24 (`__former_attrs__` in `numpy/__init__.py`).
verdict(attr) -> 'ok' | 'removed' | 'unknown'.  Only 'removed' is ever reported (unknown => silent).
If NumPy's sources cannot be found the oracle is unavailable and every attribute is 'unknown'.
"""
import ast
import glob
import os

_CACHE = {}


def _numpy_dir():
    cands = glob.glob('/venv/lib/python3*/site-packages/numpy')
    for c in cands:
        if os.path.exists(os.path.join(c, '__init__.pyi')):
            return c
    try:
        import importlib.util
        spec = importlib.util.find_spec('numpy')
        if spec and spec.origin:
            d = os.path.dirname(spec.origin)
            if os.path.exists(os.path.join(d, '__init__.pyi')):
                return d
    except Exception:  # noqa
        pass
    return None


def load():
    if 'db' in _CACHE:
        return _CACHE['db']
    d = _numpy_dir()
    db = {'available': False, 'names': set(), 'removed': {}, 'dir': d}
    if d is None:
        _CACHE['db'] = db
        return db
    try:
        with open(os.path.join(d, '__init__.pyi')) as f:
            tree = ast.parse(f.read())
        names = set()
        for n in tree.body:
            if isinstance(n, ast.ImportFrom):
                for a in n.names:
                    names.add(a.asname or a.name)
            elif isinstance(n, ast.Import):
                for a in n.names:
                    names.add((a.asname or a.name).split('.')[0])
            elif isinstance(n, (ast.FunctionDef, ast.AsyncFunctionDef, ast.ClassDef)):
                names.add(n.name)
            elif isinstance(n, ast.Assign):
                for t in n.targets:
                    if isinstance(t, ast.Name):
                        names.add(t.id)
                        if t.id == '__all__':
                            for e in ast.walk(n.value):
                                if isinstance(e, ast.Constant) and isinstance(e.value, str):
                                    names.add(e.value)
            elif isinstance(n, ast.AnnAssign) and isinstance(n.target, ast.Name):
                names.add(n.target.id)
            elif n.__class__.__name__ == 'TypeAlias':
                names.add(n.name.id)
        for sub in os.listdir(d):
            p = os.path.join(d, sub)
            if os.path.isdir(p) and os.path.exists(os.path.join(p, '__init__.py')):
                names.add(sub)
            elif sub.endswith('.py') and not sub.startswith('_'):
                names.add(sub[:-3])
        removed = {}
        ep = os.path.join(d, '_expired_attrs_2_0.py')
        if os.path.exists(ep):
            with open(ep) as f:
                et = ast.parse(f.read())
            for n in ast.walk(et):
                if isinstance(n, ast.Dict):
                    for k, v in zip(n.keys, n.values):
                        if isinstance(k, ast.Constant) and isinstance(k.value, str):
                            removed[k.value] = 'removed in NumPy 2.0'
        with open(os.path.join(d, '__init__.py')) as f:
            it = ast.parse(f.read())
        for n in ast.walk(it):
            if isinstance(n, ast.Assign) and any(isinstance(t, ast.Name) and t.id == '_type_info' for t in n.targets):
                for e in ast.walk(n.value):
                    if isinstance(e, ast.Tuple) and e.elts and isinstance(e.elts[0], ast.Constant) and isinstance(e.elts[0].value, str):
                        removed.setdefault(e.elts[0].value, 'alias removed in NumPy 1.24')
        # a name that the stub still declares is not removed
        for k in list(removed):
            if k in names and k not in ('float', 'int', 'bool', 'object', 'str', 'complex', 'long', 'unicode'):
                del removed[k]
        db = {'available': True, 'names': names, 'removed': removed, 'dir': d}
    except (OSError, SyntaxError):
        pass
    _CACHE['db'] = db
    return db


def verdict(attr):
    db = load()
    if not db['available']:
        return 'unknown'
    if attr in db['removed']:
        return 'removed'
    if attr in db['names']:
        return 'ok'
    return 'unknown'


def reason(attr):
    return load()['removed'].get(attr, '')


def np_attrs(model, modules=None):
    """All `np.<attr>` uses in the given modules: [(module, func_or_None, attr, lineno)]"""
    out = []
    for m in model.modules.values():
        if modules is not None and m.name not in modules:
            continue
        np_names = {k for k, v in m.imports.items() if v == ('module', 'numpy')}
        if not np_names:
            continue
        for n in ast.walk(m.tree):
            if isinstance(n, ast.Attribute) and isinstance(n.value, ast.Name) and n.value.id in np_names:
                out.append((m, n.attr, n.lineno, n))
    return out


def scalar_has_method(cls_name, method):
    """'yes' | 'no' | 'unknown': does the NumPy scalar class `cls_name` (as declared in the installed type stub) define or
    inherit `method`?  'no' only when the class and every stub-declared base could be followed."""
    d = _numpy_dir()
    if d is None:
        return 'unknown'
    key = 'classes'
    if key not in _CACHE:
        classes = {}
        try:
            with open(os.path.join(d, '__init__.pyi')) as f:
                tree = ast.parse(f.read())
            for n in tree.body:
                if isinstance(n, ast.ClassDef):
                    bases = []
                    for b in n.bases:
                        while isinstance(b, ast.Subscript):
                            b = b.value
                        if isinstance(b, ast.Name):
                            bases.append(b.id)
                        elif isinstance(b, ast.Attribute):
                            bases.append(b.attr)
                    meths = {m.name for m in n.body if isinstance(m, (ast.FunctionDef, ast.AsyncFunctionDef))}
                    meths |= {t.id for m in n.body if isinstance(m, ast.Assign) for t in m.targets if isinstance(t, ast.Name)}
                    meths |= {m.target.id for m in n.body if isinstance(m, ast.AnnAssign) and isinstance(m.target, ast.Name)}
                    classes[n.name] = (bases, meths)
        except (OSError, SyntaxError):
            classes = {}
        _CACHE[key] = classes
    classes = _CACHE[key]
    if cls_name not in classes:
        return 'unknown'
    seen, todo, unknown = set(), [cls_name], False
    while todo:
        c = todo.pop()
        if c in seen:
            continue
        seen.add(c)
        if c in ('Generic', 'Protocol', 'object'):
            continue
        if c not in classes:
            unknown = True
            continue
        bases, meths = classes[c]
        if method in meths:
            return 'yes'
        todo.extend(bases)
    return 'unknown' if unknown else 'no'
