"""E3 (part) - NumPy freshness / aliasing transfer table, used by several rules.

`may_alias(expr, env)` -> set of origins the *array value* of expr may share storage with.
Origins are opaque hashables supplied by `leaf(expr)` (e.g. ('self','TAA'), ('param','x')).
FRESH results yield the empty set.  The table was checked against NumPy 2.5.3 semantics
(see DESIGN.md section 6): views are produced by basic slicing / integer row indexing,
.reshape/.T/.transpose()/.conj() (real dtype)/.view/.ravel/.squeeze/np.asarray/np.squeeze/
np.ravel/np.reshape/np.transpose/np.atleast_*; everything else listed as FRESH copies.
Unknown calls are treated as returning fresh storage (unknown => silent).
"""
import ast

VIEW_METHODS = {'reshape', 'transpose', 'conj', 'conjugate', 'view', 'ravel', 'squeeze', 'swapaxes', 'diagonal'}
VIEW_ATTRS = {'T', 'real', 'flat'}
VIEW_NP_FUNCS = {'asarray', 'squeeze', 'ravel', 'reshape', 'transpose', 'atleast_1d', 'atleast_2d',
                 'asanyarray', 'ascontiguousarray', 'swapaxes', 'diagonal', 'asfarray'}
FRESH_METHODS = {'copy', 'flatten', 'astype', 'tolist', 'dot', 'sum', 'round', 'clip', 'cumsum', 'inv', 'gTM',
                 'gTAA', 'gRot', 'getData', 'getForce', 'getMoment'}


def is_basic_index(sl):
    """Basic (view-producing) indexing: ints, slices, tuples of those.  Conservative: anything
    that is not obviously fancy (list / array literal / comparison) is treated as basic => view."""
    if isinstance(sl, ast.Tuple):
        return all(is_basic_index(e) for e in sl.elts)
    if isinstance(sl, (ast.List, ast.ListComp, ast.Compare, ast.Call)):
        return False   # fancy / boolean-mask / np.where(...) indexing copies
    return True


def may_alias(expr, leaf, env=None, np_names=('np', 'numpy')):
    """env: {local name: set(origins)}; leaf(expr) -> set(origins) or None for non-leaf."""
    env = env or {}
    r = leaf(expr)
    if r is not None:
        return set(r)
    if isinstance(expr, ast.Name):
        return set(env.get(expr.id, ()))
    if isinstance(expr, ast.Subscript):
        if is_basic_index(expr.slice):
            return may_alias(expr.value, leaf, env, np_names)
        return set()
    if isinstance(expr, ast.Attribute):
        if expr.attr in VIEW_ATTRS:
            return may_alias(expr.value, leaf, env, np_names)
        return set()
    if isinstance(expr, ast.Call):
        f = expr.func
        if isinstance(f, ast.Attribute):
            if isinstance(f.value, ast.Name) and f.value.id in np_names:
                if f.attr in VIEW_NP_FUNCS and expr.args:
                    return may_alias(expr.args[0], leaf, env, np_names)
                if f.attr == 'array' and expr.args:
                    for kw in expr.keywords:
                        if kw.arg == 'copy' and isinstance(kw.value, ast.Constant) and kw.value.value in (False, None):
                            return may_alias(expr.args[0], leaf, env, np_names)
                return set()
            if f.attr in VIEW_METHODS:
                return may_alias(f.value, leaf, env, np_names)
            return set()
        return set()
    if isinstance(expr, ast.IfExp):
        return may_alias(expr.body, leaf, env, np_names) | may_alias(expr.orelse, leaf, env, np_names)
    if isinstance(expr, (ast.Tuple, ast.List)):
        out = set()
        for e in expr.elts:
            out |= may_alias(e, leaf, env, np_names)
        return out
    if isinstance(expr, ast.NamedExpr):
        return may_alias(expr.value, leaf, env, np_names)
    if isinstance(expr, ast.Starred):
        return may_alias(expr.value, leaf, env, np_names)
    return set()


def calls_in_order(node):
    """Call nodes inside `node` in evaluation order (arguments before the call itself).
    Does not descend into lambdas / nested defs / comprehensions' bodies are included."""
    out = []

    def go(n):
        if isinstance(n, (ast.Lambda, ast.FunctionDef, ast.AsyncFunctionDef, ast.ClassDef)):
            return
        if isinstance(n, ast.Call):
            go(n.func)
            for a in n.args:
                go(a)
            for k in n.keywords:
                go(k.value)
            out.append(n)
            return
        for c in ast.iter_child_nodes(n):
            go(c)
    go(node)
    return out
