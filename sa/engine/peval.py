"""Partial evaluation of a method body at the syntax-tree level (no repository code is executed).

`flatten(methods, fn)` returns a deep copy of the FunctionDef `fn` in which
  * calls of private helpers of the same class that are used as a whole statement (`self._h(a, b)`) or as the value of a
    `return` / single assignment (`return self._h(a, b)`, `x = self._h(a, b)`) are replaced by the helper's body, with the
    helper's parameters replaced by the argument expressions (arguments must be side-effect free: names, attributes, constants,
    bound-method references, simple arithmetic on those) and the helper's locals renamed apart;
  * `for <targets> in enumerate(<tuple literal>)` / `for x in <tuple literal>` loops are unrolled (also through a local that
    is bound once to a tuple / list literal);
  * integer arithmetic on constants is folded, and a call whose callee expression was replaced by a bound method reads as
    a direct call (`constraint()` -> `self._legLengthConstraint()`).
A helper is inlined only when every `return` in it is in tail position of an if/else chain (so that replacing `return e`
by `RESULT = e` / `return e` preserves control flow).  The result is only ever ANALYSED, never run.
"""
import ast
import copy
import itertools

_counter = itertools.count(1)


def _pure_arg(e):
    if isinstance(e, (ast.Constant, ast.Name)):
        return True
    if isinstance(e, ast.Attribute):
        return _pure_arg(e.value)
    if isinstance(e, ast.BinOp):
        return _pure_arg(e.left) and _pure_arg(e.right)
    if isinstance(e, ast.UnaryOp):
        return _pure_arg(e.operand)
    if isinstance(e, (ast.Tuple, ast.List)):
        return all(_pure_arg(x) for x in e.elts)
    if isinstance(e, ast.Subscript):
        return _pure_arg(e.value) and _pure_arg(e.slice)
    if isinstance(e, ast.Compare):
        return _pure_arg(e.left) and all(_pure_arg(c) for c in e.comparators)
    if isinstance(e, ast.BoolOp):
        return all(_pure_arg(v) for v in e.values)
    return False


class _Subst(ast.NodeTransformer):
    def __init__(self, mapping):
        self.mapping = mapping

    def visit_Name(self, n):
        if n.id in self.mapping:
            v = self.mapping[n.id]
            if isinstance(v, str):
                return ast.copy_location(ast.Name(id=v, ctx=n.ctx), n)
            if isinstance(n.ctx, ast.Load):
                return copy.deepcopy(v)
        return n


def _const_items(it, consts=None):
    """items of a compile-time iteration space: a tuple / list literal, or range() over integer literals (at most 12 items)"""
    if isinstance(it, (ast.Tuple, ast.List)):
        return list(it.elts) if len(it.elts) <= 12 else None
    if consts is not None and isinstance(it, ast.Name) and it.id in consts:
        return list(consts[it.id])
    if consts is not None and isinstance(it, ast.Attribute) and isinstance(it.value, ast.Name) and ('.' + it.attr) in consts \
            and it.value.id in consts.get('$owners', ('self', 'cls')):
        return list(consts['.' + it.attr])          # a tuple / list literal bound at class level, read through self / cls / the class name
    if isinstance(it, ast.Call) and isinstance(it.func, ast.Name) and it.func.id == 'range' and not it.keywords and 1 <= len(it.args) <= 3:
        vals = []
        for a in it.args:
            if isinstance(a, ast.UnaryOp) and isinstance(a.op, ast.USub) and isinstance(a.operand, ast.Constant) and isinstance(a.operand.value, int):
                vals.append(-a.operand.value)
            elif isinstance(a, ast.Constant) and isinstance(a.value, int) and not isinstance(a.value, bool):
                vals.append(a.value)
            else:
                return None
        r = range(*vals) if not (len(vals) == 3 and vals[2] == 0) else None
        if r is None or len(r) > 12:
            return None
        return [ast.Constant(value=k) for k in r]
    return None


def _bind_target(target, item):
    """mapping of loop-target names to the item's (sub)expressions, or None"""
    if isinstance(target, ast.Name):
        return {target.id: item}
    if isinstance(target, (ast.Tuple, ast.List)) and isinstance(item, (ast.Tuple, ast.List)) and len(target.elts) == len(item.elts):
        out = {}
        for t, x in zip(target.elts, item.elts):
            m = _bind_target(t, x)
            if m is None:
                return None
            out.update(m)
        return out
    return None


def _fold(node):
    class F(ast.NodeTransformer):
        def visit_Subscript(self, n):
            self.generic_visit(n)
            # [a, b, c][1] -> b   (a constant index into a list / tuple display)
            if isinstance(n.value, (ast.List, ast.Tuple)) and isinstance(n.slice, ast.Constant) and isinstance(n.slice.value, int) \
                    and not isinstance(n.slice.value, bool) and 0 <= n.slice.value < len(n.value.elts) and isinstance(n.ctx, ast.Load) \
                    and not any(isinstance(e_, ast.Starred) for e_ in n.value.elts):
                return n.value.elts[n.slice.value]
            return n

        def visit_ListComp(self, n):
            self.generic_visit(n)
            # [f(k) for k in range(3)] -> [f(0), f(1), f(2)]
            if len(n.generators) == 1 and not n.generators[0].ifs and not n.generators[0].is_async:
                g = n.generators[0]
                items = _const_items(g.iter)
                if items is not None:
                    elts = []
                    for it_ in items:
                        m = _bind_target(g.target, it_)
                        if m is None:
                            return n
                        elts.append(F().visit(_Subst(m).visit(copy.deepcopy(n.elt))))
                    return ast.copy_location(ast.List(elts=elts, ctx=ast.Load()), n)
            return n

        def visit_BinOp(self, n):
            self.generic_visit(n)
            # [a, b] + [c] -> [a, b, c]   (two list displays joined)
            if isinstance(n.op, ast.Add) and isinstance(n.left, ast.List) and isinstance(n.right, ast.List) \
                    and not any(isinstance(e_, ast.Starred) for e_ in n.left.elts + n.right.elts):
                return ast.copy_location(ast.List(elts=list(n.left.elts) + list(n.right.elts), ctx=ast.Load()), n)
            if isinstance(n.left, ast.Constant) and isinstance(n.right, ast.Constant) and isinstance(n.left.value, int) and isinstance(n.right.value, int) \
                    and not isinstance(n.left.value, bool) and not isinstance(n.right.value, bool):
                if isinstance(n.op, ast.Add):
                    return ast.copy_location(ast.Constant(value=n.left.value + n.right.value), n)
                if isinstance(n.op, ast.Sub):
                    return ast.copy_location(ast.Constant(value=n.left.value - n.right.value), n)
                if isinstance(n.op, ast.Mult):
                    return ast.copy_location(ast.Constant(value=n.left.value * n.right.value), n)
            return n
    return F().visit(node)


def _tail_returns_only(body):
    """every Return of the body is the last statement of the body or of a branch of a trailing if/else chain, or a guard clause
    (`if c: ...; return e` followed by more statements is fine: control flow is preserved by nesting the rest in the else)"""
    for n in body:
        for sub in ast.walk(n):
            if isinstance(sub, (ast.For, ast.While, ast.Try, ast.With)):
                if any(isinstance(x, ast.Return) for x in ast.walk(sub)):
                    return False
    return True


def _nest_guards(body):
    """rewrite `if c: A; return e` + rest  as  `if c: A; return e  else: rest` so that every return is in tail position"""
    out = []
    for k, st in enumerate(body):
        if isinstance(st, ast.If):
            st = copy.copy(st)
            st.body = _nest_guards(st.body)
            st.orelse = _nest_guards(st.orelse)
            rest = body[k + 1:]
            if rest and _ends_with_return(st.body) and not st.orelse:
                st.orelse = _nest_guards(rest)
                out.append(st)
                return out
            if rest and st.orelse and _ends_with_return(st.orelse) and not _ends_with_return(st.body):
                st.body = st.body + _nest_guards(rest)
                out.append(st)
                return out
        out.append(st)
    return out


def _ends_with_return(body):
    if not body:
        return False
    last = body[-1]
    if isinstance(last, (ast.Return, ast.Raise)):
        return True
    if isinstance(last, ast.If) and last.orelse:
        return _ends_with_return(last.body) and _ends_with_return(last.orelse)
    return False


def _replace_returns(body, mk):
    out = []
    for st in body:
        if isinstance(st, ast.Return):
            out.extend(mk(st.value))
        elif isinstance(st, ast.If):
            st = copy.copy(st)
            st.body = _replace_returns(st.body, mk)
            st.orelse = _replace_returns(st.orelse, mk)
            out.append(st)
        else:
            out.append(st)
    return out


def _returns_directly_in(loop, rets):
    """every Return of `rets` lies in `loop` and not inside a loop / try / with nested in it"""
    inner = set()
    for n in ast.walk(loop):
        if n is not loop and isinstance(n, (ast.For, ast.While, ast.Try, ast.With, ast.FunctionDef, ast.Lambda)):
            inner |= {id(x) for x in ast.walk(n)}
    inside = {id(x) for x in ast.walk(loop)}
    return all(id(r) in inside and id(r) not in inner for r in rets)


def _replace_returns_in_loop(loop, mk):
    loop = copy.copy(loop)

    def go(stmts):
        out = []
        for st in stmts:
            if isinstance(st, ast.Return):
                out.extend(mk(st.value))
            elif isinstance(st, ast.If):
                st = copy.copy(st)
                st.body = go(st.body) or [ast.Pass()]
                st.orelse = go(st.orelse)
                out.append(st)
            else:
                out.append(st)
        return out
    loop.body = go(loop.body)
    return loop


def _is_static(fn):
    return isinstance(fn, (ast.FunctionDef, ast.AsyncFunctionDef)) and any(isinstance(d, ast.Name) and d.id == 'staticmethod' for d in fn.decorator_list)


def _const_truth(t):
    if isinstance(t, ast.Constant) and isinstance(t.value, (bool, int, type(None))):
        return bool(t.value)
    if isinstance(t, ast.UnaryOp) and isinstance(t.op, ast.Not):
        v = _const_truth(t.operand)
        return None if v is None else (not v)
    if isinstance(t, ast.Compare) and len(t.ops) == 1 and isinstance(t.left, ast.Constant) and isinstance(t.comparators[0], ast.Constant) \
            and isinstance(t.ops[0], (ast.Is, ast.IsNot, ast.Eq, ast.NotEq)):
        a, b = t.left.value, t.comparators[0].value
        if isinstance(t.ops[0], (ast.Is, ast.IsNot)) and not (a is None or b is None or isinstance(a, bool) or isinstance(b, bool)):
            return None
        same = (a is b) if isinstance(t.ops[0], (ast.Is, ast.IsNot)) else (a == b)
        return same if isinstance(t.ops[0], (ast.Is, ast.Eq)) else (not same)
    return None


def _fold_const_ifs(stmts):
    out = []
    for st in stmts:
        if isinstance(st, ast.If):
            v = _const_truth(st.test)
            if v is not None:
                out.extend(_fold_const_ifs(st.body if v else st.orelse))
                continue
            st = copy.copy(st)
            st.body = _fold_const_ifs(st.body) or [ast.Pass()]
            st.orelse = _fold_const_ifs(st.orelse)
        elif isinstance(st, (ast.For, ast.While, ast.With)):
            st = copy.copy(st)
            st.body = _fold_const_ifs(st.body) or [ast.Pass()]
        out.append(st)
    return out


def _inline_call(methods, call, how, target, depth, stop=(), ho_only=False, impure=False):
    """-> list of statements replacing the statement that contains `call`, or None"""
    f = call.func
    if isinstance(f, ast.Name) and ('local:' + f.id) in methods and f.id not in stop:
        # a function nested in the same enclosing function (a closure-level helper: private by construction)
        callee = methods['local:' + f.id]
        params = [a.arg for a in callee.args.args]
    elif isinstance(f, ast.Name) and ('func:' + f.id) in methods and f.id.startswith('_') and not f.id.startswith('__') and f.id not in stop:
        # private module-level helper
        callee = methods['func:' + f.id]
        params = [a.arg for a in callee.args.args]
    else:
        if not (isinstance(f, ast.Attribute) and isinstance(f.value, ast.Name) and f.attr in methods
                and (f.value.id == 'self' or _is_static(methods[f.attr]))      # ClassName._h(...) of a static helper
                and f.attr.startswith('_') and not f.attr.startswith('__')) or f.attr in stop:
            return None
        if ho_only and not any(isinstance(a, ast.Attribute) and isinstance(a.value, ast.Name) and a.value.id == 'self' and a.attr in methods
                               for a in list(call.args) + [k.value for k in call.keywords]):
            return None
        callee = methods[f.attr]
        static = any((isinstance(d, ast.Name) and d.id == 'staticmethod') for d in callee.decorator_list)
        params = [a.arg for a in callee.args.args][0 if static else 1:]
    if callee.args.vararg or callee.args.kwarg or len(call.args) > len(params):
        return None
    bound = {}
    for p, a in zip(params, call.args):
        bound[p] = a
    for k in call.keywords:
        if k.arg is None or k.arg not in params:
            return None
        bound[k.arg] = k.value
    defaults = dict(zip(params[len(params) - len(callee.args.defaults):], callee.args.defaults))
    for p in params:
        if p not in bound:
            if p not in defaults:
                return None
            bound[p] = defaults[p]
    if not impure and not all(_pure_arg(a) for a in bound.values()):
        return None
    body = [s for s in callee.body if not (isinstance(s, ast.Expr) and isinstance(s.value, ast.Constant))]
    if not _tail_returns_only(body) and depth > 0:
        # constant-trip loops of the helper are unrolled first: their returns then sit in guard position
        body = flatten_body(methods, copy.deepcopy(body), depth - 1, _CLASS_CONSTS[-1] if _CLASS_CONSTS else None, stop, ho_only, impure)
    search_loop = False
    if not _tail_returns_only(body):
        # a helper that ends in `while True:` and returns from inside it (a search loop): `return v` becomes `<target> = v; break`
        last = body[-1] if body else None
        rets = [n for s_ in body for n in ast.walk(s_) if isinstance(n, ast.Return)]
        if how in ('assign', 'stmt') and isinstance(last, ast.While) and isinstance(last.test, ast.Constant) and last.test.value is True \
                and not last.orelse and rets and _returns_directly_in(last, rets) and not any(isinstance(n, ast.Return) for s_ in body[:-1] for n in ast.walk(s_)):
            search_loop = True
        else:
            return None
    # parameters that the helper re-binds cannot be replaced by expressions
    stored = {n.id for s in body for n in ast.walk(s) if isinstance(n, ast.Name) and isinstance(n.ctx, (ast.Store, ast.Del))}
    k = next(_counter)
    mapping = {}
    pre = []
    for p in params:
        if p in stored:
            nm = '%s__i%d' % (p, k)
            pre.append(ast.Assign(targets=[ast.Name(id=nm, ctx=ast.Store())], value=copy.deepcopy(bound[p]), lineno=call.lineno, col_offset=0))
            mapping[p] = nm
        else:
            mapping[p] = bound[p]
    for loc in stored - set(params):
        mapping[loc] = '%s__i%d' % (loc, k)
    # the locals the helper hands back take the names the caller gives them (a single `return a, b` of plain locals)
    all_rets = [n for s_ in body for n in ast.walk(s_) if isinstance(n, ast.Return)]
    if how == 'assign' and len(all_rets) == 1 and all_rets[0].value is not None:
        rv = all_rets[0].value
        r_names = [rv] if isinstance(rv, ast.Name) else (list(rv.elts) if isinstance(rv, ast.Tuple) else [])
        t_names = [target] if isinstance(target, ast.Name) else (list(target.elts) if isinstance(target, ast.Tuple) else [])
        arg_names = {n.id for a in bound.values() for n in ast.walk(a) if isinstance(n, ast.Name)}
        used_in_helper = {n.id for s_ in body for n in ast.walk(s_) if isinstance(n, ast.Name)} | set(params)
        if r_names and len(r_names) == len(t_names) and all(isinstance(x, ast.Name) for x in r_names + t_names) \
                and len({x.id for x in r_names}) == len(r_names) and all(x.id in stored and x.id not in params for x in r_names) \
                and not ({x.id for x in t_names} & (arg_names | (used_in_helper - {x.id for x in r_names}))):
            for rn, tn in zip(r_names, t_names):
                mapping[rn.id] = tn.id
    body = [_Subst(mapping).visit(copy.deepcopy(s)) for s in body]
    body = _fold_const_ifs(body)          # a flag parameter bound to a literal at this call site selects its branch
    if not search_loop:
        body = _nest_guards(body)

    def noop(tg, v):
        return v is not None and ast.dump(tg).replace('Store()', 'Load()') == ast.dump(v)
    if search_loop:
        def mk(v):
            if how == 'stmt':
                pre_ = [] if v is None else [ast.Expr(value=v, lineno=call.lineno, col_offset=0)]
            else:
                pre_ = [] if noop(target, v) else [ast.Assign(targets=[copy.deepcopy(target)], value=v if v is not None else ast.Constant(value=None),
                                                              lineno=call.lineno, col_offset=0)]
            return pre_ + [ast.Break(lineno=call.lineno, col_offset=0)]
        body = body[:-1] + [_replace_returns_in_loop(body[-1], mk)]
    elif how == 'stmt':
        body = _replace_returns(body, lambda v: [] if v is None else [ast.Expr(value=v, lineno=call.lineno, col_offset=0)])
    elif how == 'return':
        pass
    else:   # assign
        def mk_assign(v):
            if noop(target, v):
                return []
            if isinstance(target, ast.Tuple) and isinstance(v, ast.Tuple) and len(target.elts) == len(v.elts) and all(isinstance(t_, ast.Name) for t_ in target.elts) \
                    and not ({t_.id for t_ in target.elts} & {n.id for n in ast.walk(v) if isinstance(n, ast.Name)}):
                # a, b = (x, y) with independent sides: one assignment per name
                return [ast.Assign(targets=[copy.deepcopy(t_)], value=x_, lineno=call.lineno, col_offset=0) for t_, x_ in zip(target.elts, v.elts)]
            return [ast.Assign(targets=[copy.deepcopy(target)], value=v if v is not None else ast.Constant(value=None), lineno=call.lineno, col_offset=0)]
        body = _replace_returns(body, mk_assign)
    out = pre + body
    for s in out:
        for n in ast.walk(s):
            if not hasattr(n, 'lineno'):
                n.lineno = call.lineno
                n.col_offset = 0
    return flatten_body(methods, out, depth - 1, None, stop, ho_only, impure) if depth > 0 else out


def _tuple_literal(e, consts):
    if isinstance(e, (ast.Tuple, ast.List)):
        return e.elts
    if isinstance(e, ast.Name) and e.id in consts:
        return consts[e.id]
    return None


def _is_bound_method_ref(e):
    return isinstance(e, ast.Attribute) and isinstance(e.value, ast.Name) and e.value.id == 'self'


def _callable_vars(body):
    """`f = self.a if c else self.b` ... `r = f(x)`  ->  `if c: r = self.a(x) else: r = self.b(x)` (and `f = self.a` -> direct calls):
    a local that only ever names bound methods of self and is only ever called.  The selector test must be a pure expression whose
    names are not re-bound in the block."""
    for k, st in enumerate(body):
        if not (isinstance(st, ast.Assign) and len(st.targets) == 1 and isinstance(st.targets[0], ast.Name)):
            continue
        v, name = st.value, st.targets[0].id
        if _is_bound_method_ref(v):
            alts = None
        elif isinstance(v, ast.IfExp) and _is_bound_method_ref(v.body) and _is_bound_method_ref(v.orelse) and _pure_arg(v.test):
            alts = (v.test, v.body, v.orelse)
        else:
            continue
        rest = body[k + 1:]
        uses = [n for s_ in rest for n in ast.walk(s_) if isinstance(n, ast.Name) and n.id == name]
        calls = {id(n.func) for s_ in rest for n in ast.walk(s_) if isinstance(n, ast.Call) and isinstance(n.func, ast.Name) and n.func.id == name}
        if not uses or any(id(u) not in calls for u in uses):
            continue
        if alts is not None:
            tnames = {n.id for n in ast.walk(alts[0]) if isinstance(n, ast.Name)}
            if any(isinstance(n, ast.Name) and isinstance(n.ctx, ast.Store) and n.id in tnames for s_ in rest for n in ast.walk(s_)):
                continue
        new_rest = []
        for s_ in rest:
            if not any(isinstance(n, ast.Name) and n.id == name for n in ast.walk(s_)):
                new_rest.append(s_)
            elif alts is None:
                new_rest.append(_Subst({name: v}).visit(copy.deepcopy(s_)))
            else:
                a = _Subst({name: alts[1]}).visit(copy.deepcopy(s_))
                b = _Subst({name: alts[2]}).visit(copy.deepcopy(s_))
                new_rest.append(ast.copy_location(ast.If(test=copy.deepcopy(alts[0]), body=[a], orelse=[b]), s_))
        return _callable_vars(body[:k] + new_rest)
    return body


def _is_private_helper_call(methods, c, stop):
    f = c.func
    if isinstance(f, ast.Name) and ('local:' + f.id) in methods:
        return f.id not in stop
    if isinstance(f, ast.Name):
        return ('func:' + f.id) in methods and f.id.startswith('_') and not f.id.startswith('__') and f.id not in stop
    return isinstance(f, ast.Attribute) and isinstance(f.value, ast.Name) and f.attr in methods \
        and (f.value.id == 'self' or _is_static(methods[f.attr])) \
        and f.attr.startswith('_') and not f.attr.startswith('__') and f.attr not in stop


def _hoist_nested(methods, body, stop):
    """(structure-only mode) a private-helper call nested inside a larger expression of a simple statement is bound to a temporary
    first, so that it can be inlined like a statement-level call:  x = self._h(a).data  ->  t = self._h(a); x = t.data"""
    out = []
    for st in body:
        v = st.value if isinstance(st, (ast.Assign, ast.Return, ast.Expr)) else (st.test if isinstance(st, ast.If) else None)
        if isinstance(st, ast.If) and isinstance(v, ast.Call) and _is_private_helper_call(methods, v, stop):
            # `if self._h(x):` -> t = self._h(x); if t:
            nm = '__h%d' % next(_counter)
            out.append(ast.copy_location(ast.Assign(targets=[ast.Name(id=nm, ctx=ast.Store())], value=v, lineno=st.lineno, col_offset=0), st))
            st = copy.copy(st)
            st.test = ast.copy_location(ast.Name(id=nm, ctx=ast.Load()), v)
            out.append(st)
            continue
        if v is not None:
            pre = []
            while True:
                nested = [c for c in ast.walk(v) if isinstance(c, ast.Call) and c is not v and _is_private_helper_call(methods, c, stop)]
                # innermost first; never out of a lambda / comprehension / conditional branch (it may not be evaluated there)
                guarded = {id(c) for g in ast.walk(v) if isinstance(g, (ast.Lambda, ast.ListComp, ast.GeneratorExp, ast.SetComp, ast.DictComp, ast.IfExp, ast.BoolOp))
                           for c in ast.walk(g) if c is not g}
                nested = [c for c in nested if id(c) not in guarded and not any(isinstance(x, ast.Call) and x is not c and _is_private_helper_call(methods, x, stop)
                                                                                  for x in ast.walk(c))]
                if not nested:
                    break
                c = nested[0]
                nm = '__h%d' % next(_counter)
                pre.append(ast.copy_location(ast.Assign(targets=[ast.Name(id=nm, ctx=ast.Store())], value=c, lineno=st.lineno, col_offset=0), st))

                class R(ast.NodeTransformer):
                    def visit_Call(self_, n):
                        if n is c:
                            return ast.copy_location(ast.Name(id=nm, ctx=ast.Load()), n)
                        return self_.generic_visit(n)
                v = R().visit(v)
            if pre:
                st = copy.copy(st)
                if isinstance(st, ast.If):
                    st.test = v
                else:
                    st.value = v
                out.extend(pre)
        out.append(st)
    return out


def _inline_local_closures(body):
    """(structure-only mode) `def f(a): return <expr>` defined in this block and only ever called: its calls are replaced by <expr>
    with the arguments substituted"""
    for k, st in enumerate(body):
        if not (isinstance(st, ast.FunctionDef) and not st.decorator_list and not st.args.vararg and not st.args.kwarg and not st.args.kwonlyargs
                and not st.args.defaults):
            continue
        fb = [s_ for s_ in st.body if not (isinstance(s_, ast.Expr) and isinstance(s_.value, ast.Constant))]
        if not (len(fb) == 1 and isinstance(fb[0], ast.Return) and fb[0].value is not None):
            continue
        params = [a.arg for a in st.args.posonlyargs + st.args.args]
        rest = body[k + 1:]
        uses = [n for s_ in rest for n in ast.walk(s_) if isinstance(n, ast.Name) and n.id == st.name]
        calls = [n for s_ in rest for n in ast.walk(s_) if isinstance(n, ast.Call) and isinstance(n.func, ast.Name) and n.func.id == st.name]
        if not uses or len(uses) != len(calls) or any(c.keywords or len(c.args) != len(params) for c in calls):
            continue
        expr = fb[0].value

        class R(ast.NodeTransformer):
            def visit_Call(self, n):
                n = self.generic_visit(n)
                if isinstance(n.func, ast.Name) and n.func.id == st.name:
                    return ast.copy_location(_Subst(dict(zip(params, n.args))).visit(copy.deepcopy(expr)), n)
                return n
        return _inline_local_closures(body[:k] + [R().visit(s_) for s_ in rest])
    return body


def _lower_ifexp(body):
    """`x = a if c else f()` / `return a if c else f()`  ->  if c: x = a  else: x = f()   (only when a branch makes a call and the
    test is pure): path-sensitive analyses then see that the call is made on one side only."""
    out = []
    for st in body:
        v = st.value if isinstance(st, (ast.Assign, ast.Return, ast.Expr)) else None
        # (the test is evaluated once and first in both spellings, so no purity condition is needed)
        if isinstance(v, ast.IfExp) and any(isinstance(n, ast.Call) for br in (v.body, v.orelse) for n in ast.walk(br)):
            a, b = copy.copy(st), copy.copy(st)
            a.value, b.value = v.body, v.orelse
            out.append(ast.copy_location(ast.If(test=v.test, body=[a], orelse=[b]), st))
        else:
            out.append(st)
    return out


def _lower_continue(stmts):
    """Loop body with its `continue` statements replaced by structure: `if c: continue; REST` becomes `if c: pass else: REST` (the rest of the
    round runs exactly when no continue was reached).  Only continues of THIS loop in (nested) if-branches are handled; -> new statement list,
    or None when a continue sits somewhere else (try / with) or only on part of a branch."""
    def own_continue(n):
        if isinstance(n, ast.Continue):
            return True
        if isinstance(n, (ast.For, ast.While, ast.FunctionDef, ast.AsyncFunctionDef, ast.ClassDef)):
            return False
        return any(own_continue(c) for c in ast.iter_child_nodes(n))

    def low(seq):
        """-> (statements, every path ends in continue) or None"""
        out = []
        for k, s_ in enumerate(seq):
            if isinstance(s_, ast.Continue):
                return out, True
            if not own_continue(s_):
                out.append(s_)
                continue
            if not isinstance(s_, ast.If):
                return None
            b, o, rest = low(s_.body), low(s_.orelse), low(seq[k + 1:])
            if b is None or o is None or rest is None:
                return None
            (b, bt), (o, ot), (rest, rt) = b, o, rest
            n_ = copy.copy(s_)
            if bt and ot:
                n_.body, n_.orelse = b or [ast.Pass()], o
                out.append(n_)
                return out, True
            if bt:
                n_.body, n_.orelse = b or [ast.Pass()], o + rest
                out.append(n_)
                return out, False if not rt else False
            if ot:
                n_.body, n_.orelse = (b + rest) or [ast.Pass()], o
                out.append(n_)
                return out, False
            return None
        return out, False
    r = low(list(stmts))
    return None if r is None else r[0]


def flatten_body(methods, body, depth=3, consts=None, stop=(), ho_only=False, impure=False):
    consts = dict(consts or {})
    out = []
    body = _lower_ifexp(_callable_vars(list(body)))
    if impure:
        body = _inline_local_closures(body)
    if impure and depth > 0:
        body = _hoist_nested(methods, body, stop)
    body = _counting_whiles(body)
    for st in body:
        if isinstance(st, ast.Assign) and len(st.targets) == 1 and isinstance(st.targets[0], ast.Name) and isinstance(st.value, (ast.Tuple, ast.List)) \
                and all(_pure_arg(x) for x in st.value.elts):
            consts[st.targets[0].id] = st.value.elts
        rep = None
        if isinstance(st, ast.Expr) and isinstance(st.value, ast.Call):
            rep = _inline_call(methods, st.value, 'stmt', None, depth, stop, ho_only, impure)
        elif isinstance(st, ast.Return) and isinstance(st.value, ast.Call):
            rep = _inline_call(methods, st.value, 'return', None, depth, stop, ho_only, impure)
        elif isinstance(st, ast.Assign) and len(st.targets) == 1 and isinstance(st.value, ast.Call) and isinstance(st.targets[0], (ast.Name, ast.Attribute, ast.Tuple)):
            rep = _inline_call(methods, st.value, 'assign', st.targets[0], depth, stop, ho_only, impure)
        elif isinstance(st, ast.AugAssign) and isinstance(st.value, ast.Call) and isinstance(st.target, ast.Name):
            # `acc += helper(...)`: the helper's value is named first, then accumulated
            tmp_ = ast.Name(id='_aug_%d_%d' % (st.lineno, st.col_offset), ctx=ast.Store())
            rep_ = _inline_call(methods, st.value, 'assign', tmp_, depth, stop, ho_only, impure)
            if rep_ is not None:
                rep = list(rep_) + [ast.copy_location(ast.AugAssign(target=st.target, op=st.op, value=ast.Name(id=tmp_.id, ctx=ast.Load())), st)]
        if rep is not None:
            out.extend(rep)
            continue
        if isinstance(st, ast.For) and not st.orelse:
            it = st.iter
            items = None
            enum = False
            if isinstance(it, ast.Call) and isinstance(it.func, ast.Name) and it.func.id == 'enumerate' and len(it.args) == 1:
                items, enum = _const_items(it.args[0], consts), True
            else:
                items = _const_items(it, consts)
            if ho_only and isinstance(it, ast.Call) and not enum:
                items = None        # resolving callbacks only: counting loops stay loops
            if items is not None and len(items) <= 12 and any(isinstance(n, ast.Continue) for n in ast.walk(st)) \
                    and not any(isinstance(n, ast.Break) for n in ast.walk(st)):
                low = _lower_continue(st.body)
                if low is not None:
                    st = copy.copy(st)
                    st.body = low or [ast.Pass()]
            if items is not None and len(items) <= 12 and not any(isinstance(n, (ast.Break, ast.Continue)) for n in ast.walk(st)):
                unrolled = []
                ok = True
                for idx, item in enumerate(items):
                    if enum:
                        mapping = _bind_target(st.target, ast.Tuple(elts=[ast.Constant(value=idx), item], ctx=ast.Load()))
                    else:
                        mapping = _bind_target(st.target, item)
                    if mapping is None:
                        ok = False
                        break
                    stored = {n.id for s in st.body for n in ast.walk(s) if isinstance(n, ast.Name) and isinstance(n.ctx, ast.Store)}
                    if stored & set(mapping):
                        ok = False
                        break
                    unrolled.extend(_fold(_Subst(mapping).visit(copy.deepcopy(s))) for s in st.body)
                if ok:
                    out.extend(flatten_body(methods, unrolled, depth, consts, stop, ho_only, impure))
                    continue
        if isinstance(st, ast.If) and depth > 0 and not ho_only:
            # `if helper(...):` / `if not helper(...):` - the helper's verdict is named first, so that it is read in place like any assigned call
            t_ = st.test.operand if (isinstance(st.test, ast.UnaryOp) and isinstance(st.test.op, ast.Not)) else st.test
            if isinstance(t_, ast.Call):
                tmp_ = ast.Name(id='_cond_%d_%d' % (st.lineno, st.col_offset), ctx=ast.Store())
                rep_ = _inline_call(methods, t_, 'assign', tmp_, depth, stop, ho_only, impure)
                if rep_ is not None:
                    ld_ = ast.Name(id=tmp_.id, ctx=ast.Load())
                    st2 = copy.copy(st)
                    st2.test = ast.copy_location(ast.UnaryOp(op=ast.Not(), operand=ld_), st.test) if t_ is not st.test else ast.copy_location(ld_, st.test)
                    out.extend(list(rep_))
                    st = st2
        if isinstance(st, ast.If):
            st = copy.copy(st)
            st.body = flatten_body(methods, st.body, depth, consts, stop, ho_only, impure)
            st.orelse = flatten_body(methods, st.orelse, depth, consts, stop, ho_only, impure)
        elif isinstance(st, (ast.For, ast.While, ast.With)):
            st = copy.copy(st)
            st.body = flatten_body(methods, st.body, depth, consts, stop, ho_only, impure)
        elif isinstance(st, ast.Try):
            st = copy.copy(st)
            st.body = flatten_body(methods, st.body, depth, consts, stop, ho_only, impure)
            st.orelse = flatten_body(methods, st.orelse, depth, consts, stop, ho_only, impure)
            st.finalbody = flatten_body(methods, st.finalbody, depth, consts, stop, ho_only, impure)
            hs = []
            for h in st.handlers:
                h = copy.copy(h)
                h.body = flatten_body(methods, h.body, depth, consts, stop, ho_only, impure)
                hs.append(h)
            st.handlers = hs
        out.append(st)
    return out


def _counting_whiles(body):
    """`k = a; while k < b: BODY; k += 1` with integer constants a, b, the counter not otherwise assigned in BODY and no break / continue:
    `for k in range(a, b): BODY` (the constant-trip loop can then be unrolled like any other).  The counter's final value is restored by an
    assignment after the loop."""
    out = []
    ints = {}
    for st in body:
        if isinstance(st, ast.Assign) and len(st.targets) == 1 and isinstance(st.targets[0], ast.Name):
            if isinstance(st.value, ast.Constant) and isinstance(st.value.value, int) and not isinstance(st.value.value, bool):
                ints[st.targets[0].id] = st.value.value
            else:
                ints.pop(st.targets[0].id, None)
            out.append(st)
            continue
        conv = None
        if isinstance(st, ast.While) and not st.orelse and isinstance(st.test, ast.Compare) and len(st.test.ops) == 1 and len(st.body) >= 2:
            t = st.test
            l, op, r = t.left, t.ops[0], t.comparators[0]
            if isinstance(l, ast.Name) and l.id in ints and isinstance(r, ast.Constant) and isinstance(r.value, int) and isinstance(op, (ast.Lt, ast.LtE)):
                k = l.id
                last = st.body[-1]
                inc = (isinstance(last, ast.AugAssign) and isinstance(last.op, ast.Add) and isinstance(last.target, ast.Name) and last.target.id == k
                       and isinstance(last.value, ast.Constant) and last.value.value == 1) or \
                      (isinstance(last, ast.Assign) and len(last.targets) == 1 and isinstance(last.targets[0], ast.Name) and last.targets[0].id == k
                       and isinstance(last.value, ast.BinOp) and isinstance(last.value.op, ast.Add) and isinstance(last.value.left, ast.Name)
                       and last.value.left.id == k and isinstance(last.value.right, ast.Constant) and last.value.right.value == 1)
                inner = st.body[:-1]
                stored = {n.id for s_ in inner for n in ast.walk(s_) if isinstance(n, ast.Name) and isinstance(n.ctx, (ast.Store, ast.Del))}
                jumps = any(isinstance(n, (ast.Break, ast.Continue)) for s_ in st.body for n in ast.walk(s_))
                if inc and k not in stored and not jumps:
                    hi = r.value + (1 if isinstance(op, ast.LtE) else 0)
                    lo = ints[k]
                    f_ = ast.For(target=ast.Name(id=k, ctx=ast.Store()),
                                 iter=ast.Call(func=ast.Name(id='range', ctx=ast.Load()), args=[ast.Constant(value=lo), ast.Constant(value=hi)], keywords=[]),
                                 body=inner or [ast.Pass()], orelse=[])
                    after = ast.Assign(targets=[ast.Name(id=k, ctx=ast.Store())], value=ast.Constant(value=max(lo, hi)))
                    for n_ in (f_, after):
                        ast.copy_location(n_, st)
                        ast.fix_missing_locations(n_)
                    conv = [f_, after]
                    ints[k] = max(lo, hi)
        if conv is not None:
            out.extend(conv)
            continue
        # anything else that may assign a tracked counter forgets it
        for n in ast.walk(st):
            if isinstance(n, ast.Name) and isinstance(n.ctx, (ast.Store, ast.Del)):
                ints.pop(n.id, None)
        out.append(st)
    return out


_CLASS_CONSTS = []          # class-level constant tables of the flatten() in progress (helpers read them too)


def class_constants(cls_node):
    """{'.NAME': elements} for `NAME = (literal tuple / list)` bound in a class body, plus '$owners': the names the class is read through"""
    out = {'$owners': ('self', 'cls', cls_node.name)}
    for st in cls_node.body:
        if isinstance(st, ast.Assign) and len(st.targets) == 1 and isinstance(st.targets[0], ast.Name) and isinstance(st.value, (ast.Tuple, ast.List)) \
                and len(st.value.elts) <= 12:
            out['.' + st.targets[0].id] = list(st.value.elts)
    return out


def flatten(methods, fn, depth=3, stop=(), ho_only=False, impure=False, consts=None):
    # impure=True: call-valued arguments are substituted too - the result is only analysed for its STRUCTURE, never for effects counts
    new = copy.deepcopy(fn)
    body = [s for s in new.body]
    _CLASS_CONSTS.append({k_: v_ for k_, v_ in (consts or {}).items() if k_.startswith(('.', '$'))} or None)
    try:
        new.body = [_fold(s) for s in flatten_body(methods, body, depth, consts, stop, ho_only, impure)]
    finally:
        _CLASS_CONSTS.pop()
    ast.fix_missing_locations(new)
    return new


def resolve_higher_order(model, cls):
    """In this process' syntax trees only: methods of `cls` that pass bound methods of the class to a private helper, or loop over
    a tuple of bound methods, are replaced by their partial evaluation (the helper inlined with the callbacks substituted, the loop
    unrolled), so that call-graph based analyses see the calls that are really made.  -> names of the methods that changed."""
    methods = {n_: f_.node for n_, f_ in cls.methods.items()}
    changed = []
    for name, fi in cls.methods.items():
        new = flatten(methods, fi.node, depth=2, ho_only=True)
        if ast.dump(new) != ast.dump(fi.node):
            parents = fi.module.parents
            for parent in ast.walk(new):
                for ch in ast.iter_child_nodes(parent):
                    parents[ch] = parent
            parents[new] = parents.get(fi.node)
            fi.node = new
            changed.append(name)
    return changed


def flatten_function(module_funcs, fn, depth=3, stop=(), impure=False):
    """flatten() for a module-level function: private module-level helpers (`_h(...)`) are inlined"""
    return flatten({'func:' + k: v for k, v in module_funcs.items()}, fn, depth, stop, impure=impure)


_FLIP_OPS = {ast.Lt: ast.Gt, ast.Gt: ast.Lt, ast.LtE: ast.GtE, ast.GtE: ast.LtE, ast.Eq: ast.Eq, ast.NotEq: ast.NotEq}


def _pure_ref(e):
    if isinstance(e, ast.Name):
        return True
    if isinstance(e, ast.Attribute):
        return _pure_ref(e.value)
    if isinstance(e, ast.Subscript):
        return _pure_ref(e.value) and _pure_arg(e.slice)
    return False


def propagate_copies(fn):
    """(on a copy) two meaning-preserving rewrites that let structural rules see through naming:
    * a local bound exactly once, to a pure reference (`val = matrix[i]`, `dest = self.table[k]`), whose uses all follow the binding in
      the same statement list and whose referenced names / containers are not written in between, is replaced by that reference;
    * a comparison with its constant on the left is turned round (`9999 <= abs(x)` -> `abs(x) >= 9999`)."""
    fn = copy.deepcopy(fn)
    stores = {}
    for n in ast.walk(fn):
        if isinstance(n, ast.Name) and isinstance(n.ctx, (ast.Store, ast.Del)):
            stores[n.id] = stores.get(n.id, 0) + 1
    params = {a.arg for a in fn.args.posonlyargs + fn.args.args + fn.args.kwonlyargs}

    def written_in(stmts, names):
        for s_ in stmts:
            for n in ast.walk(s_):
                if isinstance(n, ast.Name) and isinstance(n.ctx, (ast.Store, ast.Del)) and n.id in names:
                    return True
                if isinstance(n, (ast.Subscript, ast.Attribute)) and isinstance(n.ctx, (ast.Store, ast.Del)):
                    b = n
                    while isinstance(b, (ast.Subscript, ast.Attribute)):
                        b = b.value
                    if isinstance(b, ast.Name) and b.id in names:
                        return True
                if isinstance(n, ast.Call) and isinstance(n.func, ast.Attribute) and isinstance(n.func.value, ast.Name) and n.func.value.id in names \
                        and n.func.attr in ('append', 'extend', 'insert', 'remove', 'pop', 'clear', 'sort', 'reverse', 'update', 'fill', 'resize'):
                    return True
        return False

    def visit_block(stmts):
        k = 0
        while k < len(stmts):
            st = stmts[k]
            for fld in ('body', 'orelse', 'finalbody'):
                sub = getattr(st, fld, None)
                if isinstance(sub, list) and sub and isinstance(sub[0], ast.stmt):
                    visit_block(sub)
            for h in getattr(st, 'handlers', []) or []:
                visit_block(h.body)
            if isinstance(st, ast.Assign) and len(st.targets) == 1 and isinstance(st.targets[0], ast.Name) and _pure_ref(st.value) \
                    and not isinstance(st.value, ast.Name) and stores.get(st.targets[0].id) == 1 and st.targets[0].id not in params:
                name = st.targets[0].id
                rest = stmts[k + 1:]
                uses_all = [n for n in ast.walk(fn) if isinstance(n, ast.Name) and n.id == name and isinstance(n.ctx, ast.Load)]
                uses_rest = [n for s_ in rest for n in ast.walk(s_) if isinstance(n, ast.Name) and n.id == name and isinstance(n.ctx, ast.Load)]
                refs = {n.id for n in ast.walk(st.value) if isinstance(n, ast.Name)}
                if uses_all and len(uses_all) == len(uses_rest) and not written_in(rest, refs):
                    sub_ = _Subst({name: st.value})
                    stmts[k + 1:] = [sub_.visit(s_) for s_ in rest]
                    del stmts[k]
                    continue
            k += 1
    visit_block(fn.body)

    class Flip(ast.NodeTransformer):
        def visit_Compare(self, n):
            self.generic_visit(n)
            if len(n.ops) == 1 and type(n.ops[0]) in _FLIP_OPS and isinstance(n.left, ast.Constant) and not isinstance(n.comparators[0], ast.Constant):
                return ast.copy_location(ast.Compare(left=n.comparators[0], ops=[_FLIP_OPS[type(n.ops[0])]()], comparators=[n.left]), n)
            return n
    fn = Flip().visit(fn)
    ast.fix_missing_locations(fn)
    return fn
