"""Name-independent views of a function body for the structural rules.

Rules must not depend on what a local variable is called or on whether a sub-expression was given a name first.  The
Inliner resolves every local that is bound exactly once (by a plain assignment, possibly through tuple unpacking) to its
defining expression, recursively, and renames the locals that remain (loop counters, accumulators, re-bound names) to
canonical names in order of appearance.  Parameters, globals, attributes of `self` and constants are kept as written.

    il = Inliner(fi)
    il.text(expr)         canonical text of `expr` with single-definition locals inlined
    il.expand(expr)       the inlined AST (deep copy)
    il.defs(name)         defining expressions of a local
    il.returns()          return statements (source order)
"""
import ast
import copy

from .model import src, walk_own


def _targets(t):
    if isinstance(t, (ast.Tuple, ast.List)):
        for i, x in enumerate(t.elts):
            for (n, path) in _targets(x):
                yield n, (i,) + path
    elif isinstance(t, ast.Starred):
        for (n, path) in _targets(t.value):
            yield n, ('*',) + path
    elif isinstance(t, ast.Name):
        yield t.id, ()


class Inliner:
    def __init__(self, fi, node=None):
        self.fi = fi
        self.node = node if node is not None else fi.node
        self.params = list(getattr(fi, 'params', []) or [])
        self.bind = {}          # name -> list of (value expr or None, projection path, stmt)
        for n in self._walk(self.node):
            if isinstance(n, ast.Assign):
                for t in n.targets:
                    for name, path in _targets(t):
                        self.bind.setdefault(name, []).append((n.value, path, n))
                    self._sub_store(t, n)
            elif isinstance(n, ast.AnnAssign) and isinstance(n.target, ast.Name):
                self.bind.setdefault(n.target.id, []).append((n.value, (), n))
            elif isinstance(n, ast.AugAssign):
                if isinstance(n.target, ast.Name):
                    self.bind.setdefault(n.target.id, []).append((None, (), n))
                else:
                    self._sub_store(n.target, n)
            elif isinstance(n, (ast.For, ast.AsyncFor)):
                for name, _ in _targets(n.target):
                    self.bind.setdefault(name, []).append((None, (), n))
            elif isinstance(n, (ast.With, ast.AsyncWith)):
                for it in n.items:
                    if it.optional_vars is not None:
                        for name, _ in _targets(it.optional_vars):
                            self.bind.setdefault(name, []).append((None, (), n))
            elif isinstance(n, ast.NamedExpr):
                self.bind.setdefault(n.target.id, []).append((None, (), n))
            elif isinstance(n, ast.ExceptHandler) and n.name:
                self.bind.setdefault(n.name, []).append((None, (), n))
            elif isinstance(n, (ast.FunctionDef, ast.AsyncFunctionDef, ast.ClassDef)) and n is not self.node:
                self.bind.setdefault(n.name, []).append((None, (), n))
            elif isinstance(n, (ast.Import, ast.ImportFrom)):
                for a in n.names:
                    self.bind.setdefault((a.asname or a.name).split('.')[0], []).append((None, (), n))
            elif isinstance(n, ast.comprehension):
                for name, _ in _targets(n.target):
                    self.bind.setdefault(name, []).append((None, (), n))
        # a parameter that is re-bound counts as a multiply-bound local (kept by name)
        for p in self.params:
            if p in self.bind:
                self.bind[p].append((None, (), None))

    def _sub_store(self, t, stmt):
        # element / attribute stores through a local name make the name's value path dependent: do not inline it
        b = t
        sub = False
        while isinstance(b, (ast.Subscript, ast.Attribute)):
            b = b.value
            sub = True
        if sub and isinstance(b, ast.Name):
            self.bind.setdefault(b.id, []).append((None, ('store',), stmt))

    def _walk(self, node):
        # own statements and expressions, including comprehensions, excluding nested defs' bodies
        yield from walk_own(node)

    # ------------------------------------------------------------------ queries
    def is_local(self, name):
        return name in self.bind and name not in self.params or (name in self.params and len(self.bind.get(name, ())) > 0)

    def defs(self, name):
        return [v for (v, path, st) in self.bind.get(name, []) if v is not None]

    def single(self, name):
        """Defining expression of a local bound exactly once by plain assignment (projection applied), else None."""
        b = self.bind.get(name)
        if not b or len(b) != 1 or name in self.params:
            return None
        v, path, st = b[0]
        if v is None:
            return None
        for p in path:
            if p == '*':
                return None
            if isinstance(v, (ast.Tuple, ast.List)) and p < len(v.elts) and not any(isinstance(x, ast.Starred) for x in v.elts):
                v = v.elts[p]
            else:
                v = ast.Subscript(value=v, slice=ast.Constant(value=p), ctx=ast.Load())
        return v

    def expand(self, e, depth=12, _stack=()):
        if e is None:
            return None
        il = self

        class T(ast.NodeTransformer):
            def visit_Name(s, n):
                if isinstance(n.ctx, ast.Load) and n.id not in _stack and depth > 0:
                    v = il.single(n.id)
                    if v is not None:
                        return il.expand(v, depth - 1, _stack + (n.id,))
                return n
        return T().visit(copy.deepcopy(e))

    def canon(self, e, roles=None):
        """Rename the locals that remain after inlining to _0, _1, ... in order of appearance; `roles` pre-assigns
        names to locals whose role the rule has already identified (loop counter -> 'I', accumulator -> 'ACC', ...)."""
        e = copy.deepcopy(e)
        order = {}
        for n in ast.walk(e):
            # comprehension variables are bound inside the expression itself
            if isinstance(n, ast.comprehension):
                for name, _ in _targets(n.target):
                    order.setdefault(name, None)
        names = [n for n in ast.walk(e) if isinstance(n, ast.Name)]
        names.sort(key=lambda n: (getattr(n, 'lineno', 0), getattr(n, 'col_offset', 0)))
        # ast.walk order is breadth-first; use a deterministic source-text order instead
        seq = []

        class V(ast.NodeVisitor):
            def visit_Name(s, n):
                seq.append(n)
        V().visit(e)
        k = 0
        mapping = dict(roles or {})
        for n in seq:
            if (n.id in self.bind or n.id in order) and not (n.id in self.params and len(self.bind.get(n.id, ())) == 0):
                if n.id in self.params:
                    continue            # re-bound parameter: keep its name (it names a role)
                if n.id not in mapping:
                    mapping[n.id] = '_%d' % k
                    k += 1
        for n in seq:
            if n.id in mapping:
                n.id = mapping[n.id]
        return e

    def tree(self, e, canon=True, roles=None, keep=()):
        """keep: names that must not be inlined (accumulators the rule wants to see by role)."""
        x = self.expand(e, _stack=tuple(keep) + tuple(roles or ()))
        if canon:
            x = self.canon(x, roles)
        return x

    def text(self, e, canon=True, roles=None, keep=()):
        return norm_text(self.tree(e, canon, roles, keep))

    def same(self, e, wanted, roles=None, keep=(), subst=()):
        """True when the inlined, canonically renamed expression is the same syntax tree as one of the `wanted` source
        texts (parentheses that do not change the tree, spacing and quote style are immaterial; precedence is not)."""
        got = ast.unparse(self.tree(e, True, roles, keep))
        return any(tree_key(got, subst) == tree_key(w, subst) for w in ([wanted] if isinstance(wanted, str) else wanted))

    def returns(self):
        return sorted((n for n in self._walk(self.node) if isinstance(n, ast.Return) and n.value is not None), key=lambda n: n.lineno)

    def stores_to(self, pred):
        """Assign / AugAssign statements with a target satisfying pred(target)."""
        out = []
        for n in self._walk(self.node):
            if isinstance(n, ast.Assign) and any(pred(t) for t in n.targets):
                out.append(n)
            elif isinstance(n, ast.AugAssign) and pred(n.target):
                out.append(n)
        return sorted(out, key=lambda n: n.lineno)


class _SliceFromZero(ast.NodeTransformer):
    """`x[:n]` is `x[0:n]` (no step, or a positive constant step): one spelling for both"""
    def visit_Slice(self, n):
        self.generic_visit(n)
        if n.lower is None and (n.step is None or (isinstance(n.step, ast.Constant) and isinstance(n.step.value, int) and n.step.value > 0)) \
                and n.upper is not None:
            n.lower = ast.Constant(value=0)
        return n


def canon_slices(node):
    import copy
    if not any(isinstance(x, ast.Slice) and x.lower is None and x.upper is not None for x in ast.walk(node)):
        return node
    return ast.fix_missing_locations(_SliceFromZero().visit(copy.deepcopy(node)))


def norm_text(e):
    """Whitespace / parenthesis / quote insensitive text of an expression (slices `:n` spelled `0:n`)."""
    if isinstance(e, ast.AST):
        e = ast.unparse(canon_slices(e))
    elif '[:' in e or ',:' in e or ', :' in e:
        try:
            e = ast.unparse(canon_slices(ast.parse(e, mode='eval').body))
        except SyntaxError:
            pass
    return e.replace(' ', '').replace('\n', '').replace('"', "'")


def strip_parens(t):
    return t.replace('(', '').replace(')', '')


def tree_key(text, subst=()):
    """ast.dump of an expression text after textual module-alias substitutions (e.g. ('np.linalg.', 'ling.'))."""
    if isinstance(text, ast.AST):
        text = ast.unparse(text)
    for a, b in subst:
        text = text.replace(a, b)
    try:
        return ast.dump(canon_slices(ast.parse(text, mode='eval').body))
    except SyntaxError:
        return 'unparsable:' + text


def block_env(stmts, env=None):
    """Straight-line symbolic evaluation of a statement list: name -> expression tree with every earlier assignment of the
    same block substituted (sequential re-assignments `x = f(x)` compose).  Compound statements are opaque: every name they
    bind is forgotten.  Attribute / subscript stores are recorded under their target text with the substituted value.
    -> (env, stores) where stores is a list of (target node, substituted value, stmt)."""
    env = dict(env or {})
    stores = []

    def subst(e):
        class T(ast.NodeTransformer):
            def visit_Name(s, n):
                if isinstance(n.ctx, ast.Load) and n.id in env and env[n.id] is not None:
                    return copy.deepcopy(env[n.id])
                return n
        return T().visit(copy.deepcopy(e))

    def forget(node):
        for n in ast.walk(node):
            if isinstance(n, ast.Name) and isinstance(n.ctx, (ast.Store, ast.Del)):
                env[n.id] = None

    for st in stmts:
        if isinstance(st, ast.Assign):
            v = subst(st.value)
            for t in st.targets:
                if isinstance(t, ast.Name):
                    env[t.id] = v
                elif isinstance(t, (ast.Tuple, ast.List)) and all(isinstance(x, ast.Name) for x in t.elts):
                    for i, x in enumerate(t.elts):
                        if isinstance(v, (ast.Tuple, ast.List)) and len(v.elts) == len(t.elts):
                            env[x.id] = v.elts[i]
                        else:
                            env[x.id] = ast.Subscript(value=copy.deepcopy(v), slice=ast.Constant(value=i), ctx=ast.Load())
                else:
                    stores.append((t, v, st))
                    b = t
                    while isinstance(b, (ast.Subscript, ast.Attribute)):
                        b = b.value
                    if isinstance(b, ast.Name) and b.id in env and isinstance(t, ast.Subscript):
                        env[b.id] = None          # element store: the name's value is no longer its defining expression
        elif isinstance(st, ast.AugAssign):
            if isinstance(st.target, ast.Name):
                cur = env.get(st.target.id)
                if cur is not None:
                    env[st.target.id] = ast.BinOp(left=cur, op=st.op, right=subst(st.value))
                else:
                    env[st.target.id] = None
            else:
                stores.append((st.target, None, st))
        elif isinstance(st, (ast.Expr, ast.Pass, ast.Assert, ast.Return)):
            continue
        else:
            forget(st)
    return env, stores


def canon_names(e, mapping):
    """Copy of `e` with the given names replaced (role names chosen by the rule)."""
    e = copy.deepcopy(e)
    for n in ast.walk(e):
        if isinstance(n, ast.Name) and n.id in mapping:
            n.id = mapping[n.id]
    return e


def same_tree(e, wanted, subst=()):
    got = ast.unparse(e) if isinstance(e, ast.AST) else e
    return any(tree_key(got, subst) == tree_key(w, subst) for w in ([wanted] if isinstance(wanted, str) else wanted))


def resolved_in_block(body, expr):
    """`expr` (a node inside one of the top-level statements of `body`) with the straight-line assignments that precede
    that statement in `body` substituted."""
    for k, st in enumerate(body):
        if any(n is expr for n in ast.walk(st)):
            env, _ = block_env(body[:k])

            class T(ast.NodeTransformer):
                def visit_Name(s, n):
                    if isinstance(n.ctx, ast.Load) and env.get(n.id) is not None:
                        return copy.deepcopy(env[n.id])
                    return n
            return T().visit(copy.deepcopy(expr))
    return copy.deepcopy(expr)


_FLIP = {ast.Lt: ast.Gt, ast.LtE: ast.GtE, ast.Gt: ast.Lt, ast.GtE: ast.LtE, ast.Eq: ast.Eq, ast.NotEq: ast.NotEq}
_SYM = {ast.Lt: '<', ast.LtE: '<=', ast.Gt: '>', ast.GtE: '>=', ast.Eq: '==', ast.NotEq: '!='}


def cmp_parts(test, left=None):
    """(left text, operator symbol, right text) of a single two-operand comparison, oriented so that `left` (a text, or a
    predicate on texts) is on the left when it occurs on either side; None when `test` is not such a comparison."""
    if not (isinstance(test, ast.Compare) and len(test.ops) == 1 and type(test.ops[0]) in _FLIP):
        return None
    l, r, op = norm_text(test.left), norm_text(test.comparators[0]), type(test.ops[0])
    if left is not None:
        pred = left if callable(left) else (lambda t: t == left)
        if not pred(l) and pred(r):
            l, r, op = r, l, _FLIP[op]
        elif not pred(l):
            return None
    return l, _SYM[op], r


def canon_cmp_text(text):
    """Canonical text of a comparison given as source text: `b > a` -> `a<b` (orderings use < / <= only)."""
    try:
        t = ast.parse(text, mode='eval').body
    except SyntaxError:
        return text.replace(' ', '')
    neg = 0
    while isinstance(t, ast.UnaryOp) and isinstance(t.op, ast.Not):
        t = t.operand
        neg += 1
    if isinstance(t, ast.Compare) and len(t.ops) == 1 and type(t.ops[0]) in (ast.Gt, ast.GtE):
        t = ast.Compare(left=t.comparators[0], ops=[_FLIP[type(t.ops[0])]()], comparators=[t.left])
    return 'not ' * neg + norm_text(t)


def stores_through_helpers(methods, fnode, field, depth=3, bind=None):
    """Value expressions stored into `self.<field>` by a method, following calls of private helpers of the same class
    (`self._x(args)` statements): a stored parameter of the helper is replaced by the argument expression of the call.
    `methods`: name -> FunctionDef.  -> list of (value AST, FunctionDef where the store is written)."""
    bind = bind or {}
    out = []

    def subst(e):
        class T(ast.NodeTransformer):
            def visit_Name(s, n):
                if isinstance(n.ctx, ast.Load) and n.id in bind:
                    return copy.deepcopy(bind[n.id])
                return n
        return T().visit(copy.deepcopy(e))
    for n in ast.walk(fnode):
        if isinstance(n, ast.Assign):
            for t in n.targets:
                if isinstance(t, ast.Attribute) and t.attr == field and isinstance(t.value, ast.Name) and t.value.id == 'self':
                    out.append((subst(n.value), fnode))
        elif isinstance(n, ast.Call) and isinstance(n.func, ast.Attribute) and isinstance(n.func.value, ast.Name) and n.func.value.id == 'self' \
                and n.func.attr in methods and n.func.attr.startswith('_') and not n.func.attr.startswith('__') and depth > 0:
            callee = methods[n.func.attr]
            if callee is fnode:
                continue
            params = [a.arg for a in callee.args.args][1:]
            b2 = {}
            for p_, a_ in zip(params, n.args):
                b2[p_] = subst(a_)
            for k in n.keywords:
                if k.arg:
                    b2[k.arg] = subst(k.value)
            out.extend(stores_through_helpers(methods, callee, field, depth - 1, b2))
    return out


def _affine(e):
    """expression -> (symbolic part text or '', integer offset); None when not of the form  sym (+|-) const"""
    if isinstance(e, ast.Constant) and isinstance(e.value, int) and not isinstance(e.value, bool):
        return ('', e.value)
    if isinstance(e, ast.UnaryOp) and isinstance(e.op, ast.USub):
        a = _affine(e.operand)
        return ('', -a[1]) if a is not None and a[0] == '' else None
    if isinstance(e, ast.BinOp) and isinstance(e.op, (ast.Add, ast.Sub)):
        a, b = _affine(e.left), _affine(e.right)
        if a is None or b is None:
            return None
        sgn = 1 if isinstance(e.op, ast.Add) else -1
        if b[0] == '':
            return (a[0], a[1] + sgn * b[1])
        if a[0] == '' and sgn == 1:
            return (b[0], a[1] + b[1])
        return None
    return (norm_text(e), 0)


def range_triple(it):
    """iterator expression -> ((sym, off) start, (sym, off) stop, int step) for range(...) and reversed(range(...)) with unit
    step; None for anything else.  `reversed(range(1, n + 1))` and `range(n, 0, -1)` give the same triple."""
    rev = False
    if isinstance(it, ast.Call) and isinstance(it.func, ast.Name) and it.func.id == 'reversed' and len(it.args) == 1 and not it.keywords:
        rev, it = True, it.args[0]
    if not (isinstance(it, ast.Call) and isinstance(it.func, ast.Name) and it.func.id == 'range' and 1 <= len(it.args) <= 3 and not it.keywords):
        return None
    a = [_affine(x) for x in it.args]
    if any(x is None for x in a):
        return None
    start, stop, step = ('', 0), None, 1
    if len(a) == 1:
        stop = a[0]
    else:
        start, stop = a[0], a[1]
        if len(a) == 3:
            if a[2][0] != '' or a[2][1] not in (1, -1):
                return None
            step = a[2][1]
    if rev:
        start, stop, step = (stop[0], stop[1] - step), (start[0], start[1] - step), -step
    return (start, stop, step)
