"""Path summaries: every control path of a (possibly partially evaluated) method body as
    facts   {canonical test text: assumed truth}
    events  ordered calls ('call', callee text, (arg texts...), lineno, (parseable arg texts...)) and attribute / element stores ('store', target text, lineno, value text); ('except', '', lineno) marks the entry of a handler
    ret     canonical text of the returned expression (None for a fall-through, '<none>' for a bare return)
Locals are resolved to the expression they were last assigned on that path (so a rule never sees what a temporary is called);
a local that is re-assigned from itself composes (`v = v and c`).  Built on the structured flow engine (all paths, no execution).
"""
import ast
import copy

from .flow import Domain, Flow
from .inline import norm_text


class PathDomain(Domain):
    MAX_STATES = 4096

    def __init__(self, params=(), consts=None):
        self.params = set(params)
        self.consts = dict(consts or {})     # canonical expression text -> Python constant assumed for it (case analysis)

    def _fold(self, t):
        """truth of a test made of assumed constants, literals, comparisons, `in`, and/or/not; None when undecided"""
        def val(e):
            txt = norm_text(e)
            if txt in self.consts:
                return ('v', self.consts[txt])
            if isinstance(e, ast.Constant):
                return ('v', e.value)
            if isinstance(e, ast.UnaryOp) and isinstance(e.op, ast.USub) and isinstance(e.operand, ast.Constant) and isinstance(e.operand.value, (int, float)) \
                    and not isinstance(e.operand.value, bool):
                return ('v', -e.operand.value)
            if isinstance(e, (ast.Tuple, ast.List)):
                xs = [val(x) for x in e.elts]
                return ('v', tuple(x[1] for x in xs)) if all(x is not None for x in xs) else None
            if isinstance(e, ast.UnaryOp) and isinstance(e.op, ast.Not):
                v = val(e.operand)
                return ('v', not v[1]) if v is not None else None
            if isinstance(e, ast.BoolOp):
                vs = [val(x) for x in e.values]
                if isinstance(e.op, ast.And):
                    if any(v is not None and not v[1] for v in vs):
                        return ('v', False)
                    return ('v', True) if all(v is not None for v in vs) else None
                if any(v is not None and v[1] for v in vs):
                    return ('v', True)
                return ('v', False) if all(v is not None for v in vs) else None
            if isinstance(e, ast.Compare) and len(e.ops) == 1:
                a, b = val(e.left), val(e.comparators[0])
                if a is None or b is None:
                    return None
                op = e.ops[0]
                try:
                    if isinstance(op, ast.Eq):
                        return ('v', a[1] == b[1])
                    if isinstance(op, ast.NotEq):
                        return ('v', a[1] != b[1])
                    if isinstance(op, ast.Lt):
                        return ('v', a[1] < b[1])
                    if isinstance(op, ast.LtE):
                        return ('v', a[1] <= b[1])
                    if isinstance(op, ast.Gt):
                        return ('v', a[1] > b[1])
                    if isinstance(op, ast.GtE):
                        return ('v', a[1] >= b[1])
                    if isinstance(op, ast.In):
                        return ('v', a[1] in b[1])
                    if isinstance(op, ast.NotIn):
                        return ('v', a[1] not in b[1])
                except TypeError:
                    return None
            return None
        v = val(t)
        return None if v is None else bool(v[1])

    # state = (env, facts, events)   env: tuple of (name, expr-text) ; facts: frozenset (truth, key text, parseable text) ; events: tuple
    @staticmethod
    def init():
        return ((), frozenset(), ())

    def _canon(self, e, env):
        d = dict(env)

        class T(ast.NodeTransformer):
            def visit_Name(s, n):
                if isinstance(n.ctx, ast.Load) and n.id in d and d[n.id] is not None:
                    try:
                        return ast.parse(d[n.id], mode='eval').body
                    except SyntaxError:
                        return n
                return n
        return ast.unparse(T().visit(copy.deepcopy(e)))

    def _calls(self, e, env, events):
        for c in sorted((x for x in ast.walk(e) if isinstance(x, ast.Call)), key=lambda x: (x.end_lineno or x.lineno, x.end_col_offset or 0)):
            srcs = tuple(self._canon(a, env) for a in c.args)          # parseable argument texts (element 4; element 2 has no spaces)
            events = events + (('call', norm_text(self._canon(c.func, env)), tuple(norm_text(a_) for a_ in srcs)
                                + tuple('%s=%s' % (k.arg, norm_text(self._canon(k.value, env))) for k in c.keywords), c.lineno, srcs),)
        return events

    def transfer(self, stmt, state):
        env, facts, events = state
        d = dict(env)
        if isinstance(stmt, ast.Assign):
            events = self._calls(stmt.value, env, events)
            val = self._canon(stmt.value, env)
            for t in stmt.targets:
                if isinstance(t, ast.Name):
                    if norm_text(val) == norm_text(d[t.id] if d.get(t.id) is not None else t.id) and (t.id not in d or d[t.id] is not None):
                        continue                # x = x (e.g. an inlined helper handing its argument back): nothing changes
                    d[t.id] = val
                    # facts about the value the name had so far stay true of that value: they are kept under the name `<name>__was`
                    facts = frozenset(self._age(f, t.id) if self._mentions(f[2], t.id) else f for f in facts)
                elif isinstance(t, (ast.Tuple, ast.List)):
                    if isinstance(stmt.value, (ast.Tuple, ast.List)) and len(stmt.value.elts) == len(t.elts) \
                            and all(isinstance(x, ast.Name) for x in t.elts) and not any(isinstance(x, ast.Starred) for x in stmt.value.elts):
                        # a, b = x, y: element-wise, all right-hand sides read before any name is bound
                        vals = [self._canon(v_, env) for v_ in stmt.value.elts]
                        for x, v_ in zip(t.elts, vals):
                            d[x.id] = v_
                            facts = frozenset(self._age(f, x.id) if self._mentions(f[2], x.id) else f for f in facts)
                    elif all(isinstance(x, ast.Name) for x in t.elts) and val is not None:
                        # a, b = f(x): the components of one value (the call is taken to be pure: it is named once)
                        for k_, x in enumerate(t.elts):
                            d[x.id] = '(%s)[%d]' % (val, k_)
                            facts = frozenset(self._age(f, x.id) if self._mentions(f[2], x.id) else f for f in facts)
                    else:
                        for x in ast.walk(t):
                            if isinstance(x, ast.Name):
                                d[x.id] = None
                else:
                    events = events + (('store', norm_text(self._canon(t, env)), stmt.lineno, val),)
        elif isinstance(stmt, ast.AugAssign):
            events = self._calls(stmt.value, env, events)
            if isinstance(stmt.target, ast.Name):
                # x += e composes like x = x + e (the value text is what rules read; in-place vs rebinding is not modelled here)
                cur = d.get(stmt.target.id, stmt.target.id) if stmt.target.id in d else stmt.target.id
                if cur is None:
                    d[stmt.target.id] = None
                else:
                    try:
                        d[stmt.target.id] = ast.unparse(ast.BinOp(left=ast.parse(cur, mode='eval').body, op=stmt.op,
                                                                  right=ast.parse(self._canon(stmt.value, env), mode='eval').body))
                    except SyntaxError:
                        d[stmt.target.id] = None
            else:
                events = events + (('store', norm_text(self._canon(stmt.target, env)), stmt.lineno),)
        elif isinstance(stmt, ast.Expr):
            events = self._calls(stmt.value, env, events)
        elif isinstance(stmt, (ast.FunctionDef, ast.ClassDef)):
            d[stmt.name] = None
        return ((tuple(sorted(d.items(), key=lambda kv: kv[0])), facts, events),)

    @staticmethod
    def _age(fact, name):
        tr, _key, srcp = fact
        try:
            tree = ast.parse(srcp, mode='eval')
        except SyntaxError:
            return fact

        class R(ast.NodeTransformer):
            def visit_Name(self, n):
                if n.id == name:
                    return ast.copy_location(ast.Name(id=name + '__was', ctx=n.ctx), n)
                return n
        new = ast.unparse(R().visit(tree))
        return (tr, norm_text(new), new)

    @staticmethod
    def _mentions(text, name):
        try:
            return any(isinstance(n, ast.Name) and n.id == name for n in ast.walk(ast.parse(text, mode='eval')))
        except SyntaxError:
            return name in text

    def assume(self, test, truth, state):
        env, facts, events = state
        t, tr = test, truth
        while isinstance(t, ast.UnaryOp) and isinstance(t.op, ast.Not):
            t, tr = t.operand, not tr
        canon = self._canon(t, env)
        text = norm_text(canon)
        try:
            known = self._fold(ast.parse(canon, mode='eval').body)          # assumed constants and tests between literals
        except SyntaxError:
            known = None
        if known is not None:
            return state if known == tr else None
        if text in ('True', 'False'):
            return state if (text == 'True') == tr else None
        nn = self._none_test(canon)
        if nn is not None:
            return state if nn == tr else None
        if (not tr, text, canon) in facts:
            return None
        return (env, facts | {(tr, text, canon)}, events)

    NEVER_NONE_METHODS = ('reshape', 'copy', 'flatten', 'ravel', 'astype', 'transpose', 'dot')
    NEVER_NONE_FUNCS = ('array', 'asarray', 'zeros', 'ones', 'eye', 'copy', 'reshape', 'hstack', 'vstack', 'concatenate', 'cross', 'abs',
                        'list', 'tuple', 'dict', 'set', 'float', 'int', 'str', 'bool', 'len', 'range')

    def _none_test(self, canon):
        """truth of `<e> is None` / `<e> is not None` / `== None` when the (substituted) expression e is visibly None or visibly a value
        (a literal, arithmetic, a display, the result of an array constructor / reshape / copy); None when undecided"""
        try:
            e = ast.parse(canon, mode='eval').body
        except SyntaxError:
            return None
        if not (isinstance(e, ast.Compare) and len(e.ops) == 1 and isinstance(e.ops[0], (ast.Is, ast.IsNot, ast.Eq, ast.NotEq))):
            return None
        l, r = e.left, e.comparators[0]
        if isinstance(l, ast.Constant) and l.value is None:
            l, r = r, l
        if not (isinstance(r, ast.Constant) and r.value is None):
            return None
        is_none = None
        if isinstance(l, ast.Constant):
            is_none = l.value is None
        elif isinstance(l, (ast.BinOp, ast.Tuple, ast.List, ast.Dict, ast.Set, ast.ListComp, ast.JoinedStr, ast.Lambda)):
            is_none = False
        elif isinstance(l, ast.Call):
            f = l.func
            tail = f.attr if isinstance(f, ast.Attribute) else (f.id if isinstance(f, ast.Name) else '')
            recv_np = isinstance(f, ast.Attribute) and isinstance(f.value, ast.Name) and f.value.id in ('np', 'numpy')
            if (isinstance(f, ast.Attribute) and not recv_np and tail in self.NEVER_NONE_METHODS) or ((recv_np or isinstance(f, ast.Name)) and tail in self.NEVER_NONE_FUNCS):
                is_none = False
        if is_none is None:
            return None
        return is_none if isinstance(e.ops[0], (ast.Is, ast.Eq)) else not is_none

    def effects(self, expr, state):
        env, facts, events = state
        return ((env, facts, self._calls(expr, env, events)),)

    def handler_enter(self, handler, state):
        env, facts, events = state
        return ((env, facts, events + (('except', '', handler.lineno),)),)

    def enter_loop(self, node, state):
        env, facts, events = state
        # a loop that is not unrolled is summarised by the paths that run its body zero times or once (events would otherwise grow
        # without bound): enough for "which calls can happen under which facts", not for counting
        mark = ('loop', node.lineno, getattr(node, 'col_offset', 0))
        if mark in events:
            return ()
        events = events + (mark,)
        d = dict(env)
        if isinstance(node, (ast.For, ast.AsyncFor)):
            for x in ast.walk(node.target):
                if isinstance(x, ast.Name):
                    d[x.id] = None
        return ((tuple(sorted(d.items(), key=lambda kv: kv[0])), facts, events),)

    def enter_while(self, node, state):
        return self.enter_loop(node, state)

    def on_return(self, node, state):
        env, facts, events = state
        if node.value is None:
            return ((env, facts, events + (('ret', '<none>', node.lineno),)),)
        events = self._calls(node.value, env, events)
        c_ = self._canon(node.value, env)
        return ((env, facts, events + (('ret', norm_text(c_), node.lineno, c_),)),)


class Path:
    def __init__(self, kind, state):
        self.kind = kind
        env, facts, events = state
        self.facts = {t: tr for (tr, t, _s) in facts}
        self.fact_src = {t: s_ for (tr, t, s_) in facts}        # parseable source of each fact (the keys have no spaces)
        self.events = [e for e in events if e[0] not in ('ret', 'loop')]
        rets = [e for e in events if e[0] == 'ret']
        self.ret = rets[-1][1] if rets else None
        self.ret_src = (rets[-1][3] if len(rets[-1]) > 3 else rets[-1][1]) if rets else None      # parseable form of .ret
        self.ret_line = rets[-1][2] if rets else None

    def calls(self, pred=None):
        return [e for e in self.events if e[0] == 'call' and (pred is None or pred(e[1]))]


def paths_of(fn_node, params=(), consts=None):
    body = [s for s in fn_node.body if not (isinstance(s, ast.Expr) and isinstance(s.value, ast.Constant))]
    dom = PathDomain(params, consts)
    exits = Flow(dom).run(body, {PathDomain.init()})
    return [Path(e.kind, e.state) for e in exits if e.kind in ('return', 'fall')]


def paths_of_block(stmts, params=(), consts=None):
    """Path summaries of one iteration of a loop body (or any statement list) in isolation:
    -> (ends, breaks, exits)  lists of Path: iterations that end normally or by `continue`, by `break`, and return / raise exits."""
    dom = PathDomain(params, consts)
    ends, brks, exits = Flow(dom).run_loop_body(list(stmts), {PathDomain.init()})
    return ([Path('end', s) for s in ends], [Path('break', s) for s in brks], [Path(e.kind, e.state) for e in exits])
