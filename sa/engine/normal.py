"""E6 - translation validation by normal form (value numbering), no execution, no solver.

A function body is turned into ONE canonical term: locals are forward-substituted, branches
become `ite`, loops become canonical `loop` terms over dependency-ordered carried variables,
array assembly (np.r_/np.c_/literals/eye+slice stores) becomes a BLOCK normal form, and a fixed
set of semantics-preserving rewrites (N1..N16, DESIGN.md section 2.1/E6) is applied by the
smart constructors.  Two functions are EQUIVALENT iff their terms are identical.

Terms are nested tuples (hashable):
  ('num', float) ('k', const) ('p', i) ('g', name) ('mod', dotted) ('undef', name)
  ('call', fname, args, kwargs) ('bin', op, a, b) ('neg', a) ('un', op, a) ('cmp', op, a, b)
  ('and'|'or', args) ('not', a) ('idx', base, items) ('sl', lo, hi, step) ('attr', base, name)
  ('T', a) ('dot', a, b) ('tuple', items) ('list', items) ('block', shape, cells)
  ('ite', c, a, b) ('store', base, items, val) ('unpack', t, k)
  ('lv', depth, k) ('iv', depth) ('lout', loopterm, k) ('loop', kind, header, vars)
"""
import ast

FULL = ('sl', None, None, None)


OUTPUT_ONLY = {'print', 'disp', 'dispa', 'progressBar'}


class Unsupported(Exception):
    pass


def num(v):
    return ('num', float(v))


def is_num(t, v=None):
    return isinstance(t, tuple) and t[0] == 'num' and (v is None or t[1] == float(v))


# ----------------------------------------------------------------------------------------
# shapes
# ----------------------------------------------------------------------------------------
class Shapes:
    """Shape contracts of parameters / return values (documented in the docstrings of the library)."""

    def __init__(self, params=None, returns=None):
        self.params = params or {}      # function name -> {param name: shape}
        self.returns = returns or {}    # function name -> shape | ('tuple', shapes...)


def _sl_extent(sl, ext):
    lo, hi, st = sl[1], sl[2], sl[3]
    if st is not None:
        return None
    if lo is None and hi is None:
        return ext
    lo_v = 0 if lo is None else (int(lo[1]) if is_num(lo) and lo[1] >= 0 else None)
    if lo_v is None:
        return None
    if hi is None:
        return (ext - lo_v) if isinstance(ext, int) else None
    if is_num(hi) and hi[1] >= 0:
        return int(hi[1]) - lo_v
    return None


# ----------------------------------------------------------------------------------------
# normaliser
# ----------------------------------------------------------------------------------------
NP_ALIASES = {'np': 'numpy', 'numpy': 'numpy'}
ELEMENTWISE = {'numpy.sin', 'numpy.cos', 'numpy.tan', 'numpy.arccos', 'numpy.arcsin', 'numpy.sqrt', 'numpy.abs',
               'numpy.square', 'numpy.exp', 'abs'}
BINOPS = {ast.Add: '+', ast.Sub: '-', ast.Mult: '*', ast.Div: '/', ast.FloorDiv: '//', ast.Mod: '%', ast.Pow: '**',
          ast.MatMult: '@'}
CMPOPS = {ast.Eq: '==', ast.NotEq: '!=', ast.Lt: '<', ast.LtE: '<=', ast.Gt: '>', ast.GtE: '>=', ast.Is: 'is',
          ast.IsNot: 'is not', ast.In: 'in', ast.NotIn: 'not in'}


_CMP_FLIP = {'<': '>', '<=': '>=', '>': '<', '>=': '<=', '==': '==', '!=': '!='}


def _cmp_rank(t):
    if isinstance(t, tuple) and t and t[0] in ('num', 'k'):
        return 0
    if isinstance(t, tuple) and t and t[0] == 'p':
        return 1
    return 2


def canon_cmp(op, l, r):
    """One orientation per comparison (`b > a` and `a < b` are the same term): the structurally richer operand stands on
    the left (constant < parameter < anything else; ties by text)."""
    if op in _CMP_FLIP:
        kl, kr = (_cmp_rank(l), repr(l)), (_cmp_rank(r), repr(r))
        if (kl[0] < kr[0]) or (kl[0] == kr[0] and kl[1] > kr[1]):
            return ('cmp', _CMP_FLIP[op], r, l)
    return ('cmp', op, l, r)


def _has(term, heads):
    if isinstance(term, tuple):
        if term and term[0] in heads:
            return True
        return any(_has(x, heads) for x in term)
    return False


def _subst_p(term, args, memo=None):
    """('p', i) -> args[i]; shared sub-terms are rewritten once (terms are DAGs of immutable tuples)"""
    if memo is None:
        memo = {}
    if isinstance(term, tuple):
        k = id(term)
        if k in memo:
            return memo[k][1]
        if term and term[0] == 'p' and len(term) == 2 and isinstance(term[1], int):
            r = args[term[1]] if term[1] < len(args) else term
        else:
            r = tuple(_subst_p(x, args, memo) for x in term)
            if r == term:
                r = term
        memo[k] = (term, r)
        return r
    return term


def term_size(term, limit, seen=None):
    """number of distinct tuple nodes (stops counting at `limit`)"""
    seen = set() if seen is None else seen
    stack = [term]
    while stack and len(seen) < limit:
        t = stack.pop()
        if isinstance(t, tuple) and id(t) not in seen:
            seen.add(id(t))
            stack.extend(t)
    return len(seen)


class Inlining:
    """Inter-procedural normal forms: a call of a module-level helper is replaced by the helper's own normal form with the
    arguments substituted, when that form is loop-free and effect-free (so no loop variable can be captured and no effect is
    duplicated).  `which(name)` selects the helpers: e.g. only functions that are private to one side, or every function."""

    def __init__(self, funcs, shapes, known, helper_rules, global_names, which):
        self.funcs, self.shapes, self.known = funcs, shapes, known
        self.helper_rules, self.global_names, self.which = helper_rules, global_names, which
        self.cache = {}
        self.stack = []
        self.used = set()
        self.spent = 0
        self.budget = 60000
        self.self_methods = {}   # private methods of the class under analysis: name -> key in funcs ('meth:<name>')
        self.module_aliases = set()
        self.attr_shapes = {}

    def nf(self, name, argshapes=()):
        key = (name, argshapes)
        if key in self.cache:
            return self.cache[key]
        if name in self.stack or name not in self.funcs:
            return None
        self.stack.append(name)
        try:
            nz = Normalizer(self.funcs[name], self.shapes, self.known, None, self.helper_rules, self.global_names)
            nz.inliner = self
            nz.module_aliases = set(self.module_aliases)
            if name.startswith('meth:'):
                nz.self_methods = self.self_methods
                nz.attr_shapes = dict(self.attr_shapes)
            # a helper without a documented shape contract takes the shapes of the arguments it is called with
            for p_, sh in zip(nz.params, argshapes):
                if sh is not None and p_ not in nz.pshape:
                    nz.pshape[p_] = sh
            try:
                t = nz.run()
            except Unsupported:
                t = None
            ok = t is not None and t[1] == ('eff0',) and not _has(t[2], ('loop', 'rawloop', 'lout', 'lv', 'iv')) and not nz.failures
            self.cache[key] = (t[2], len(nz.params), dict(nz.defaults), nz) if ok else None
        finally:
            self.stack.pop()
        return self.cache[key]

    def instantiate(self, name, args, caller):
        if name == caller.name or not self.which(name):
            return None
        args = tuple(args)
        shapes = []
        for a in args:
            try:
                sh = caller.shape(a)
            except Exception:  # noqa
                sh = None
            shapes.append(sh if (sh is None or all(isinstance(x, int) for x in sh)) else None)
        r = self.nf(name, tuple(shapes))
        if r is None:
            return None
        val, nparams, defaults, nz = r
        if len(args) > nparams:
            return None
        if len(args) < nparams:
            # remaining parameters must have defaults
            extra = []
            for p_ in nz.params[len(args):]:
                if p_ not in defaults:
                    return None
                extra.append(caller.expr(defaults[p_], {}))
            args = args + tuple(extra)
        sz = term_size(val, 4000) + sum(term_size(a, 4000) for a in args)
        if sz >= 4000:
            return None                      # keep the call: inlining would make the comparison itself the bottleneck
        self.spent += sz
        if self.spent > self.budget:
            raise Unsupported('inlining budget exhausted')
        self.used.add(name)
        return caller.refold(_subst_p(val, args))


class Normalizer:
    def __init__(self, fnode, shapes, module_funcs, ref_nparams=None, helper_rules=True, global_names=()):
        self.fn = fnode
        self.name = fnode.name
        self.shapes = shapes
        self.module_funcs = set(module_funcs)
        self.helper_rules = helper_rules
        self.global_names = set(global_names)
        a = fnode.args
        self.params = [x.arg for x in a.posonlyargs + a.args]
        self.param_index = {p: i for i, p in enumerate(self.params)}
        self.defaults = {}
        nd = len(a.defaults)
        for p, d in zip(self.params[len(self.params) - nd:], a.defaults):
            self.defaults[p] = d
        self.ref_nparams = ref_nparams
        self.depth = 0
        self.failures = []       # definite failures noticed while normalising (rank errors, ...)
        self.loop_uid = 0
        self.pshape = dict(self.shapes.params.get(self.name, {}))
        self.loop_shapes = {}
        self.local_fns = {}
        self.local_depth = 0
        self.loop_inits = {}
        self.loop_headers = {}   # loop uid -> header term of a `for` (N18 needs to know that an index is the variable of range(n))
        self.lam_level = 0
        self.inliner = None      # optional Inlining(...) : module-level helpers are replaced by their (loop-free, effect-free) normal form
        self.attr_shapes = {}    # shapes of attributes of the first parameter (`self.<name>`), when a rule knows them
        self.self_methods = {}   # private methods of the same class: self._h(x) is replaced by the helper's normal form when loop- and effect-free
        self.module_aliases = set()   # global names bound to the kernel modules: alias.f(x) is the call f(x)

    def refold(self, t, memo=None):
        """Re-apply the local simplifications that substitution of arguments can enable (constant index into a block / tuple)."""
        if not isinstance(t, tuple):
            return t
        if memo is None:
            memo = {}
        k = id(t)
        if k in memo:
            return memo[k][1]
        r = tuple(self.refold(x, memo) for x in t)
        if r == t:
            r = t
        if r and r[0] == 'idx' and len(r) == 3 and isinstance(r[1], tuple) and r[1]:
            try:
                r = self.index(r[1], r[2])
            except Exception:  # noqa
                pass
        elif r and r[0] == 'cmp' and len(r) == 4:
            r = self.none_test(r)
        elif r and r[0] == 'bin' and len(r) == 4 and (self._one_cell(r[2]) or self._one_cell(r[3])):
            r = self.binop(r[1], r[2], r[3])
        elif r and r[0] == 'unpack' and len(r) == 3 and isinstance(r[1], tuple) and r[1] and r[1][0] == 'tuple' and isinstance(r[2], int) and r[2] < len(r[1][1]):
            r = r[1][1][r[2]]
        elif r and r[0] == 'ite' and len(r) == 4 and r[1] in (('k', True), ('k', False), ('k', None)):
            r = r[2] if r[1] == ('k', True) else r[3]       # a flag parameter bound to a constant at the call site
        elif r and r[0] == 'not' and len(r) == 2 and r[1] in (('k', True), ('k', False)):
            r = ('k', not r[1][1])
        elif r and r[0] == 'lam' and len(r) == 4 and is_num(r[2]) and float(r[2][1]).is_integer() and 0 <= r[2][1] <= self.UNROLL_MAX \
                and not _has(r[3], ('bv',)):
            # N18 the other way round: `[item] * n` with a constant n that only became known by substitution is the list literal
            r = self.mk_list(tuple(r[3] for _ in range(int(r[2][1]))))
        memo[k] = (t, r)
        return r

    @staticmethod
    def _tuple_item(b, items):
        if b[0] == 'tuple' and len(items) == 1 and is_num(items[0]) and float(items[0][1]).is_integer() and 0 <= int(items[0][1]) < len(b[1]):
            return b[1][int(items[0][1])]
        return None

    # ------------------------------------------------------------------ entry
    def run(self):
        env = {}
        for p in self.params:
            i = self.param_index[p]
            if self.ref_nparams is not None and i >= self.ref_nparams and p in self.defaults:
                env[p] = self.expr(self.defaults[p], {})     # N10: extra defaulted parameter == its default
            else:
                env[p] = ('p', i)
        env['$eff'] = ('eff0',)
        body = self.fn.body
        if body and isinstance(body[0], ast.Expr) and isinstance(body[0].value, ast.Constant) and isinstance(body[0].value.value, str):
            body = body[1:]
        res = self.block(body, env)
        if res[0] == 'env':
            ret = ('k', None)
            eff = res[1]['$eff']
        else:
            ret, eff = res[1], res[2]
        return self._renumber_loops(('fn', self.finalize(eff), self.finalize(ret)))

    @staticmethod
    def _renumber_loops(term):
        """Loop identities are handed out in source order while a body is read; loops that the rewrites dissolved leave gaps.  The finished
        term names its loops 1, 2, ... in the order they occur in it, so two bodies that differ only in dissolved loops compare equal."""
        order = {}
        seen = set()

        def scan(t):
            if isinstance(t, tuple) and t:
                if id(t) in seen:
                    return
                seen.add(id(t))
                if t[0] in ('loop', 'rawloop') and len(t) >= 2 and isinstance(t[1], int) and t[1] not in order:
                    order[t[1]] = len(order) + 1
                for y in t:
                    scan(y)
        scan(term)
        if all(k == v for k, v in order.items()):
            return term
        memo = {}

        def ren(t):
            if not isinstance(t, tuple) or not t:
                return t
            k_ = id(t)
            if k_ in memo:
                return memo[k_][1]
            if t[0] in ('loop', 'rawloop') and len(t) >= 2 and isinstance(t[1], int) and t[1] in order:
                r = (t[0], order[t[1]]) + tuple(ren(y) for y in t[2:])
            elif t[0] == 'iv' and len(t) == 2 and t[1] in order:
                r = ('iv', order[t[1]])
            elif t[0] == 'lv' and len(t) == 3 and t[1] in order:
                r = ('lv', order[t[1]], t[2])
            else:
                r = tuple(ren(y) for y in t)
            memo[k_] = (t, r)
            return r
        return ren(term)

    def run_env(self):
        """Normal form of the final environment of a body that falls off its end (methods that only store attributes):
        -> {name: term} or None when some path returns a value."""
        env = {}
        for p in self.params:
            env[p] = ('p', self.param_index[p])
        env['$eff'] = ('eff0',)
        body = self.fn.body
        if body and isinstance(body[0], ast.Expr) and isinstance(body[0].value, ast.Constant) and isinstance(body[0].value.value, str):
            body = body[1:]
        res = self.block(body, env)
        if res[0] != 'env':
            return None
        return {k: self.finalize(v) for k, v in res[1].items()}

    # ------------------------------------------------------------------ statements
    def block(self, stmts, env):
        """-> ('ret', term, eff) | ('env', env)"""
        for i, st in enumerate(stmts):
            if isinstance(st, ast.Return):
                v = self.expr(st.value, env) if st.value is not None else ('k', None)
                return ('ret', v, env['$eff'])
            if isinstance(st, ast.If):
                c = self.expr(st.test, env)
                r1 = self.block(st.body, dict(env))
                r2 = self.block(st.orelse, dict(env)) if st.orelse else ('env', dict(env))
                rest = stmts[i + 1:]
                if r1[0] == 'ret' and r2[0] == 'ret':
                    return ('ret', self.ite(c, r1[1], r2[1]), self.ite(c, r1[2], r2[2]))
                if r1[0] == 'ret':
                    rr = self.block(rest, r2[1])
                    rr = rr if rr[0] == 'ret' else ('ret', ('k', None), rr[1]['$eff'])
                    return ('ret', self.ite(c, r1[1], rr[1]), self.ite(c, r1[2], rr[2]))
                if r2[0] == 'ret':
                    rr = self.block(rest, r1[1])
                    rr = rr if rr[0] == 'ret' else ('ret', ('k', None), rr[1]['$eff'])
                    return ('ret', self.ite(c, rr[1], r2[1]), self.ite(c, rr[2], r2[2]))
                e1, e2 = r1[1], r2[1]
                for k in set(e1) | set(e2):
                    v1 = e1.get(k, ('undef', '<local>'))
                    v2 = e2.get(k, ('undef', '<local>'))
                    env[k] = v1 if v1 == v2 else self.ite(c, v1, v2)
                continue
            if isinstance(st, (ast.For, ast.While)):
                if isinstance(st, ast.While):
                    rot = self._rotate_while_true(st)
                    if rot is not None:
                        # N27: `while True: A; if c: break; B`  is  `A; while not c: B; A`
                        r_pre = self.block(rot[0], env)
                        if r_pre[0] != 'env':
                            raise Unsupported('return in the head of a rotated loop')
                        st = rot[1]
                    st = self._fold_leading_break(st)
                    st = self._counting_while(st, env) or st
                if self._unroll(st, env):
                    continue
                self.loop(st, env)
                continue
            if isinstance(st, ast.Try):
                tr_ = self.try_(st, env)
                if tr_ is not None:
                    return tr_
                continue
            self.simple(st, env)
        return ('env', env)

    def simple(self, st, env):
        if isinstance(st, ast.Assign):
            v = self.expr(st.value, env)
            for t in st.targets:
                self.assign(t, v, env)
            return
        if isinstance(st, ast.AugAssign):
            cur = self.expr(st.target, env)
            v = self.binop(BINOPS[type(st.op)], cur, self.expr(st.value, env))
            self.assign(st.target, v, env)
            return
        if isinstance(st, ast.AnnAssign):
            if st.value is not None:
                self.assign(st.target, self.expr(st.value, env), env)
            return
        if isinstance(st, ast.Expr):
            if isinstance(st.value, ast.Constant):
                return
            if isinstance(st.value, ast.Call) and isinstance(st.value.func, ast.Name) and st.value.func.id in OUTPUT_ONLY \
                    and st.value.func.id not in env:
                return          # N21: console output (print / disp) is not part of the compared behaviour
            cl = st.value
            if isinstance(cl, ast.Call) and isinstance(cl.func, ast.Attribute) and cl.func.attr == 'append' and isinstance(cl.func.value, ast.Name) \
                    and len(cl.args) == 1 and not cl.keywords and cl.func.value.id in env and self.is_list_value(env[cl.func.value.id]):
                # N23: L.append(x) on a local list is the functional update L := L ++ [x]
                cur = env[cl.func.value.id]
                x = self.expr(cl.args[0], env)
                env[cl.func.value.id] = ('list', cur[1] + (x,)) if cur[0] == 'list' else ('snoc', cur, x)
                return
            env['$eff'] = ('eff', env['$eff'], self.expr(st.value, env))
            return
        if isinstance(st, ast.Pass):
            return
        if isinstance(st, ast.FunctionDef) and not st.decorator_list and not st.args.vararg and not st.args.kwarg and not st.args.kwonlyargs:
            # a local helper function: calls to it are evaluated in place (free variables read the caller's current values)
            self.local_fns[st.name] = st
            env[st.name] = ('localfn', st.name)
            return
        if isinstance(st, ast.Import):
            for a in st.names:
                env[(a.asname or a.name).split('.')[0]] = ('mod', a.name if a.asname else a.name.split('.')[0])
            return
        if isinstance(st, ast.ImportFrom):
            for a in st.names:
                env[a.asname or a.name] = ('mod', '%s.%s' % (st.module, a.name))
            return
        raise Unsupported('statement %s at line %d' % (type(st).__name__, st.lineno))

    def assign(self, t, v, env):
        if isinstance(t, ast.Name):
            env[t.id] = v
        elif isinstance(t, (ast.Tuple, ast.List)):
            if isinstance(v, tuple) and v[0] in ('tuple', 'list') and len(v[1]) == len(t.elts):
                for e, x in zip(t.elts, v[1]):
                    self.assign(e, x, env)
            else:
                for k, e in enumerate(t.elts):
                    self.assign(e, ('unpack', v, k), env)
        elif isinstance(t, ast.Subscript):
            base = t.value
            items = self.index_items(t.slice, env)
            # store into a (possibly nested) named container
            cur = self.expr(base, env)
            newv = self.store(cur, items, v)
            self.assign(base, newv, env)
        elif isinstance(t, ast.Attribute):
            cur = self.expr(t.value, env)
            self.assign(t.value, ('setattr', cur, t.attr, v), env)
        else:
            raise Unsupported('assignment target')

    def try_(self, st, env):
        """body, then the handlers as alternative continuations from the state the body reached.  A name the handlers (re)bind
        becomes  try(value after the body, (value after handler 1, ...))  and `return` in the body and in every handler makes the
        whole statement return  try(body value, (handler values)) ; the handlers' effects are kept as an opaque effect term.
        -> None, or ('ret', value, effect) when the statement returns on every way through it."""
        r = self.block(st.body, env)
        if r[0] == 'ret' and (st.orelse or st.finalbody):
            raise Unsupported('return inside try with else / finally')
        base = dict(r[1]) if r[0] == 'env' else dict(env)
        hterms, hrets, henvs = [], [], []
        for h in st.handlers:
            e2 = dict(base)
            if h.name:
                e2[h.name] = ('exc', h.lineno)
            e2['$eff'] = ('eff0',)
            rr = self.block(h.body, e2)
            if rr[0] == 'ret':
                hrets.append(rr[1])
                hterms.append(rr[2])
            else:
                henvs.append(rr[1])
                hterms.append(rr[1]['$eff'])
        if r[0] == 'ret':
            if henvs:
                raise Unsupported('try body returns but a handler falls through')
            eff = ('eff', r[2], ('handlers', tuple(hterms)))
            return ('ret', ('try', r[1], tuple(hrets)) if hrets else r[1], eff)
        if hrets and henvs:
            raise Unsupported('some handlers return, others fall through')
        if hrets:
            raise Unsupported('return inside except while the body falls through')
        if henvs:
            names = set()
            for he in henvs:
                names |= {k_ for k_, v_ in he.items() if k_ != '$eff' and base.get(k_) is not v_ and base.get(k_) != v_}
            for k_ in sorted(names):
                env[k_] = ('try', base.get(k_, ('undef', '<local>')), tuple(he.get(k_, ('undef', '<local>')) for he in henvs))
        if st.orelse:
            rr = self.block(st.orelse, env)
            if rr[0] == 'ret':
                raise Unsupported('return inside try/else')
        env['$eff'] = ('eff', env['$eff'], ('handlers', tuple(hterms)))
        if st.finalbody:
            rr = self.block(st.finalbody, env)
            if rr[0] == 'ret':
                raise Unsupported('return inside finally')
        return None

    UNROLL_MAX = 8

    @staticmethod
    def _rotate_while_true(st):
        if not (isinstance(st.test, ast.Constant) and st.test.value is True and not st.orelse):
            return None
        brk = [k_ for k_, s_ in enumerate(st.body) if isinstance(s_, ast.If) and not s_.orelse and len(s_.body) == 1 and isinstance(s_.body[0], ast.Break)]
        others = [n for s_ in st.body for n in ast.walk(s_) if isinstance(n, (ast.Break, ast.Continue, ast.Return))]
        if len(brk) != 1 or len(others) != 1:
            return None
        k_ = brk[0]
        head, tail = st.body[:k_], st.body[k_ + 1:]
        if not head:
            return None
        import copy as _copy
        cond = st.body[k_].test
        neg = cond.operand if (isinstance(cond, ast.UnaryOp) and isinstance(cond.op, ast.Not)) else ast.UnaryOp(op=ast.Not(), operand=cond)
        new = ast.While(test=_copy.deepcopy(neg), body=[_copy.deepcopy(s_) for s_ in tail] + [_copy.deepcopy(s_) for s_ in head], orelse=[])
        ast.copy_location(new, st)
        ast.fix_missing_locations(new)
        return head, new

    @staticmethod
    def _fold_leading_break(st):
        """N28: `while c: if x: break; B`  is  `while c and not x: B`  (the test x is evaluated exactly when c held; no other break /
        continue in the body)."""
        if st.orelse or len(st.body) < 2:
            return st
        first = st.body[0]
        if not (isinstance(first, ast.If) and not first.orelse and len(first.body) == 1 and isinstance(first.body[0], ast.Break)):
            return st
        if any(isinstance(n, (ast.Break, ast.Continue)) for s_ in st.body[1:] for n in ast.walk(s_)):
            return st
        if isinstance(st.test, ast.Constant):
            return st
        import copy as _copy
        cond = first.test
        neg = cond.operand if (isinstance(cond, ast.UnaryOp) and isinstance(cond.op, ast.Not)) else ast.UnaryOp(op=ast.Not(), operand=cond)
        new = ast.While(test=ast.BoolOp(op=ast.And(), values=[_copy.deepcopy(st.test), _copy.deepcopy(neg)]),
                        body=[_copy.deepcopy(s_) for s_ in st.body[1:]], orelse=[])
        ast.copy_location(new, st)
        ast.fix_missing_locations(new)
        return new

    def _counting_while(self, st, env):
        """N25: `while k < n: body; k += 1` with k a local bound before the loop, not otherwise assigned in the body, no break /
        continue and a bound the body does not re-bind, is `for k in range(<k before>, n): body` (the counter's value after the
        loop is not modelled: it becomes an undefined marker)."""
        t = st.test
        if st.orelse or not (isinstance(t, ast.Compare) and len(t.ops) == 1 and st.body):
            return None
        l, op, r = t.left, t.ops[0], t.comparators[0]
        down = False
        if isinstance(op, (ast.Gt, ast.GtE)) and isinstance(l, ast.Name) and not isinstance(r, ast.Name):
            down = True                       # `while k >= b` / `while k > b` counting down
        elif isinstance(op, (ast.Lt, ast.LtE)) and isinstance(r, ast.Name) and not isinstance(l, ast.Name):
            down, l, r, op = True, r, l, (ast.GtE() if isinstance(op, ast.LtE) else ast.Gt())
        elif isinstance(op, ast.Gt):
            l, r = r, l
        elif not isinstance(op, ast.Lt):
            return None
        if not (isinstance(l, ast.Name) and l.id in env):
            return None
        k = l.id
        last = st.body[-1]
        step_op = ast.Sub if down else ast.Add
        inc = (isinstance(last, ast.AugAssign) and isinstance(last.op, step_op) and isinstance(last.target, ast.Name) and last.target.id == k
               and isinstance(last.value, ast.Constant) and last.value.value == 1) or \
              (isinstance(last, ast.Assign) and len(last.targets) == 1 and isinstance(last.targets[0], ast.Name) and last.targets[0].id == k
               and isinstance(last.value, ast.BinOp) and isinstance(last.value.op, step_op) and isinstance(last.value.left, ast.Name)
               and last.value.left.id == k and isinstance(last.value.right, ast.Constant) and last.value.right.value == 1)
        if not inc:
            return None
        body = st.body[:-1]
        stored = {n.id for s_ in body for n in ast.walk(s_) if isinstance(n, ast.Name) and isinstance(n.ctx, (ast.Store, ast.Del))}
        bound_names = {n.id for n in ast.walk(r) if isinstance(n, ast.Name)}
        if k in stored or (bound_names & stored) or any(isinstance(n, (ast.Break, ast.Continue)) for s_ in body for n in ast.walk(s_)):
            return None
        # the bound is re-evaluated by `while` and evaluated once by `range`: nothing it reads may be mutated in the body
        mutated = set()
        for s_ in body:
            for n in ast.walk(s_):
                if isinstance(n, ast.Call) and isinstance(n.func, ast.Attribute) and isinstance(n.func.value, ast.Name):
                    mutated.add(n.func.value.id)
                if isinstance(n, (ast.Subscript, ast.Attribute)) and isinstance(n.ctx, (ast.Store, ast.Del)):
                    b_ = n
                    while isinstance(b_, (ast.Subscript, ast.Attribute)):
                        b_ = b_.value
                    if isinstance(b_, ast.Name):
                        mutated.add(b_.id)
        if bound_names & mutated:
            return None
        if any(isinstance(n, ast.Call) for n in ast.walk(r)) and not all(isinstance(n.func, ast.Name) and n.func.id == 'len' for n in ast.walk(r) if isinstance(n, ast.Call)):
            return None
        init = env[k]
        start_name = '$while_start_%d' % st.lineno
        env[start_name] = init
        if down:
            # while k >= b -> range(k0, b - 1, -1) ; while k > b -> range(k0, b, -1)
            stop = ast.BinOp(left=r, op=ast.Sub(), right=ast.Constant(value=1)) if isinstance(op, ast.GtE) else r
            rng_args = [ast.Name(id=start_name, ctx=ast.Load()), stop, ast.UnaryOp(op=ast.USub(), operand=ast.Constant(value=1))]
        else:
            rng_args = [ast.Name(id=start_name, ctx=ast.Load()), r]
        new = ast.For(target=ast.Name(id=k, ctx=ast.Store()),
                      iter=ast.Call(func=ast.Name(id='range', ctx=ast.Load()), args=rng_args, keywords=[]),
                      body=body or [ast.Pass()], orelse=[])
        ast.copy_location(new, st)
        ast.fix_missing_locations(new)
        return new

    def _unroll(self, st, env):
        """N17: a `for` over range() with constant bounds and at most UNROLL_MAX iterations is its body repeated with the counter
        bound to each value (element-wise fills of a fixed-size block then normalise like the slice stores they spell out)."""
        if isinstance(st, ast.For) and not st.orelse and isinstance(st.iter, (ast.Tuple, ast.List)) and 1 <= len(st.iter.elts) <= self.UNROLL_MAX \
                and not any(isinstance(n, (ast.Break, ast.Continue, ast.Return)) for n in ast.walk(st)):
            # a loop over a literal tuple of items: its body repeated with the target bound to each item (pairs bind element-wise)
            items = []
            for it_ in st.iter.elts:
                if isinstance(st.target, ast.Name):
                    items.append([(st.target.id, it_)])
                elif isinstance(st.target, (ast.Tuple, ast.List)) and isinstance(it_, (ast.Tuple, ast.List)) and len(it_.elts) == len(st.target.elts) \
                        and all(isinstance(x, ast.Name) for x in st.target.elts):
                    items.append([(x.id, y) for x, y in zip(st.target.elts, it_.elts)])
                else:
                    return False
            snapshot = dict(env)
            try:
                for binds in items:
                    vals_ = [(n_, self.expr(e_, env)) for n_, e_ in binds]
                    for n_, v_ in vals_:
                        env[n_] = v_
                    r = self.block(st.body, env)
                    if r[0] != 'env':
                        raise Unsupported('return inside loop')
                    env = r[1]
            except Unsupported:
                env.clear()
                env.update(snapshot)
                return False
            return True
        if not (isinstance(st, ast.For) and isinstance(st.target, ast.Name) and not st.orelse and isinstance(st.iter, ast.Call)
                and isinstance(st.iter.func, ast.Name) and st.iter.func.id == 'range' and 1 <= len(st.iter.args) <= 3 and not st.iter.keywords):
            return False
        if any(isinstance(n, (ast.Break, ast.Continue, ast.Return)) for n in ast.walk(st)):
            return False
        vals = [self.expr(a, env) for a in st.iter.args]
        if not all(is_num(v) and float(v[1]).is_integer() for v in vals):
            return False
        ints = [int(v[1]) for v in vals]
        rng = range(*ints)
        if len(rng) > self.UNROLL_MAX:
            return False
        snapshot = dict(env)
        try:
            for k in rng:
                env[st.target.id] = num(k)
                r = self.block(st.body, env)
                if r[0] != 'env':
                    raise Unsupported('return inside loop')
                env = r[1]
        except Unsupported:
            env.clear()
            env.update(snapshot)
            return False
        return True

    def _eye_rows(self, st, env):
        """N33: `for row in np.eye(n)` / `for i, row in enumerate(np.eye(n))` visits the unit vectors e_0 .. e_{n-1}: it is
        `for i in range(n): row = [0] * n; row[i] = 1; ...`"""
        if not isinstance(st, ast.For) or st.orelse:
            return None
        it, tgt = st.iter, st.target
        enum = isinstance(it, ast.Call) and isinstance(it.func, ast.Name) and it.func.id == 'enumerate' and len(it.args) == 1 and not it.keywords
        src_ = it.args[0] if enum else it
        if enum and not (isinstance(tgt, (ast.Tuple, ast.List)) and len(tgt.elts) == 2 and all(isinstance(x, ast.Name) for x in tgt.elts)):
            return None
        if not enum and not isinstance(tgt, ast.Name):
            return None
        # only a name bound to, or a direct call of, eye / identity is looked at (evaluating other iterables here would be wasted work)
        if isinstance(src_, ast.Name):
            v = env.get(src_.id)
        elif isinstance(src_, ast.Call) and isinstance(src_.func, ast.Attribute) and src_.func.attr in ('eye', 'identity'):
            try:
                v = self.expr(src_, dict(env))
            except Unsupported:
                return None
        else:
            return None
        if not (isinstance(v, tuple) and v and v[0] == 'call' and v[1] in ('numpy.eye', 'numpy.identity') and len(v[2]) == 1 and not v[3]):
            return None
        nname = '$eye_n_%d' % st.lineno
        env[nname] = v[2][0]
        idx = tgt.elts[0].id if enum else '$eye_i_%d' % st.lineno
        row = tgt.elts[1].id if enum else tgt.id
        L, S = ast.Load(), ast.Store()
        pre = [ast.Assign(targets=[ast.Name(id=row, ctx=S)],
                          value=ast.BinOp(left=ast.List(elts=[ast.Constant(value=0)], ctx=L), op=ast.Mult(), right=ast.Name(id=nname, ctx=L))),
               ast.Assign(targets=[ast.Subscript(value=ast.Name(id=row, ctx=L), slice=ast.Name(id=idx, ctx=L), ctx=S)], value=ast.Constant(value=1))]
        new = ast.For(target=ast.Name(id=idx, ctx=S),
                      iter=ast.Call(func=ast.Name(id='range', ctx=L), args=[ast.Name(id=nname, ctx=L)], keywords=[]),
                      body=pre + list(st.body), orelse=[])
        ast.copy_location(new, st)
        ast.fix_missing_locations(new)
        return new

    @staticmethod
    def _fold_continue(body):
        """N35: inside a loop body `A; if c: continue; B` is `A; if not c: B` (guard clauses of a loop round)"""
        for k_, s_ in enumerate(body):
            if isinstance(s_, ast.If) and not s_.orelse and s_.body and isinstance(s_.body[-1], ast.Continue) \
                    and not any(isinstance(n_, (ast.Continue, ast.Break)) for x_ in s_.body[:-1] for n_ in ast.walk(x_)):
                rest = Normalizer._fold_continue(list(body[k_ + 1:]))
                import copy as _copy
                cond = s_.test
                neg = cond.operand if (isinstance(cond, ast.UnaryOp) and isinstance(cond.op, ast.Not)) else ast.UnaryOp(op=ast.Not(), operand=cond)
                new = ast.If(test=_copy.deepcopy(cond), body=[_copy.deepcopy(x_) for x_ in s_.body[:-1]] or [ast.Pass()],
                             orelse=rest or [ast.Pass()])
                if not s_.body[:-1]:
                    new = ast.If(test=_copy.deepcopy(neg), body=rest or [ast.Pass()], orelse=[])
                ast.copy_location(new, s_)
                ast.fix_missing_locations(new)
                return list(body[:k_]) + [new]
        return list(body)

    def loop(self, st, env):
        eye = self._eye_rows(st, env)
        if eye is not None:
            st = eye
        # N47: `for i, x in enumerate(L)` over a sequence the body does not re-bind is `for i in range(len(L)): x = L[i]`
        if isinstance(st, ast.For) and isinstance(st.target, ast.Tuple) and len(st.target.elts) == 2 and all(isinstance(e_, ast.Name) for e_ in st.target.elts) \
                and isinstance(st.iter, ast.Call) and isinstance(st.iter.func, ast.Name) and st.iter.func.id == 'enumerate' and len(st.iter.args) == 1 \
                and not st.iter.keywords and isinstance(st.iter.args[0], ast.Name) and not st.orelse \
                and not any(isinstance(n_, ast.Name) and n_.id == st.iter.args[0].id and isinstance(n_.ctx, ast.Store) for n_ in ast.walk(st)):
            import copy as _copy
            cnt, item, seq = st.target.elts[0].id, st.target.elts[1].id, st.iter.args[0].id
            new_ = ast.For(target=ast.Name(id=cnt, ctx=ast.Store()),
                           iter=ast.Call(func=ast.Name(id='range', ctx=ast.Load()), args=[ast.Call(func=ast.Name(id='len', ctx=ast.Load()), args=[ast.Name(id=seq, ctx=ast.Load())], keywords=[])], keywords=[]),
                           body=[ast.Assign(targets=[ast.Name(id=item, ctx=ast.Store())], value=ast.Subscript(value=ast.Name(id=seq, ctx=ast.Load()), slice=ast.Name(id=cnt, ctx=ast.Load()), ctx=ast.Load()))]
                           + [_copy.deepcopy(b_) for b_ in st.body], orelse=[])
            ast.copy_location(new_, st)
            ast.fix_missing_locations(new_)
            st = new_
        if any(isinstance(n_, ast.Continue) for n_ in ast.walk(st)):
            folded = self._fold_continue(st.body)
            if not any(isinstance(n_, ast.Continue) for x_ in folded for n_ in ast.walk(x_)):
                import copy as _copy
                st = _copy.copy(st)
                st.body = folded
        self.depth += 1
        self.loop_uid += 1
        d = self.loop_uid
        try:
            assigned = []

            def collect(nodes):
                for n in nodes:
                    for sub in ast.walk(n):
                        if isinstance(sub, (ast.Break, ast.Continue)):
                            raise Unsupported('break/continue in loop at line %d' % sub.lineno)
                        if isinstance(sub, ast.Return):
                            raise Unsupported('return inside loop at line %d' % sub.lineno)
                        tg = []
                        if isinstance(sub, ast.Assign):
                            tg = sub.targets
                        elif isinstance(sub, (ast.AugAssign, ast.AnnAssign)):
                            tg = [sub.target]
                        elif isinstance(sub, ast.For):
                            tg = [sub.target]
                        elif isinstance(sub, ast.Expr) and isinstance(sub.value, ast.Call) and isinstance(sub.value.func, ast.Attribute) \
                                and sub.value.func.attr == 'append' and isinstance(sub.value.func.value, ast.Name):
                            tg = [sub.value.func.value]          # N23: L.append(x) rebinds L functionally
                        elif isinstance(sub, (ast.Import, ast.ImportFrom)):
                            for a in sub.names:
                                nm = (a.asname or a.name).split('.')[0]
                                if nm not in assigned:
                                    assigned.append(nm)
                        for t in tg:
                            for nn in ast.walk(t):
                                if isinstance(nn, ast.Name):
                                    root = nn.id
                                    if root not in assigned:
                                        assigned.append(root)
            collect(st.body)
            if isinstance(st, ast.For):
                if st.orelse:
                    raise Unsupported('for-else')
                tv = [n.id for n in ast.walk(st.target) if isinstance(n, ast.Name)]
                if len(tv) != 1 or not isinstance(st.target, ast.Name):
                    raise Unsupported('loop target')
                header = ('for', self.expr(st.iter, env))
                self.loop_headers[d] = header
                assigned = [a for a in assigned if a != tv[0]]
            else:
                if st.orelse:
                    raise Unsupported('while-else')
                header = None
            carried = list(assigned) + ['$eff']
            inits = {v: env.get(v, ('undef', '<local>')) for v in carried}
            for v in carried:
                self.loop_shapes[(d, carried.index(v))] = self.shape(inits[v]) if v != '$eff' else None
                self.loop_inits[(d, carried.index(v))] = inits[v]
            benv = dict(env)
            for k, v in enumerate(carried):
                benv[v] = ('lv', d, k)
            if isinstance(st, ast.For):
                benv[tv[0]] = ('iv', d)
                h_ = header[1]
                if h_[0] == 'call' and h_[1] == 'range' and len(h_[2]) == 2 and not h_[3]:
                    # N26: loops count from zero - `for i in range(a, b)` is `for j in range(b - a)` with i = j + a
                    a_, b_ = h_[2]
                    trip = self.int_add(b_, -int(a_[1])) if (is_num(a_) and float(a_[1]).is_integer()) else ('bin', '-', b_, a_)
                    header = ('for', ('call', 'range', (trip,), ()))
                    self.loop_headers[d] = header
                    benv[tv[0]] = self.binop('+', ('iv', d), a_)
                elif h_[0] == 'call' and h_[1] == 'range' and len(h_[2]) == 3 and not h_[3] and is_num(h_[2][2], -1) \
                        and self.is_int_term(h_[2][0]) and self.is_int_term(h_[2][1]):
                    # descending: `for i in range(a, b, -1)` is `for j in range(a - b)` with i = a - j
                    a_, b_ = h_[2][0], h_[2][1]
                    header = ('for', ('call', 'range', (self.binop('-', a_, b_),), ()))
                    self.loop_headers[d] = header
                    benv[tv[0]] = self.binop('-', a_, ('iv', d))
            else:
                header = ('while', self.expr(st.test, benv))
            r = self.block(st.body, benv)
            if r[0] == 'ret':
                raise Unsupported('return inside loop')
            bodies = {v: r[1].get(v, ('undef', '<local>')) for v in carried}
            # N34: `for i in range(T): A[:, i] = g(i)` with T the column count of A's initial value overwrites every column of A: of the
            # initial value only shape and dtype survive (a zero buffer and a copy of an input of that shape and dtype give the same result)
            if isinstance(st, ast.For) and header[1][0] == 'call' and header[1][1] == 'range' and len(header[1][2]) == 1 and not header[1][3]:
                T_ = header[1][2][0]
                for k, v in enumerate(carried):
                    b_ = bodies[v]
                    if v != '$eff' and isinstance(b_, tuple) and b_ and b_[0] == 'store' and len(b_) == 4 and b_[1] == ('lv', d, k) \
                            and b_[2] == (('sl', None, None, None), ('iv', d)) and isinstance(inits[v], tuple):
                        try:
                            if self._shape_ext(inits[v], 1) == T_:
                                inits[v] = ('shapeonly', self._shape_ext(inits[v], 0), T_, self._dtype_of(inits[v]))
                                self.loop_inits[(d, k)] = inits[v]
                        except Exception:  # noqa
                            pass
                    # the same with column 0 written before the loop and columns 1 .. T written by it
                    elif v != '$eff' and isinstance(b_, tuple) and b_ and b_[0] == 'store' and len(b_) == 4 and b_[1] == ('lv', d, k) \
                            and len(b_[2]) == 2 and b_[2][0] == ('sl', None, None, None) and b_[2][1] == self.binop('+', ('iv', d), num(1)) \
                            and isinstance(inits[v], tuple) and inits[v] and inits[v][0] == 'store' and len(inits[v]) == 4 \
                            and inits[v][2] == (('sl', None, None, None), num(0)) and isinstance(inits[v][1], tuple):
                        try:
                            base_ = inits[v][1]
                            if self.int_add(self._shape_ext(base_, 1), -1) == T_:
                                inits[v] = ('store', ('shapeonly', self._shape_ext(base_, 0), self._shape_ext(base_, 1), self._dtype_of(base_)),
                                            inits[v][2], inits[v][3])
                                self.loop_inits[(d, k)] = inits[v]
                        except Exception:  # noqa
                            pass
            # N38: a counting while - `v = a; while v > c: B; v = v - 1` (or `<` / `<=` / `>=` with a step of +-1, c loop-invariant, the step the
            # only change of v) - is `for j in range(a - c): B` with v = a - j
            if isinstance(st, ast.While) and isinstance(header, tuple) and header[0] == 'while' and isinstance(header[1], tuple) and header[1] \
                    and header[1][0] == 'cmp' and len(header[1]) == 4:
                _, cop, cl, cr = header[1]
                for k, v in enumerate(carried):
                    if v == '$eff':
                        continue
                    lvk = ('lv', d, k)
                    if cl == lvk and not self._mentions_loop(cr, d):
                        bound, op_ = cr, cop
                    elif cr == lvk and not self._mentions_loop(cl, d):
                        bound, op_ = cl, {'<': '>', '>': '<', '<=': '>=', '>=': '<='}.get(cop)
                    else:
                        continue
                    step = 1 if bodies[v] == self.int_add(lvk, 1) else (-1 if bodies[v] == self.int_add(lvk, -1) else 0)
                    a_ = inits[v]
                    if not step or not isinstance(a_, tuple) or not self.is_int_term(a_) or not self.is_int_term(bound):
                        continue
                    if step == -1 and op_ in ('>', '>='):
                        trip = self.binop('-', a_, bound) if op_ == '>' else self.int_add(self.binop('-', a_, bound), 1)
                        cur = self.binop('-', a_, ('iv', d))
                    elif step == 1 and op_ in ('<', '<='):
                        trip = self.binop('-', bound, a_) if op_ == '<' else self.int_add(self.binop('-', bound, a_), 1)
                        cur = self.binop('+', a_, ('iv', d))
                    else:
                        continue
                    header = ('for', ('call', 'range', (trip,), ()))
                    self.loop_headers[d] = header
                    for v2 in carried:
                        bodies[v2] = self._resubst(bodies[v2], lvk, cur)
                    break
            # N53: `for x in [f(j) for j in range(n)]: B(x)`  is  `for j in range(n): B(f(j))`  (the list is only read, element by element in order)
            if isinstance(st, ast.For) and isinstance(header, tuple) and header[0] == 'for' and isinstance(header[1], tuple) and header[1] \
                    and header[1][0] == 'lam' and len(header[1]) == 4 and not any(_has(bodies[v], ('lam', 'lamseq')) for v in carried):
                _, l_, T_, f_ = header[1]
                elem = self._resubst(f_, ('bv', l_), ('iv', d))
                header = ('for', ('call', 'range', (T_,), ()))
                self.loop_headers[d] = header
                for v2 in carried:
                    bodies[v2] = self._resubst(bodies[v2], ('iv', d), elem)
            # N45: a carried value that every round hands on unchanged WHEN it starts the round at its initial value (a buffer that is set and
            # reset around a call) has its initial value in every round (induction over the rounds): it is that value
            for k, v in enumerate(carried):
                if v == '$eff' or not isinstance(inits[v], tuple) or bodies[v] == ('lv', d, k):
                    continue
                if not self._mentions_loop(bodies[v], d, carried_only=True):
                    continue
                lvk = ('lv', d, k)
                try:
                    at_init = self._resubst(bodies[v], lvk, inits[v])
                except Exception:  # noqa
                    continue
                if at_init == inits[v] and not self._mentions_loop(inits[v], d):
                    for v2 in carried:
                        bodies[v2] = self._resubst(bodies[v2], lvk, inits[v])
                    if isinstance(header, tuple) and header[0] == 'while':
                        header = ('while', self._resubst(header[1], lvk, inits[v]))
            # N36: a placeholder list `[x] * (T + 1)` whose element T is stored before `for i in range(T)` and whose element i is stored by the
            # loop (or `[x] * T` with every element stored by the loop) has every element overwritten: the placeholder item is immaterial
            if isinstance(st, ast.For) and header[1][0] == 'call' and header[1][1] == 'range' and len(header[1][2]) == 1 and not header[1][3]:
                T_ = header[1][2][0]
                for k, v in enumerate(carried):
                    b_ = bodies[v]
                    if v == '$eff' or not (isinstance(b_, tuple) and b_ and b_[0] == 'store' and len(b_) == 4 and b_[1] == ('lv', d, k) and b_[2] == (('iv', d),)):
                        continue
                    i0 = inits[v]
                    if isinstance(i0, tuple) and i0 and i0[0] == 'lam' and len(i0) == 4 and i0[2] == T_ and i0[3] != ('k', None) and not _has(i0[3], ('bv',)):
                        inits[v] = ('lam', i0[1], i0[2], ('k', None))
                        self.loop_inits[(d, k)] = inits[v]
                    elif isinstance(i0, tuple) and i0 and i0[0] == 'store' and len(i0) == 4 and i0[2] == (T_,) and isinstance(i0[1], tuple) and i0[1] \
                            and i0[1][0] == 'lam' and len(i0[1]) == 4 and i0[1][2] == self.int_add(T_, 1) and i0[1][3] != ('k', None) and not _has(i0[1][3], ('bv',)):
                        inits[v] = ('store', ('lam', i0[1][1], i0[1][2], ('k', None)), i0[2], i0[3])
                        self.loop_inits[(d, k)] = inits[v]
            raw = ('rawloop', d, header, tuple((inits[v], bodies[v]) for v in carried))
            for k, v in enumerate(carried):
                env[v] = ('lout', raw, k) if bodies[v] != ('lv', d, k) else inits[v]     # a value the body never changes
            # N23: `L = []; for i in range(n): L.append(g(i))` with g independent of the loop's carried values is  [g(i) for i in range(n)]
            if isinstance(st, ast.For) and header[1][0] == 'call' and header[1][1] == 'range' and len(header[1][2]) == 1 and not header[1][3]:
                for k, v in enumerate(carried):
                    b_ = bodies[v]
                    if inits[v] == ('list', ()) and isinstance(b_, tuple) and b_[0] == 'snoc' and b_[1] == ('lv', d, k) \
                            and not self._mentions_loop(b_[2], d, carried_only=True):
                        lvl = self.lam_level
                        env[v] = ('lam', lvl, header[1][2][0], self._rename_iv(b_[2], d, ('bv', lvl)))
                    # a list of n placeholders whose every element i is replaced in iteration i: the same comprehension
                    elif isinstance(inits[v], tuple) and inits[v][0] == 'lam' and inits[v][2] == header[1][2][0] and isinstance(b_, tuple) \
                            and b_[0] == 'store' and b_[1] == ('lv', d, k) and b_[2] == (('iv', d),) \
                            and not self._mentions_loop(b_[3], d, carried_only=True):
                        lvl = self.lam_level
                        env[v] = ('lam', lvl, header[1][2][0], self._rename_iv(b_[3], d, ('bv', lvl)))
            if isinstance(st, ast.For):
                # the loop variable keeps its last value; not used afterwards in the library (conservative marker)
                env[tv[0]] = ('lastiv', raw)
        finally:
            self.depth -= 1

    def _shape_ext(self, t, axis):
        if t[0] == 'call' and t[1] in ('numpy.zeros', 'numpy.empty', 'numpy.ones') and t[2]:
            S = t[2][0]
            if S[0] == 'tuple':
                return S[1][axis]
            return self.index(S, (num(axis),))
        if t[0] == 'call' and t[1] in ('numpy.zeros_like', 'numpy.empty_like') and t[2]:
            return self.index(('attr', t[2][0], 'shape'), (num(axis),))
        return self.index(('attr', t, 'shape'), (num(axis),))

    def _dtype_of(self, t):
        """element type of a buffer; array inputs are float64 (the assumption N2 already makes when it drops .astype(float)), so
        `<array>.dtype` and the default of the constructors are the same type"""
        F64 = ('mod', 'numpy.float64')
        if t[0] == 'call' and t[1] in ('numpy.zeros', 'numpy.empty', 'numpy.ones', 'numpy.zeros_like', 'numpy.empty_like'):
            dt = dict(t[3]).get('dtype', F64)
            if dt in (F64, ('g', 'float'), ('mod', 'numpy.double')) or (isinstance(dt, tuple) and dt and dt[0] == 'attr' and dt[2] == 'dtype'):
                return F64
            return dt
        return F64

    def _mentions_loop(self, t, d, carried_only=False, memo=None):
        if not isinstance(t, tuple) or not t:
            return False
        memo = {} if memo is None else memo
        k_ = id(t)
        if k_ in memo:
            return memo[k_]
        if t[0] == 'lv' and len(t) == 3 and t[1] == d:
            r = True
        elif t[0] == 'iv' and len(t) == 2 and t[1] == d:
            r = not carried_only
        else:
            r = any(self._mentions_loop(x, d, carried_only, memo) for x in t)
        memo[k_] = r
        return r

    def _rename_iv(self, t, d, new, memo=None):
        if not isinstance(t, tuple) or not t:
            return t
        memo = {} if memo is None else memo
        k_ = id(t)
        if k_ in memo:
            return memo[k_][1]
        if t == ('iv', d):
            r = new
        else:
            r = tuple(self._rename_iv(x, d, new, memo) for x in t)
            if r == t:
                r = t
        memo[k_] = (t, r)
        return r

    # ------------------------------------------------------------------ expressions
    def expr(self, e, env):
        if isinstance(e, ast.Constant):
            if isinstance(e.value, bool) or e.value is None or isinstance(e.value, str):
                return ('k', e.value)
            if isinstance(e.value, (int, float)):
                return num(e.value)
            return ('k', repr(e.value))
        if isinstance(e, ast.Name):
            if e.id in env:
                return env[e.id]
            if e.id in NP_ALIASES:
                return ('mod', 'numpy')
            if e.id in self.module_funcs:
                return ('g', e.id)
            if e.id in ('float', 'int', 'len', 'range', 'abs', 'min', 'max', 'print', 'str', 'round', 'sum', 'list',
                        'tuple', 'bool', 'isinstance', 'enumerate', 'zip', 'reversed'):
                return ('g', e.id)
            if e.id in self.global_names:
                return ('g', e.id)
            return ('undef', e.id)          # unresolved name: a definite NameError if evaluated
        if isinstance(e, ast.Attribute):
            b = self.expr(e.value, env)
            if b[0] == 'mod':
                return ('mod', b[1] + '.' + e.attr)
            if e.attr == 'T':
                return self.transpose(b)
            # reading back an attribute this body stored: attr(setattr(x, f, v), f) == v
            cur = b
            while isinstance(cur, tuple) and cur and cur[0] == 'setattr':
                if cur[2] == e.attr:
                    return cur[3]
                cur = cur[1]
            return ('attr', cur, e.attr)
        if isinstance(e, ast.UnaryOp):
            v = self.expr(e.operand, env)
            if isinstance(e.op, ast.USub):
                return self.neg(v)
            if isinstance(e.op, ast.UAdd):
                return v
            if isinstance(e.op, ast.Not):
                return self.not_(v)
            return ('un', type(e.op).__name__, v)
        if isinstance(e, ast.BinOp) and isinstance(e.op, ast.Mult) and isinstance(e.left, ast.List) and len(e.left.elts) == 1 \
                and not isinstance(e.right, (ast.List, ast.Tuple)):
            # N18: a one-item list literal repeated n times is the array  j -> item  of length n
            item, n = self.expr(e.left.elts[0], env), self.expr(e.right, env)
            if not is_num(n) and not _has(item, ('bv',)):
                return ('lam', self.lam_level, n, item)
        if isinstance(e, ast.BinOp):
            return self.binop(BINOPS[type(e.op)], self.expr(e.left, env), self.expr(e.right, env))
        if isinstance(e, ast.BoolOp):
            return self.boolop('and' if isinstance(e.op, ast.And) else 'or', tuple(self.expr(v, env) for v in e.values))
        if isinstance(e, ast.Compare):
            l = self.expr(e.left, env)
            parts = []
            for op, c in zip(e.ops, e.comparators):
                r = self.expr(c, env)
                parts.append(self.none_test(canon_cmp(CMPOPS[type(op)], l, r)))
                l = r
            return parts[0] if len(parts) == 1 else self.boolop('and', tuple(parts))
        if isinstance(e, ast.Tuple):
            return ('tuple', tuple(self.expr(x, env) for x in e.elts))
        if isinstance(e, ast.List):
            return self.mk_list(tuple(self.expr(x, env) for x in e.elts))
        if isinstance(e, ast.Subscript):
            b = self.expr(e.value, env)
            if b == ('mod', 'numpy.r_') or b == ('mod', 'numpy.c_'):
                items = e.slice.elts if isinstance(e.slice, ast.Tuple) else [e.slice]
                ops = tuple(self.expr(x, env) for x in items)
                return self.concat('r' if b[1].endswith('r_') else 'c', ops)
            return self.index(b, self.index_items(e.slice, env))
        if isinstance(e, ast.Call):
            return self.call(e, env)
        if isinstance(e, ast.IfExp):
            return self.ite(self.expr(e.test, env), self.expr(e.body, env), self.expr(e.orelse, env))
        if isinstance(e, ast.Lambda):
            return ('lambda', ast.dump(e))
        if isinstance(e, ast.JoinedStr):
            return ('k', ast.dump(e))
        if isinstance(e, (ast.ListComp, ast.GeneratorExp)) and len(e.generators) == 1 and not e.generators[0].is_async \
                and isinstance(e.generators[0].target, ast.Name) and not e.generators[0].ifs:
            # N17 for comprehensions: a constant, short iteration space is spelled out element by element
            g = e.generators[0]
            seq = self.expr(g.iter, env)
            if seq[0] == 'call' and seq[1] == 'range' and not seq[3] and all(is_num(a_) and float(a_[1]).is_integer() for a_ in seq[2]) \
                    and len(range(*[int(a_[1]) for a_ in seq[2]])) <= self.UNROLL_MAX:
                items = []
                for k_ in range(*[int(a_[1]) for a_ in seq[2]]):
                    env2 = dict(env)
                    env2[g.target.id] = num(k_)
                    items.append(self.expr(e.elt, env2))
                    env['$eff'] = env2['$eff']
                return self.mk_list(tuple(items)) if isinstance(e, ast.ListComp) else ('tuple', tuple(items))
        if isinstance(e, ast.ListComp) and len(e.generators) == 1 and not e.generators[0].is_async \
                and isinstance(e.generators[0].target, ast.Name):
            # N18: [f(j) for j in range(n)] is the array  j -> f(j)  of length n ; over any other sequence a map of it
            g = e.generators[0]
            seq = self.expr(g.iter, env)
            lvl = self.lam_level
            env2 = dict(env)
            env2[g.target.id] = ('bv', lvl)
            self.lam_level += 1
            try:
                conds = tuple(self.expr(c, env2) for c in g.ifs)
                body = self.expr(e.elt, env2)
            finally:
                self.lam_level -= 1
            if not conds and seq[0] == 'call' and seq[1] == 'range' and len(seq[2]) == 1 and not seq[3]:
                return ('lam', lvl, seq[2][0], body)
            if not conds:
                fused = self._map_over(seq, lvl, body)
                if fused is not None:
                    return fused
            return ('lamseq', lvl, seq, body, conds)
        if isinstance(e, (ast.ListComp, ast.GeneratorExp, ast.Dict, ast.Set, ast.DictComp, ast.SetComp)):
            raise Unsupported('comprehension/dict expression at line %d' % e.lineno)
        raise Unsupported('expression %s' % type(e).__name__)

    def _map_over(self, seq, lvl, body):
        """N50: [g(x) for x in L] with L the comprehension list [f(j) for j in range(n)] is [g(f(j)) for j in range(n)]; over a conditional
        between two such lists, the conditional between the two maps.  None when L is not of that kind."""
        if isinstance(seq, tuple) and seq and seq[0] == 'lam' and len(seq) == 4 and (seq[1] == lvl or not _has(seq[3], ('lam', 'lamseq'))):
            f = seq[3] if seq[1] == lvl else self._resubst(seq[3], ('bv', seq[1]), ('bv', lvl))
            if _has(body, ('lam', 'lamseq')) and _has(f, ('bv',)):
                return None                                  # an inner comprehension of the body could capture the variable of f
            return ('lam', lvl, seq[2], self._resubst(body, ('bv', lvl), f))
        if isinstance(seq, tuple) and seq and seq[0] == 'ite' and len(seq) == 4:
            a_, b_ = self._map_over(seq[2], lvl, body), self._map_over(seq[3], lvl, body)
            if a_ is not None and b_ is not None:
                return self.ite(seq[1], a_, b_)
        return None

    def index_items(self, sl, env):
        items = sl.elts if isinstance(sl, ast.Tuple) else [sl]
        out = []
        for it in items:
            if isinstance(it, ast.Slice):
                out.append(('sl', self.expr(it.lower, env) if it.lower else None,
                            self.expr(it.upper, env) if it.upper else None,
                            self.expr(it.step, env) if it.step else None))
            else:
                out.append(self.expr(it, env))
        return tuple(out)

    # ------------------------------------------------------------------ smart constructors
    def ite(self, c, a, b):
        if a == b:
            return a
        if c == ('k', True):
            return a
        if c == ('k', False) or c == ('k', None):
            return b
        if c[0] == 'not':
            return self.ite(c[1], b, a)
        # one polarity per test: `x != y` / `x is not y` / `x not in y` (and the complements of integer comparisons) select the other arm
        if c[0] == 'cmp' and len(c) == 4 and (c[1] in ('!=', 'is not', 'not in')
                                               or (c[1] in ('>=', '<=') and self._counterish(c[2]) and self._counterish(c[3]))):
            flip = {'!=': '==', 'is not': 'is', 'not in': 'in', '>=': '<', '<=': '>'}[c[1]]
            return self.ite(canon_cmp(flip, c[2], c[3]) if flip in _CMP_FLIP or flip == '==' else ('cmp', flip, c[2], c[3]), b, a)
        # N22: inside the branch where c holds, a nested conditional on the same c is its first arm (and vice versa)
        a, b = self.assume(a, c, True), self.assume(b, c, False)
        if a == b:
            return a
        if a == ('k', True) and b == ('k', False) and c[0] in ('cmp', 'and', 'or', 'not'):
            return c
        # N51: the truth value of a comprehension list of length n is `n >= 1`
        if c[0] == 'lam' and len(c) == 4:
            return self.ite(canon_cmp('<', c[2], num(1)), b, a)
        # N46 for an explicit empty list: `[] if n < 1 else [g(j) for j in range(n)]` is the comprehension list (it is empty when the test holds)
        for x_, y_, holds in ((a, b, True), (b, a, False)):
            if x_ == ('list', ()) and isinstance(y_, tuple) and y_ and y_[0] == 'lam' and len(y_) == 4 and c[0] == 'cmp' and len(c) == 4 and holds \
                    and c in (canon_cmp('<', y_[2], num(1)), canon_cmp('<=', y_[2], num(0)), canon_cmp('>', num(1), y_[2]), canon_cmp('>=', num(0), y_[2])):
                return y_
        # N46: two lists of the same length n selected by `n < 1` (or `n <= 0`): both are empty when the test holds, so the other arm is the value
        if isinstance(a, tuple) and isinstance(b, tuple) and a and b and a[0] == 'lam' and b[0] == 'lam' and len(a) == 4 and len(b) == 4 and a[2] == b[2] \
                and c[0] == 'cmp' and len(c) == 4 and (c in (canon_cmp('<', a[2], num(1)), canon_cmp('<=', a[2], num(0)), canon_cmp('>', num(1), a[2]), canon_cmp('>=', num(0), a[2]))):
            return ('lam', b[1], b[2], b[3])
        # N52: a conditional between two comprehension lists of one length is the comprehension list of the conditionals
        if isinstance(a, tuple) and isinstance(b, tuple) and a and b and a[0] == 'lam' and b[0] == 'lam' and len(a) == 4 and len(b) == 4 and a[2] == b[2] \
                and not _has(c, ('bv',)) and (a[1] == b[1] or not _has(b[3], ('lam', 'lamseq'))):
            gb = b[3] if a[1] == b[1] else self._resubst(b[3], ('bv', b[1]), ('bv', a[1]))
            return ('lam', a[1], a[2], self.ite(c, a[3], gb))
        # N43: a conditional between two tuples of the same length is the tuple of the conditionals (`if c: return (a, b)` / `return (a', b')`)
        if isinstance(a, tuple) and isinstance(b, tuple) and a and b and a[0] == 'tuple' and b[0] == 'tuple' and len(a) == 2 and len(b) == 2 \
                and len(a[1]) == len(b[1]) and 0 < len(a[1]) <= 6:
            return ('tuple', tuple(self.ite(c, x_, y_) for x_, y_ in zip(a[1], b[1])))
        # N44: a conditional between two applications of one binary operator that share an operand keeps the operand outside:
        #      x / a if c else x / b  is  x / (a if c else b)
        if isinstance(a, tuple) and isinstance(b, tuple) and a and b and a[0] == 'bin' and b[0] == 'bin' and len(a) == 4 and len(b) == 4 and a[1] == b[1]:
            if a[2] == b[2]:
                return self.binop(a[1], a[2], self.ite(c, a[3], b[3]))
            if a[3] == b[3]:
                return self.binop(a[1], self.ite(c, a[2], b[2]), a[3])
        # N40: a conditional element store is an unconditional store of a conditional value:
        #      `if c: A[i] = v`  is  `A[i] = v if c else A[i]`   (scalar index, no slices: the element keeps its value otherwise)
        if isinstance(a, tuple) and isinstance(b, tuple) and a and b and a[0] == 'store' and b[0] == 'store' and len(a) == 4 and len(b) == 4 \
                and a[1] == b[1] and a[2] == b[2] and not any(isinstance(it, tuple) and it and it[0] == 'sl' for it in a[2]):
            return self.store(a[1], a[2], self.ite(c, a[3], b[3]))
        for x_, y_, sw in ((a, b, False), (b, a, True)):
            if isinstance(x_, tuple) and x_ and x_[0] == 'store' and len(x_) == 4 and x_[1] == y_ \
                    and not any(isinstance(it, tuple) and it and it[0] == 'sl' for it in x_[2]):
                old_ = self.index(y_, x_[2])
                return self.store(y_, x_[2], self.ite(c, old_, x_[3]) if sw else self.ite(c, x_[3], old_))
        # N31: conditionals between truth values are connectives - `if c: return True; return x` is `c or x`
        BOOLISH = ('cmp', 'and', 'or', 'not')
        if c[0] in BOOLISH:
            if a == ('k', True) and b[0] in BOOLISH:
                return self.boolop('or', (c, b))
            if b == ('k', False) and a[0] in BOOLISH:
                return self.boolop('and', (c, a))
            if a == ('k', False) and b[0] in BOOLISH:
                return self.boolop('and', (self.not_(c), b))
            if b == ('k', True) and a[0] in BOOLISH:
                return self.boolop('or', (self.not_(c), a))
        return ('ite', c, a, b)

    def assume(self, t, c, truth):
        """t with every conditional on exactly the condition c replaced by the arm selected by `truth` (bounded size)"""
        if not _has(t, ('ite',)) or term_size(t, 3000) >= 3000:
            return t
        memo = {}

        def go(x):
            if not isinstance(x, tuple) or not x:
                return x
            k_ = id(x)
            if k_ in memo:
                return memo[k_][1]
            if x[0] == 'ite' and len(x) == 4 and x[1] == c:
                r = go(x[2] if truth else x[3])
            elif x[0] in ('rawloop', 'loop'):
                r = x
            else:
                r = tuple(go(y) for y in x)
                if r == x:
                    r = x
            memo[k_] = (x, r)
            return r
        r = go(t)
        return r if r is t else self.refold(r)

    def neg(self, v):
        if is_num(v):
            return num(-v[1])
        if v[0] == 'neg':
            return v[1]
        return ('neg', v)

    def transpose(self, v):
        if v[0] == 'T':
            return v[1]
        sh = self.shape(v)
        if sh is not None and len(sh) <= 1:
            return v
        return ('T', v)

    def _lin(self, t):
        """integer-valued term -> ({atom: coefficient}, constant) or None"""
        if is_num(t):
            return ({}, t[1])
        if t[0] == 'bin' and t[1] in ('+', '-'):
            x, y = self._lin(t[2]), self._lin(t[3])
            if x is None or y is None:
                return None
            sg = 1 if t[1] == '+' else -1
            d = dict(x[0])
            for k_, c_ in y[0].items():
                d[k_] = d.get(k_, 0) + sg * c_
            return ({k_: c_ for k_, c_ in d.items() if c_ != 0}, x[1] + sg * y[1])
        if t[0] == 'bin' and t[1] == '*' and (is_num(t[2]) or is_num(t[3])):
            c_, x = (t[2][1], self._lin(t[3])) if is_num(t[2]) else (t[3][1], self._lin(t[2]))
            if x is None:
                return None
            return ({k_: v_ * c_ for k_, v_ in x[0].items() if v_ * c_ != 0}, x[1] * c_)
        if t[0] == 'neg':
            x = self._lin(t[1])
            return None if x is None else ({k_: -v_ for k_, v_ in x[0].items()}, -x[1])
        return ({t: 1}, 0)

    def _unlin(self, lin):
        d, c = lin
        items = sorted(d.items(), key=lambda kv: repr(kv[0]))
        pos = [(a_, k_) for a_, k_ in items if k_ > 0]
        neg = [(a_, -k_) for a_, k_ in items if k_ < 0]

        def mono(a_, k_):
            return a_ if k_ == 1 else ('bin', '*', num(k_), a_)
        out = None
        for a_, k_ in pos:
            out = mono(a_, k_) if out is None else ('bin', '+', out, mono(a_, k_))
        if out is None:
            out = num(c)
            c = 0
        for a_, k_ in neg:
            out = ('bin', '-', out, mono(a_, k_))
        if c > 0:
            out = ('bin', '+', out, num(c))
        elif c < 0:
            out = ('bin', '-', out, num(-c))
        return out

    def is_int_term(self, t):
        if not isinstance(t, tuple) or not t:
            return False
        if t[0] in ('iv', 'bv'):
            return True
        if t[0] == 'idx' and len(t) == 3 and isinstance(t[1], tuple) and t[1][0] == 'attr' and t[1][2] == 'shape' and len(t[2]) == 1 and is_num(t[2][0]):
            return True
        if t[0] == 'neg':
            return self.is_int_term(t[1])
        if t[0] == 'lv' and len(t) == 3:
            init = self.loop_inits.get((t[1], t[2]))        # a loop-carried value that starts as an integer: a counter
            return init is not None and init is not t and init[0] != 'lv' and self.is_int_term(init)
        if t[0] == 'num':
            return float(t[1]).is_integer()
        if t[0] == 'call' and t[1] in ('len', 'int'):
            return True
        if t[0] == 'bin' and t[1] in ('+', '-', '*'):
            return self.is_int_term(t[2]) and self.is_int_term(t[3])
        return False

    @staticmethod
    def _one_cell(t):
        return isinstance(t, tuple) and t and t[0] == 'block' and t[1] in ((1,), (1, 1)) and len(t[2]) == 1

    def binop(self, op, a, b):
        if op == '@':
            return self.dot(a, b)
        # integer counters: sums / differences of integer-valued terms (loop counters, len(), constants) have one canonical form, so
        # (j + 1) - 1 is j and (n - 1) - j - 1 is (n - 2) - j  (exact: these are integers)
        if op in ('+', '-') and self.is_int_term(a) and self.is_int_term(b) and not (is_num(a) and is_num(b)):
            lin = self._lin(('bin', op, a, b))
            if lin is not None:
                return self._unlin(lin)
        # N24: element-wise arithmetic of a scalar with a one-element array is that arithmetic on the element
        if op in ('+', '-', '*', '/') and self._one_cell(a) != self._one_cell(b):
            blk, other, left = (a, b, True) if self._one_cell(a) else (b, a, False)
            cell = blk[2][0]
            v = self.binop(op, cell[4], other) if left else self.binop(op, other, cell[4])
            if self.shape(other) == ():
                return ('block', blk[1], ((cell[0], cell[1], cell[2], cell[3], v),))
            return v            # broadcast against an array (or a value of unknown rank): the element stands for the one-element array
        if is_num(a) and is_num(b):
            try:
                x, y = a[1], b[1]
                r = {'+': x + y, '-': x - y, '*': x * y, '/': x / y if y != 0 else None, '**': x ** y if abs(y) < 64 else None}.get(op)
                if r is not None and op != '/' or (op == '/' and r is not None):
                    return num(r)
            except (OverflowError, ZeroDivisionError, ValueError):
                pass
        if op == '*':
            if is_num(a, -1):
                return self.neg(b)          # N6
            if is_num(b, -1):
                return self.neg(a)
            if is_num(a, 1):
                return b if False else ('bin', op, a, b)   # 1.0 * x kept: it fixes the float type in the reference too
        return ('bin', op, a, b)

    def dot(self, a, b):
        sa, sb = self.shape(a), self.shape(b)
        if sa == () or sb == ():
            return self.binop('*', a, b)       # N5
        return ('dot', a, b)

    def mk_list(self, items):
        """list literal: scalar items -> 1-D block; nested 1-D blocks of equal length -> 2-D block."""
        if not items:
            return ('list', ())
        shs = [self.shape(x) for x in items]
        if all(s == () for s in shs):
            return self.block1d([(x, 1) for x in items])
        if all(isinstance(x, tuple) and x[0] == 'block' and len(x[1]) == 1 for x in items) and len({x[1] for x in items}) == 1:
            n = items[0][1][0]
            cells = []
            for r, x in enumerate(items):
                for (r0, r1, c0, c1, t) in x[2]:
                    cells.append((r, r + 1, r0, r1, t))
            return self.mk_block((len(items), n), cells)
        if all(s is not None and len(s) == 1 and isinstance(s[0], int) for s in shs) and len({s for s in shs}) == 1:
            # list of 1-D vectors -> rows
            n = shs[0][0]
            cells = [(r, r + 1, 0, n, x) for r, x in enumerate(items)]
            return self.mk_block((len(items), n), cells)
        return ('list', items)

    def block1d(self, parts):
        """parts: [(term, length)] concatenated into a 1-D block."""
        cells = []
        off = 0
        for t, n in parts:
            cells.append((off, off + n, 0, 1, t))
            off += n
        return self.mk_block((off,), cells)

    def mk_block(self, shape, cells):
        """cells: (r0, r1, c0, c1, term); for 1-D blocks c0:c1 == 0:1.  Flattens nested blocks, scalarises
        constant arrays and pure selections, sorts."""
        out = []
        one_d = len(shape) == 1
        for (r0, r1, c0, c1, t) in cells:
            out.extend(self.explode(r0, r1, c0, c1, t, one_d))
        out.sort(key=lambda c: (c[0], c[2], c[1], c[3]))
        # N13: a 1-D block that is exactly consecutive elements base[k..k+n-1] stays a block (canonical form is scalarised)
        return ('block', tuple(shape), tuple(out))

    def explode(self, r0, r1, c0, c1, t, one_d):
        h, w = r1 - r0, c1 - c0
        if h == 1 and w == 1:
            if isinstance(t, tuple) and t[0] == 'block' and len(t[2]) == 1:
                return [(r0, r1, c0, c1, t[2][0][4])]
            return [(r0, r1, c0, c1, t)]
        # nested block
        if isinstance(t, tuple) and t[0] == 'block':
            res = []
            if len(t[1]) == 1:
                # 1-D block placed as a row (h == 1) or a column (w == 1)
                for (a0, a1, _b0, _b1, x) in t[2]:
                    if w == 1:
                        res.extend(self.explode(r0 + a0, r0 + a1, c0, c1, x, one_d))
                    else:
                        res.extend(self.explode(r0, r1, c0 + a0, c0 + a1, x, one_d))
                return res
            for (a0, a1, b0, b1, x) in t[2]:
                res.extend(self.explode(r0 + a0, r0 + a1, c0 + b0, c0 + b1, x, one_d))
            return res
        # constant arrays
        cst = self.const_array(t)
        if cst is not None:
            kind, val = cst
            res = []
            for i in range(h):
                for j in range(w):
                    if kind == 'eye':
                        v = 1.0 if i == j else 0.0
                    else:
                        v = val
                    res.append((r0 + i, r0 + i + 1, c0 + j, c0 + j + 1, num(v)))
            return res
        # pure selection of a 1-D run of elements
        sel = self.expand_selection(t)
        if sel is not None and len(sel) == max(h, w) and min(h, w) == 1:
            res = []
            for k, x in enumerate(sel):
                if w == 1:
                    res.append((r0 + k, r0 + k + 1, c0, c1, x))
                else:
                    res.append((r0, r1, c0 + k, c0 + k + 1, x))
            return res
        return [(r0, r1, c0, c1, t)]

    def const_array(self, t):
        if isinstance(t, tuple) and t[0] == 'call' and t[1] in ('numpy.zeros', 'numpy.ones', 'numpy.eye', 'numpy.identity'):
            if t[1] in ('numpy.eye', 'numpy.identity'):
                return ('eye', None)
            return ('fill', 0.0 if t[1] == 'numpy.zeros' else 1.0)
        return None

    def expand_selection(self, t):
        """t = ('idx', base, items) selecting a 1-D run with constant bounds (length <= 6) -> list of scalar idx terms."""
        if not (isinstance(t, tuple) and t[0] == 'idx'):
            return None
        base, items = t[1], t[2]
        bsh = self.shape(base)
        sl_pos = [k for k, it in enumerate(items) if isinstance(it, tuple) and it[0] == 'sl']
        if len(sl_pos) != 1:
            return None
        if bsh is not None and len(bsh) != len(items):
            return None
        k = sl_pos[0]
        sl = items[k]
        if sl[3] is not None:
            return None
        ext = bsh[k] if bsh is not None else None
        lo = 0 if sl[1] is None else (int(sl[1][1]) if is_num(sl[1]) else None)
        if lo is None:
            return None
        if sl[2] is None:
            hi = ext if isinstance(ext, int) else None
        else:
            hi = int(sl[2][1]) if is_num(sl[2]) else None
        if hi is None or not (0 < hi - lo <= 6):
            return None
        if any(not is_num(it) for j, it in enumerate(items) if j != k):
            # other positions must be scalar indices (possibly symbolic) - fine as long as they are not slices
            if any(isinstance(it, tuple) and it[0] == 'sl' for j, it in enumerate(items) if j != k):
                return None
        return [('idx', base, items[:k] + (num(v),) + items[k + 1:]) for v in range(lo, hi)]

    def is_list_value(self, t):
        """the term is known to be a Python list built in this function (literal, comprehension, appended-to, or loop-carried such)"""
        if not isinstance(t, tuple) or not t:
            return False
        if t[0] in ('list', 'lam', 'lamseq', 'snoc'):
            return True
        if t[0] == 'lv':
            init = self.loop_inits.get((t[1], t[2]))
            return init is not None and init is not t and self.is_list_value(init)
        if t[0] == 'lout':
            return self.is_list_value(t[1][3][t[2]][0])
        return False

    def _list_root(self, t):
        """the container a chain of stores started from is a Python list (items are kept as the very objects stored)"""
        while isinstance(t, tuple) and t and t[0] in ('store', 'lv', 'lout'):
            if t[0] == 'store':
                t = t[1]
            elif t[0] == 'lout':
                t = t[1][3][t[2]][0]
            else:
                t = self.loop_inits.get((t[1], t[2]))
        if isinstance(t, tuple) and t and t[0] in ('list', 'lam', 'snoc'):
            return True
        return isinstance(t, tuple) and t and t[0] == 'bin' and t[1] == '*' and isinstance(t[2], tuple) and t[2][0] == 'list'

    def _elem_shapes(self, t, depth=0):
        """shapes of the values a list-building chain stores as elements (placeholders `[[None]] * n` are never read)"""
        if not isinstance(t, tuple) or not t or depth > 12:
            return {None}
        if t[0] == 'store' and len(t[2]) == 1 and not (isinstance(t[2][0], tuple) and t[2][0][0] == 'sl'):
            return {self.shape(t[3])} | self._elem_shapes(t[1], depth + 1)
        if t[0] == 'snoc':
            return {self.shape(t[2])} | self._elem_shapes(t[1], depth + 1)
        if t[0] == 'lout':
            init, body = t[1][3][t[2]]
            return self._elem_shapes(init, depth + 1) | self._elem_shapes(body, depth + 1)
        if t[0] == 'lv':
            return set()                      # the loop's own earlier elements: covered by the init and the body of the loop
        if t[0] == 'lam':
            item = t[3]
            if item == ('k', None) or item == ('list', (('k', None),)):
                return set()
            return {self.shape(item)}
        if t[0] == 'bin' and t[1] == '*' and isinstance(t[2], tuple) and t[2][0] == 'list':
            return set()
        if t[0] == 'list':
            return {self.shape(x) for x in t[1]}
        return {None}

    NOT_NONE_HEADS = ('block', 'num', 'list', 'lam', 'tuple', 'bin', 'dot', 'T', 'neg', 'snoc')

    def none_test(self, t):
        """N22: `x is None` / `x is not None` / `x == None` / `x != None` decided for definite values, distributed over conditionals"""
        op, l, r = t[1], t[2], t[3]
        if op not in ('is', 'is not', '==', '!=') or (('k', None) not in (l, r)):
            return t
        x = r if l == ('k', None) else l
        pos = op in ('is', '==')
        if x == ('k', None):
            return ('k', pos)
        if isinstance(x, tuple) and x and (x[0] in self.NOT_NONE_HEADS or (x[0] == 'call' and isinstance(x[1], str) and (x[1].startswith('numpy.') or x[1] == 'tm'))):
            return ('k', not pos)
        if isinstance(x, tuple) and x and x[0] == 'ite':
            return self.ite(x[1], self.none_test(canon_cmp(op, x[2], ('k', None))), self.none_test(canon_cmp(op, x[3], ('k', None))))
        return t

    def _resubst(self, t, what, by, memo=None):
        """`t` with every occurrence of the term `what` replaced by `by`, arithmetic and indexing on the way up re-normalised"""
        memo = {} if memo is None else memo
        if not isinstance(t, tuple) or not t:
            return t
        if t == what:
            return by
        k_ = id(t)
        if k_ in memo:
            return memo[k_][1]
        if t[0] == 'bin' and len(t) == 4:
            a, b = self._resubst(t[2], what, by, memo), self._resubst(t[3], what, by, memo)
            r = t if (a is t[2] and b is t[3]) else self.binop(t[1], a, b)
        elif t[0] == 'idx' and len(t) == 3:
            bs = self._resubst(t[1], what, by, memo)
            its = tuple(self._resubst(it, what, by, memo) for it in t[2])
            r = t if (bs is t[1] and all(x is y for x, y in zip(its, t[2]))) else self.index(bs, its)
        elif t[0] == 'store' and len(t) == 4:
            bs = self._resubst(t[1], what, by, memo)
            its = tuple(self._resubst(it, what, by, memo) for it in t[2])
            vv = self._resubst(t[3], what, by, memo)
            r = t if (bs is t[1] and vv is t[3] and all(x is y for x, y in zip(its, t[2]))) else self.store(bs, its, vv)
        else:
            parts = tuple(self._resubst(y, what, by, memo) for y in t)
            r = t if all(x is y for x, y in zip(parts, t)) else parts
        memo[k_] = (t, r)
        return r

    def _forward_write_once(self, b, e):
        """N37: `L[e]` where L is the list a finished loop `for i in range(T)` filled by the single store `L[i + c] = g` (one element per round,
        never touched again): for e - c provably in [0, T) the element is g of round e - c.  g may read, besides loop-invariant values, the
        value X that the same round stores into a column / element `A[.., i + c']` of a carried array written once per round: that is the
        finished array's `A[.., e - c + c']`.  Anything else carried by the loop in g: no rewrite."""
        raw, k = b[1], b[2]
        _, d, header, vars_ = raw
        if header[0] != 'for' or header[1][0] != 'call' or header[1][1] != 'range' or len(header[1][2]) != 1 or header[1][3]:
            return None
        T = header[1][2][0]
        init, body = vars_[k]
        if not (isinstance(body, tuple) and body and body[0] == 'store' and len(body) == 4 and body[1] == ('lv', d, k) and len(body[2]) == 1):
            return None
        c = next((c_ for c_ in range(0, 4) if body[2][0] == self.int_add(('iv', d), c_)), None)
        if c is None:
            return None
        if not self._list_root(init):
            # N49: the same for a rank-1 float array of exactly T elements filled element by element (`a = np.empty(T)` / zeros / ones, then
            # `a[i] = g` for i in range(T)): every element is overwritten once, what the buffer held before is never read.  The stored value
            # must be a scalar (an array element holds a float: no aliasing, no broadcasting)
            if not (c == 0 and isinstance(init, tuple) and len(init) == 4 and init[0] == 'call' and init[1] in ('numpy.empty', 'numpy.zeros', 'numpy.ones')
                    and init[2] == (T,) and not init[3] and self.shape(body[3]) == ()):
                return None
        j = self.int_add(e, -c)
        ivs = set()

        def coll(t):
            if isinstance(t, tuple) and t:
                if t[0] == 'iv' and len(t) == 2:
                    ivs.add(t[1])
                else:
                    for y in t:
                        coll(y)
        coll(j)
        if len(ivs) != 1:
            return None
        d2 = next(iter(ivs))
        if d2 == d or self.loop_headers.get(d2) != ('for', ('call', 'range', (T,), ())):
            return None
        if j != ('iv', d2) and j != self.binop('-', self.int_add(T, -1), ('iv', d2)):
            return None
        # columns / elements written once per round by the same loop
        once = []
        for kA, (iA, bA) in enumerate(vars_):
            if kA == k or not (isinstance(bA, tuple) and bA and bA[0] == 'store' and len(bA) == 4 and bA[1] == ('lv', d, kA)):
                continue
            ix = bA[2]
            last = ix[-1]
            cA = next((c_ for c_ in range(0, 4) if last == self.int_add(('iv', d), c_)), None)
            if cA is None or any(self._mentions_loop(it, d) for it in ix[:-1]):
                continue
            once.append((kA, ix, bA[3]))
        val = body[3]
        memo = {}

        def repl(t):
            if not isinstance(t, tuple) or not t:
                return t
            k_ = id(t)
            if k_ in memo:
                return memo[k_][1]
            r = None
            for kA, ix, X in once:
                if t == X:
                    r = ('$col', kA, ix)
                    break
            if r is None:
                r = tuple(repl(y) for y in t)
                if r == t:
                    r = t
            memo[k_] = (t, r)
            return r
        val2 = repl(val)
        if self._mentions_loop(val2, d, carried_only=True):
            return None
        offs = {self.int_add(('iv', d), c_): c_ for c_ in range(1, 4)}
        offs.update({self.int_add(('iv', d), -c_): -c_ for c_ in range(1, 4)})
        smemo = {}

        def sub(t):
            # round variable -> j, arithmetic on it re-normalised
            if not isinstance(t, tuple) or not t:
                return t
            k_ = id(t)
            if k_ in smemo:
                return smemo[k_][1]
            if t == ('iv', d):
                r = j
            elif t in offs:
                r = self.int_add(j, offs[t])
            elif t[0] == '$col':
                r = self.index(('lout', raw, t[1]), tuple(sub(it) for it in t[2]))
            elif not self._mentions_loop(t, d):
                r = t
            elif t[0] == 'bin' and len(t) == 4:
                r = self.binop(t[1], sub(t[2]), sub(t[3]))
            elif t[0] == 'idx' and len(t) == 3:
                r = self.index(sub(t[1]), tuple(sub(it) for it in t[2]))
            else:
                r = tuple(sub(y) for y in t)
            smemo[k_] = (t, r)
            return r
        return sub(val2)

    def index(self, b, items):
        ti = self._tuple_item(b, items)
        if ti is not None:
            return ti
        # N48: element i of the comprehension list  [g(j) for j in range(n)]  with i the variable of a loop over range(n)  is  g(i)
        if b[0] == 'lam' and len(b) == 4 and len(items) == 1 and isinstance(items[0], tuple) and items[0] and items[0][0] == 'iv' \
                and self.loop_headers.get(items[0][1]) == ('for', ('call', 'range', (b[2],), ())):
            return self._resubst(b[3], ('bv', b[1]), items[0])
        # N39: x.shape[0] is len(x) (wherever x has a shape)
        if b[0] == 'attr' and len(b) == 3 and b[2] == 'shape' and len(items) == 1 and is_num(items[0], 0):
            return self.fn_call('len', (b[1],), ())
        if b[0] == 'lout' and isinstance(b[1], tuple) and b[1] and b[1][0] == 'rawloop' and len(items) == 1 and not (isinstance(items[0], tuple) and items[0][0] == 'sl'):
            fw = self._forward_write_once(b, items[0])
            if fw is not None:
                return fw
        if b[0] == 'ite' and len(b) == 4:
            return self.ite(b[1], self.index(b[2], items) if b[2] != ('k', None) else ('undef', 'None[...]'),
                            self.index(b[3], items) if b[3] != ('k', None) else ('undef', 'None[...]'))
        # N20: reading back exactly the region just stored gives the stored value (same rank, no broadcast)
        if b[0] == 'store' and b[2] == items:
            v = b[3]
            nsl = sum(1 for it in items if isinstance(it, tuple) and it[0] == 'sl')
            vs = self.shape(v)
            if nsl == 0 and self._list_root(b[1]):
                return v
            if nsl == 0 and self.shape(v) == () and not self.is_list_value(b[1]):
                return v                # a scalar read back from the float array it was just stored in
            if nsl > 0 and vs is not None and not (vs and vs[0] == 'tuple') and len(vs) == nsl and all(isinstance(x, int) and x > 1 for x in vs):
                return v
        # N14: chained indexing X[i][j] == X[i, j] for scalar i
        if b[0] == 'idx' and all(not (isinstance(it, tuple) and it[0] == 'sl') for it in b[2]):
            bs = self.shape(b[1])
            if bs is None or len(bs) >= len(b[2]) + len(items):
                return self.index(b[1], b[2] + items)
        # one constant index into a 2-D block of constant shape: that row as a 1-D block
        if b[0] == 'block' and len(b[1]) == 2 and len(items) == 1 and is_num(items[0]) and all(isinstance(x, int) for x in b[1]):
            r = int(items[0][1])
            cells = [(c0, c1, 0, 1, t) for (r0, r1, c0, c1, t) in b[2] if r0 == r and r1 == r + 1]
            if 0 <= r < b[1][0] and sum(c[1] - c[0] for c in cells) == b[1][1] and all(c[1] - c[0] == 1 for c in cells):
                return self.mk_block((b[1][1],), cells)
        # reading from a block with constant scalar indices
        if b[0] == 'block' and all(is_num(it) for it in items) and len(items) == len(b[1]):
            r = int(items[0][1])
            c = int(items[1][1]) if len(items) == 2 else 0
            for (r0, r1, c0, c1, t) in b[2]:
                if r0 <= r < r1 and c0 <= c < c1 and r1 - r0 == 1 and c1 - c0 == 1:
                    return t
        if b[0] in ('tuple', 'list') and len(items) == 1 and is_num(items[0]):
            k = int(items[0][1])
            if 0 <= k < len(b[1]):
                return b[1][k]
        sh = self.shape(b)
        if sh is not None and not (sh and sh[0] == 'tuple') and len(items) > len(sh):
            self.failures.append(('rank', 'value of rank %d indexed with %d subscripts: %s' % (len(sh), len(items), show(('idx', b, items)))))
        norm = []
        for k, it in enumerate(items):
            if isinstance(it, tuple) and it[0] == 'sl':
                lo, hi, stp = it[1], it[2], it[3]
                if lo is not None and is_num(lo, 0):
                    lo = None
                ext = sh[k] if (sh is not None and k < len(sh)) else None
                if hi is not None and ext is not None and is_num(hi) and isinstance(ext, int) and int(hi[1]) == ext:
                    hi = None            # N15
                it = ('sl', lo, hi, stp)
            norm.append(it)
        items = tuple(norm)
        # trailing full slices are redundant
        while items and items[-1] == FULL and len(items) > 1:
            items = items[:-1]
        if items == (FULL,):
            return b
        t = ('idx', b, items)
        sel = self.expand_selection(t)
        if sel is not None:
            return self.block1d([(x, 1) for x in sel])     # N13 canonical form: scalarised vector
        return t

    def store(self, cur, items, v):
        """functional update cur[items] = v; folds constant-region stores into fresh arrays into blocks."""
        # N41: a store over exactly the element just stored replaces it;  storing back the element that is there changes nothing
        if isinstance(cur, tuple) and cur and cur[0] == 'store' and len(cur) == 4 and cur[2] == items \
                and not any(isinstance(it, tuple) and it and it[0] == 'sl' for it in items):
            return self.store(cur[1], items, v)
        if isinstance(v, tuple) and v and v[0] == 'idx' and len(v) == 3 and v[1] == cur and v[2] == items \
                and not any(isinstance(it, tuple) and it and it[0] == 'sl' for it in items):
            return cur
        if isinstance(cur, tuple) and cur[0] == 'lam' and len(items) == 1 and isinstance(items[0], tuple) and items[0][0] == 'iv' \
                and self.loop_headers.get(items[0][1]) == ('for', ('call', 'range', (cur[2],), ())):
            # N18: a[i] = v with i the variable of `for i in range(n)` and a of length n (always in range):  j -> v if j == i else a[j]
            return ('lam', cur[1], cur[2], self.ite(canon_cmp('==', ('bv', cur[1]), items[0]), v, cur[3]))
        blk = self.as_block(cur)
        if blk is not None:
            shape = blk[1]
            region = self.const_region(items, shape)
            if region is not None:
                r0, r1, c0, c1 = region
                cells = [c for c in blk[2] if not (r0 <= c[0] and c[1] <= r1 and c0 <= c[2] and c[3] <= c1)]
                # any partially overlapping cell -> give up
                if all(c[1] <= r0 or c[0] >= r1 or c[3] <= c0 or c[2] >= c1 for c in cells):
                    return self.mk_block(shape, cells + [(r0, r1, c0, c1, v)])
        return ('store', cur, items, v)

    def as_block(self, t):
        if isinstance(t, tuple) and t[0] == 'block':
            return t
        if isinstance(t, tuple) and t[0] == 'call' and self.const_array(t) is not None:
            sh = self.shape(t)
            if sh is not None and all(isinstance(x, int) for x in sh) and 1 <= len(sh) <= 2 and all(0 < x <= 8 for x in sh):
                if len(sh) == 1:
                    return self.mk_block(sh, [(0, sh[0], 0, 1, t)])
                return self.mk_block(sh, [(0, sh[0], 0, sh[1], t)])
        return None

    def const_region(self, items, shape):
        def one(it, ext):
            if isinstance(it, tuple) and it[0] == 'sl':
                if it[3] is not None:
                    return None
                lo = 0 if it[1] is None else (int(it[1][1]) if is_num(it[1]) else None)
                hi = ext if it[2] is None else (int(it[2][1]) if is_num(it[2]) else None)
                if lo is None or hi is None:
                    return None
                return (lo, hi)
            if is_num(it):
                return (int(it[1]), int(it[1]) + 1)
            return None
        if len(shape) == 1:
            if len(items) != 1:
                return None
            r = one(items[0], shape[0])
            return None if r is None else (r[0], r[1], 0, 1)
        if len(items) == 1:
            r = one(items[0], shape[0])
            return None if r is None else (r[0], r[1], 0, shape[1])
        if len(items) == 2:
            r, c = one(items[0], shape[0]), one(items[1], shape[1])
            if r is None or c is None:
                return None
            return (r[0], r[1], c[0], c[1])
        return None

    def concat(self, kind, ops):
        """np.r_[...] / np.c_[...] -> block when operand shapes are known."""
        shs = [self.shape(o) for o in ops]
        if any(s is None or not all(isinstance(x, int) for x in s) for s in shs):
            return ('call', 'numpy.%s_' % kind, ops, ())
        if kind == 'r':
            if all(len(s) == 1 for s in shs):
                return self.block1d([(o, s[0]) for o, s in zip(ops, shs)])
            if all(len(s) == 2 for s in shs) and len({s[1] for s in shs}) == 1:
                cells, r = [], 0
                for o, s in zip(ops, shs):
                    cells.append((r, r + s[0], 0, s[1], o))
                    r += s[0]
                return self.mk_block((r, shs[0][1]), cells)
        else:
            rows = {s[0] for s in shs if len(s) in (1, 2)}
            if len(rows) == 1 and all(len(s) in (1, 2) for s in shs):
                m = rows.pop()
                cells, c = [], 0
                for o, s in zip(ops, shs):
                    w = 1 if len(s) == 1 else s[1]
                    cells.append((0, m, c, c + w, o))
                    c += w
                return self.mk_block((m, c), cells)
        return ('call', 'numpy.%s_' % kind, ops, ())

    # ------------------------------------------------------------------ calls
    def call(self, e, env):
        f = e.func
        args = tuple(self.expr(a, env) for a in e.args)
        kwargs = tuple(sorted((k.arg or '**', self.expr(k.value, env)) for k in e.keywords))
        # method calls on values
        if isinstance(f, ast.Attribute):
            recv = self.expr(f.value, env)
            if recv[0] == 'mod':
                return self.np_call(recv[1] + '.' + f.attr, args, kwargs)
            if recv[0] == 'g' and recv[1] in self.module_aliases and f.attr in self.module_funcs:
                return self.fn_call(f.attr, args, kwargs)
            m = f.attr
            if m in self.self_methods and self.inliner is not None and not kwargs:
                hnode = self.inliner.funcs.get(self.self_methods[m])
                static = hnode is not None and any(isinstance(d_, ast.Name) and d_.id == 'staticmethod' for d_ in getattr(hnode, 'decorator_list', []))
                t = None
                if static and (recv == ('p', 0) or recv[0] in ('g', 'undef', 'k')):
                    t = self.inliner.instantiate(self.self_methods[m], args, self)          # Class._h(...) / self._h(...) of a static helper
                elif recv == ('p', 0) and not static:
                    t = self.inliner.instantiate(self.self_methods[m], (recv,) + args, self)
                if t is not None:
                    return t
            if m == 'copy' and not args:
                return recv                               # N2
            if m == 'astype' and len(args) == 1 and args[0] in (('g', 'float'), ('mod', 'numpy.float64'), ('mod', 'numpy.double')):
                return recv                               # N2 (float64 only: a copy of the same values for float input)
            if m in ('conj', 'conjugate') and not args:
                return recv                               # N3 (real dtype)
            if m == 'transpose' and not args:
                return self.transpose(recv)
            if m in ('flatten', 'ravel') and not args:
                sh = self.shape(recv)
                if sh is not None and len(sh) == 1:
                    return recv                           # N11
            if m == 'reshape':
                sh = self.shape(recv)
                tgt = args[0] if len(args) == 1 else ('tuple', args)
                if tgt[0] == 'tuple' and len(tgt[1]) == 1:
                    tgt = tgt[1][0]
                if sh is not None and len(sh) == 1 and (tgt == (num(sh[0]) if isinstance(sh[0], int) else None)
                                                        or (is_num(tgt) and isinstance(sh[0], int) and tgt[1] == sh[0])):
                    return recv                           # N11
                if sh is not None and len(sh) == 1 and self.same_extent(tgt, sh[0]):
                    return recv
            if m == 'dot' and len(args) == 1:
                return self.dot(recv, args[0])
            return ('call', ('meth', m), (recv,) + args, kwargs)
        fn = self.expr(f, env)
        if fn[0] == 'localfn' and fn[1] in self.local_fns and not kwargs:
            node = self.local_fns[fn[1]]
            params = [a_.arg for a_ in node.args.posonlyargs + node.args.args]
            if len(args) <= len(params) and self.local_depth < 4:
                env2 = dict(env)
                nd = len(node.args.defaults)
                dflt = dict(zip(params[len(params) - nd:], node.args.defaults))
                ok_ = True
                for k_, p_ in enumerate(params):
                    if k_ < len(args):
                        env2[p_] = args[k_]
                    elif p_ in dflt:
                        env2[p_] = self.expr(dflt[p_], env)
                    else:
                        ok_ = False
                if ok_:
                    body = node.body
                    if body and isinstance(body[0], ast.Expr) and isinstance(body[0].value, ast.Constant):
                        body = body[1:]
                    self.local_depth += 1
                    try:
                        r_ = self.block(body, env2)
                    finally:
                        self.local_depth -= 1
                    # only the effect escapes the helper's frame (it does not declare nonlocal: assignments stay local)
                    if any(isinstance(n_, (ast.Nonlocal, ast.Global)) for n_ in ast.walk(node)):
                        raise Unsupported('nonlocal in a local helper')
                    if r_[0] == 'ret':
                        env['$eff'] = r_[2]
                        return r_[1]
                    env['$eff'] = r_[1]['$eff']
                    return ('k', None)
        if fn[0] == 'g':
            return self.fn_call(fn[1], args, kwargs)
        if fn[0] == 'mod':
            return self.np_call(fn[1], args, kwargs)
        return ('call', fn, args, kwargs)

    _NEG_CMP = {'<': '>=', '>=': '<', '>': '<=', '<=': '>', '==': '!=', '!=': '=='}

    def not_(self, v):
        """N32: negation pushed inwards - double negation, De Morgan, and comparisons between integer-valued terms (counters, lengths,
        constants; no NaN there) negate to the complementary comparison"""
        if not isinstance(v, tuple) or not v:
            return ('not', v)
        if v[0] == 'not':
            return v[1]
        if v[0] == 'k' and isinstance(v[1], bool):
            return ('k', not v[1])
        if v[0] in ('and', 'or') and len(v) == 2:
            return self.boolop('or' if v[0] == 'and' else 'and', tuple(self.not_(x) for x in v[1]))
        if v[0] == 'cmp' and len(v) == 4 and v[1] in self._NEG_CMP and (v[1] in ('==', '!=') or (self._counterish(v[2]) and self._counterish(v[3]))):
            return canon_cmp(self._NEG_CMP[v[1]], v[2], v[3])
        return ('not', v)

    def _counterish(self, t):
        return self.is_int_term(t) or (isinstance(t, tuple) and t and t[0] == 'p')      # a bound handed in as a parameter (max_iters)

    @staticmethod
    def boolop(kind, args):
        """N30: conjunctions / disjunctions of values are kept flat, without repeated operands and in one canonical order (the terms are
        values, effects are tracked apart: the order of the operands does not change the truth value)"""
        flat = []
        for a in args:
            if isinstance(a, tuple) and a and a[0] == kind and len(a) == 2 and isinstance(a[1], tuple):
                flat.extend(a[1])
            else:
                flat.append(a)
        out = []
        for a in flat:
            if a not in out:
                out.append(a)
        if len(out) == 1:
            return out[0]
        return (kind, tuple(sorted(out, key=repr)))

    def int_add(self, t, k):
        """t + k for an integer-valued term (range bounds), in the canonical form of integer sums"""
        if is_num(t):
            return num(t[1] + k)
        if self.is_int_term(t):
            lin = self._lin(('bin', '+', t, num(k)))
            if lin is not None:
                return self._unlin(lin)
        if t[0] == 'bin' and t[1] in ('+', '-') and is_num(t[3]):
            c = (t[3][1] if t[1] == '+' else -t[3][1]) + k
            if c == 0:
                return t[2]
            return ('bin', '+' if c > 0 else '-', t[2], num(abs(c)))
        return ('bin', '+' if k > 0 else '-', t, num(abs(k)))

    def same_extent(self, term, ext):
        return False

    def fn_call(self, name, args, kwargs):
        if self.inliner is not None and not kwargs:
            t = self.inliner.instantiate(name, args, self)
            if t is not None:
                return t
        if self.helper_rules:
            if name in ('Norm',) and len(args) == 1:
                return ('call', 'numpy.linalg.norm', args, ())         # N1
            if name == 'SafeTrace' and len(args) == 1:
                return ('call', 'numpy.trace', args, ())               # N7
            if name in ('SafeCopy',) and len(args) == 1:
                return args[0]                                          # N2
            if name in ('SafeDot', 'MatMul') and len(args) == 2:
                return self.dot(args[0], args[1])                      # N4
            if name == 'SafeClip' and len(args) == 3:
                return ('call', 'SafeClip', args, ())
        if name == 'len' and len(args) == 1 and not kwargs and isinstance(args[0], tuple) and args[0] and args[0][0] == 'lam' and len(args[0]) == 4:
            return args[0][2]               # the length of a comprehension list is its range
        if name == 'len' and len(args) == 1 and not kwargs:
            # N42: the length of a value whose first extent is known - a constant, or the contract symbol it shares with other values
            sh_ = self.shape(args[0])
            if isinstance(sh_, tuple) and sh_ and sh_[0] != 'tuple' and not self.is_list_value(args[0]):
                if isinstance(sh_[0], int):
                    return num(sh_[0])
                if isinstance(sh_[0], str) and sh_[0] not in ('?',):
                    return ('call', 'len', (('ext', sh_[0]),), ())
        if name == 'reversed' and len(args) == 1 and not kwargs and args[0][0] == 'call' and args[0][1] == 'range' and not args[0][3]:
            # N19: reversed(range(a, b)) visits b-1, ..., a: the iteration range(b - 1, a - 1, -1)
            r = args[0][2]
            if len(r) in (1, 2):
                a, b = (num(0), r[0]) if len(r) == 1 else r
                return ('call', 'range', (self.int_add(b, -1), self.int_add(a, -1), num(-1)), ())
        if name == 'range' and len(args) == 2 and not kwargs and is_num(args[0], 0):
            return ('call', 'range', (args[1],), ())        # range(0, n) is range(n)
        if name == 'float' and len(args) == 1 and is_num(args[0]):
            return args[0]
        if name == 'list' and len(args) == 1 and not kwargs and self.is_list_value(args[0]):
            return args[0]                                   # list(<a list built here>): the same items in a new list
        if name == 'int' and len(args) == 1 and is_num(args[0]):
            return num(int(args[0][1]))
        return ('call', name, args, kwargs)

    def np_call(self, dotted, args, kwargs):
        name = dotted
        kw = dict(kwargs)
        # dtype=float64/float on constructors carries no value information for float inputs
        if 'dtype' in kw and kw['dtype'] in (('mod', 'numpy.float64'), ('g', 'float'), ('mod', 'numpy.double')):
            del kw['dtype']
        kwargs = tuple(sorted(kw.items()))
        if name in ('numpy.array', 'numpy.asarray', 'numpy.copy') and len(args) == 1 and not kwargs:
            return args[0]                                             # N2
        if name == 'numpy.transpose' and len(args) == 1:
            return self.transpose(args[0])                             # N3
        if name == 'numpy.array_equal' and len(args) == 2 and not kwargs:
            # N29: comparing with an all-zero array of the same shape asks whether no entry is non-zero
            for a_, z_ in ((args[0], args[1]), (args[1], args[0])):
                if z_[0] == 'call' and z_[1] in ('numpy.zeros', 'numpy.zeros_like'):
                    return self.not_(('call', ('meth', 'any'), (a_,), ()))
        if name in ('numpy.dot', 'numpy.matmul') and len(args) == 2:
            return self.dot(args[0], args[1])                          # N4
        if name == 'numpy.arccos' and len(args) == 1:
            a = args[0]
            if a[0] == 'call' and a[1] == 'SafeClip' and is_num(a[2][1], -1) and is_num(a[2][2], 1):
                return ('call', name, (a[2][0],), ())                  # N8
        if name in ('numpy.eye', 'numpy.identity', 'numpy.zeros', 'numpy.ones') and len(args) == 1:
            a = args[0]
            if a[0] == 'tuple' and len(a[1]) == 1:
                a = a[1][0]
            return ('call', name, (a,), kwargs)
        if name in ('numpy.add', 'numpy.subtract', 'numpy.multiply', 'numpy.divide') and len(args) == 2 and not kwargs:
            return ('call', name, args, ())
        return ('call', name, args, kwargs)

    # ------------------------------------------------------------------ shapes
    def shape(self, t):
        if not isinstance(t, tuple):
            return None
        k = t[0]
        if k == 'num':
            return ()
        if k == 'p':
            name = self.params[t[1]] if t[1] < len(self.params) else None
            return self.pshape.get(name)
        if k == 'block':
            return t[1]
        if k == 'shapeonly' and len(t) == 4:
            return tuple(int(x[1]) if is_num(x) else '?' for x in (t[1], t[2]))        # N34: a buffer known by its extents only
        if k == 'attr' and len(t) == 3 and t[1] == ('p', 0) and t[2] in self.attr_shapes:
            return self.attr_shapes[t[2]]
        if k in ('neg',):
            return self.shape(t[1])
        if k == 'T':
            s = self.shape(t[1])
            return None if s is None else tuple(reversed(s))
        if k == 'cmp' or k in ('and', 'or', 'not'):
            return ()
        if k == 'bin':
            a, b = self.shape(t[2]), self.shape(t[3])
            if a == ():
                return b
            if b == ():
                return a
            if a is not None and a == b:
                return a
            if a is not None and b is not None:
                if len(a) == len(b) + 1 and a[1:] == b:
                    return a
                if len(b) == len(a) + 1 and b[1:] == a:
                    return b
            return None
        if k == 'dot':
            a, b = self.shape(t[1]), self.shape(t[2])
            if a is None or b is None:
                return None
            if len(a) == 2 and len(b) == 2:
                return (a[0], b[1])
            if len(a) == 2 and len(b) == 1:
                return (a[0],)
            if len(a) == 1 and len(b) == 2:
                return (b[1],)
            if len(a) == 1 and len(b) == 1:
                return ()
            return None
        if k == 'idx':
            if len(t[2]) == 1 and not (isinstance(t[2][0], tuple) and t[2][0][0] == 'sl') and self._list_root(t[1]):
                es = self._elem_shapes(t[1])
                if len(es) == 1 and None not in es:
                    return next(iter(es))               # every element ever stored in this list has that shape
            s = self.shape(t[1])
            if s is None:
                return None
            items = t[2]
            if s and s[0] == 'tuple':
                if len(items) == 1 and is_num(items[0]) and 0 <= int(items[0][1]) < len(s[1]):
                    return s[1][int(items[0][1])]
                return None
            if len(items) > len(s):
                return None
            out = []
            for i, it in enumerate(items):
                if isinstance(it, tuple) and it[0] == 'sl':
                    out.append(_sl_extent(it, s[i]))
                else:
                    ish = self.shape(it)
                    if ish == () or ish is None and (it[0] in ('iv', 'num', 'bin', 'lv')):
                        continue
                    return None
            out.extend(s[len(items):])
            return tuple(out)
        if k == 'ite':
            a, b = self.shape(t[2]), self.shape(t[3])
            return a if a == b else None
        if k == 'iv':
            return ()
        if k == 'lv':
            return self.loop_shapes.get((t[1], t[2]))
        if k == 'lout':
            raw = t[1]
            init = raw[3][t[2]][0]
            return self.shape(init)
        if k == 'store':
            return self.shape(t[1])
        if k == 'unpack':
            s = self.shape(t[1])
            if isinstance(s, tuple) and s and s[0] == 'tuple':
                return s[1][t[2]] if t[2] < len(s[1]) else None
            return None
        if k == 'tuple':
            return ('tuple', tuple(self.shape(x) for x in t[1]))
        if k == 'call':
            name = t[1]
            args = t[2]
            if isinstance(name, str):
                if name in ELEMENTWISE and args:
                    return self.shape(args[0])
                if name in ('numpy.eye', 'numpy.identity') and args and is_num(args[0]):
                    n = int(args[0][1])
                    return (n, n)
                if name in ('numpy.zeros', 'numpy.ones') and args:
                    a = args[0]
                    if is_num(a):
                        return (int(a[1]),)
                    if a[0] == 'tuple' and all(is_num(x) for x in a[1]):
                        return tuple(int(x[1]) for x in a[1])
                    if a[0] == 'tuple' and all(is_num(x) or self.shape(x) == () for x in a[1]):
                        return tuple(int(x[1]) if is_num(x) else '?' for x in a[1])     # symbolic extent
                    return None
                if name == 'numpy.cross':
                    return (3,)
                if name in ('numpy.hstack', 'numpy.concatenate') and args and args[0][0] in ('tuple', 'list') and (name == 'numpy.hstack' or not t[3]):
                    parts = [self.shape(x) for x in args[0][1]]
                    if parts and all(p_ is not None and len(p_) == 1 and isinstance(p_[0], int) for p_ in parts):
                        return (sum(p_[0] for p_ in parts),)
                if name in ('numpy.linalg.norm', 'numpy.trace', 'numpy.linalg.det', 'len', 'float', 'int', 'min', 'max', 'SafeClip'):
                    return ()
                if name == 'numpy.linalg.svd' and len(args) == 1 and not t[3]:
                    return ('tuple', (('m', 'm'), ('k',), ('n', 'n')))
                if name == 'numpy.linalg.pinv' and args:
                    s = self.shape(args[0])
                    return None if s is None or len(s) != 2 else (s[1], s[0])
                if name == 'numpy.linalg.inv' and args:
                    return self.shape(args[0])
                if name in self.shapes.returns:
                    r = self.shapes.returns[name]
                    if r == 'arg0':
                        return self.shape(args[0]) if args else None
                    return r
            return None
        return None

    # ------------------------------------------------------------------ canonical loops
    def finalize(self, t):
        """Replace raw loops by canonical loop terms (dependency-ordered carried variables)."""
        memo = {}

        def fin(x):
            if not isinstance(x, tuple):
                return x
            k_ = id(x)
            if k_ in memo:
                return memo[k_][1]
            if x and x[0] == 'lout':
                r = self.canon_loop(x[1], x[2], fin)
            elif x and x[0] == 'lastiv':
                r = ('lastiv', self.canon_loop(x[1], None, fin))
            else:
                r = tuple(fin(y) for y in x)
            memo[k_] = (x, r)
            return r
        return fin(t)

    def _refs(self, term, d, acc, seen=None):
        """indices j of the loop variables ('lv', d, j) that `term` reads; a nested loop contributes only through the
        variables its own selected output depends on (dead variables of an inner loop keep nothing alive)"""
        if seen is None:
            seen = set()
        if isinstance(term, tuple):
            if id(term) in seen:
                return
            seen.add(id(term))
            if term and term[0] == 'lv' and term[1] == d:
                if term[2] not in acc:
                    acc.append(term[2])
                return
            if len(term) == 3 and term[0] == 'lout' and isinstance(term[1], tuple) and term[1] and term[1][0] == 'rawloop' and getattr(self, 'prune_loops', True):
                raw2 = term[1]
                for v in self._closure(raw2, term[2]):
                    self._refs(raw2[3][v][0], d, acc, seen)
                    self._refs(raw2[3][v][1], d, acc, seen)
                self._refs(raw2[2], d, acc, seen)
                return
            if term and term[0] == 'rawloop':
                for (i0, b0) in term[3]:
                    self._refs(i0, d, acc, seen)
                    self._refs(b0, d, acc, seen)
                self._refs(term[2], d, acc, seen)
                return
            for y in term:
                self._refs(y, d, acc, seen)

    def _closure(self, raw, k):
        _, d, header, vars_ = raw
        order = []
        seeds = []
        if header[0] == 'while':
            self._refs(header[1], d, seeds)
        if k is not None and k not in seeds:
            seeds.insert(0, k)
        work = list(seeds)
        while work:
            v = work.pop(0)
            if v in order:
                continue
            order.append(v)
            acc = []
            self._refs(vars_[v][1], d, acc)
            for w in acc:
                if w not in order and w not in work:
                    work.append(w)
        return order

    def canon_loop(self, raw, k, fin):
        _, d, header, vars_ = raw
        order = self._closure(raw, k)
        if not getattr(self, 'prune_loops', True):
            order = list(range(len(vars_)))
        ren = {v: i for i, v in enumerate(order)}

        rmemo = {}

        def rename(term):
            if isinstance(term, tuple):
                k_ = id(term)
                if k_ in rmemo:
                    return rmemo[k_][1]
                if term and term[0] == 'lv' and term[1] == d:
                    r = ('lv', d, ren.get(term[2], ('dead', term[2])))
                else:
                    r = tuple(rename(y) for y in term)
                    if r == term:
                        r = term
                rmemo[k_] = (term, r)
                return r
            return term
        hdr = fin(rename(header))
        vs = tuple((fin(vars_[v][0]), fin(rename(vars_[v][1]))) for v in order)
        loop = ('loop', d, hdr, vs)
        if k is None:
            return loop
        return ('lout', loop, ren[k])


# ----------------------------------------------------------------------------------------
# comparison
# ----------------------------------------------------------------------------------------
def first_diff(a, b, path=()):
    """A small differing sub-term pair (a', b', path): follows the first differing child while the two terms
    have the same constructor and arity."""
    if a == b:
        return None
    if isinstance(a, tuple) and isinstance(b, tuple) and len(a) == len(b) and a and b and \
            (not isinstance(a[0], str) or a[0] == b[0]):
        for i, (x, y) in enumerate(zip(a, b)):
            if x != y:
                if isinstance(x, tuple) and isinstance(y, tuple):
                    r = first_diff(x, y, path + (i,))
                    if r is not None:
                        return r
                return (a, b, path)
    return (a, b, path)


def show(t, depth=0, maxlen=160):
    s = _show(t)
    return s if len(s) <= maxlen else s[:maxlen] + '...'


def _show(t):
    if not isinstance(t, tuple) or not t:
        return repr(t)
    k = t[0]
    if k == 'num':
        v = t[1]
        return str(int(v)) if v == int(v) and abs(v) < 1e15 else repr(v)
    if k == 'k':
        return repr(t[1])
    if k == 'p':
        return 'arg%d' % t[1]
    if k in ('g', 'mod', 'undef'):
        return ('<undefined %s>' % t[1]) if k == 'undef' else str(t[1])
    if k == 'call':
        nm = t[1] if isinstance(t[1], str) else _show(t[1])
        return '%s(%s)' % (nm, ', '.join(_show(a) for a in t[2]))
    if k == 'bin':
        return '(%s %s %s)' % (_show(t[2]), t[1], _show(t[3]))
    if k == 'neg':
        return '-%s' % _show(t[1])
    if k == 'dot':
        return 'dot(%s, %s)' % (_show(t[1]), _show(t[2]))
    if k == 'T':
        return '%s.T' % _show(t[1])
    if k == 'idx':
        return '%s[%s]' % (_show(t[1]), ', '.join(_show(i) for i in t[2]))
    if k == 'sl':
        return '%s:%s' % ('' if t[1] is None else _show(t[1]), '' if t[2] is None else _show(t[2]))
    if k == 'block':
        return 'BLOCK%s{%s}' % (t[1], '; '.join('%d:%d,%d:%d=%s' % (c[0], c[1], c[2], c[3], _show(c[4])) for c in t[2][:6]) + (' ...' if len(t[2]) > 6 else ''))
    if k == 'cmp':
        return '(%s %s %s)' % (_show(t[2]), t[1], _show(t[3]))
    if k == 'ite':
        return 'ite(%s, %s, %s)' % (_show(t[1]), _show(t[2]), _show(t[3]))
    if k == 'meth':
        return '.' + t[1]
    return '%s(%s)' % (k, ', '.join(_show(x) for x in t[1:]))
