"""E8 - symbolic extents and index bounds for the @jit kernels (abstract interpretation, no execution).

Values:   Aff      affine integer form over extent symbols (n, N, k, ...) and free locals
          Rng(lo,hi) integer interval with Aff bounds (loop counters)
          Shp(ext) array shape, extents are Aff
          Tup(items) tuple of values (x.shape, multiple returns)
          None     unknown (=> silent, counted as unresolved)
Obligation at every subscript of a value of known shape: 0 <= index <= extent-1 for integer
components, 0 <= lo <= hi <= extent for constant slice bounds.  Symbols are assumed >= 0.
"""
import ast


class Aff:
    __slots__ = ('c', 't')

    def __init__(self, c=0, t=None):
        self.c = c
        self.t = {k: v for k, v in (t or {}).items() if v != 0}

    @staticmethod
    def sym(s):
        return Aff(0, {s: 1})

    def __add__(self, o):
        o = aff(o)
        t = dict(self.t)
        for k, v in o.t.items():
            t[k] = t.get(k, 0) + v
        return Aff(self.c + o.c, t)

    def __neg__(self):
        return Aff(-self.c, {k: -v for k, v in self.t.items()})

    def __sub__(self, o):
        return self + (-aff(o))

    def scale(self, k):
        return Aff(self.c * k, {s: v * k for s, v in self.t.items()})

    def is_const(self):
        return not self.t

    def key(self):
        return (self.c, tuple(sorted(self.t.items())))

    def __eq__(self, o):
        return isinstance(o, Aff) and self.key() == o.key()

    def __hash__(self):
        return hash(self.key())

    def __repr__(self):
        parts = ['%s%s' % ('' if v == 1 else ('-' if v == -1 else '%d*' % v), k) for k, v in sorted(self.t.items())]
        if self.c or not parts:
            parts.append(str(self.c))
        return '+'.join(parts).replace('+-', '-')


def aff(x):
    return x if isinstance(x, Aff) else Aff(int(x))


def sign(a):
    """'nonneg' | 'neg' | 'unknown' for an Aff whose symbols are >= 0."""
    if all(v >= 0 for v in a.t.values()) and a.c >= 0:
        return 'nonneg'
    if all(v <= 0 for v in a.t.values()) and a.c < 0:
        return 'neg'
    return 'unknown'


def _witness_negative(a):
    """`a` = extent - 1 - index (an Aff over contract symbols) could not be signed.  When every symbol occurs with a positive coefficient and the
    value at the smallest admissible sizes (1 for an extent, 0 for slack) is negative, that size assignment is a valid input for which the
    index lies outside: -> (extent value text, assignment text); None otherwise."""
    if not a.t or any(v <= 0 for v in a.t.values()):
        return None
    mins = {k: (0 if 'slack' in str(k) else 1) for k in a.t}
    val = a.c + sum(v * mins[k] for k, v in a.t.items())
    if val < 0:
        return ('%d' % -val, ', '.join('%s = %d' % (k, mins[k]) for k in sorted(a.t, key=str)))
    return None


class Rng:
    __slots__ = ('lo', 'hi')

    def __init__(self, lo, hi):
        self.lo, self.hi = aff(lo), aff(hi)

    def __repr__(self):
        return '[%r..%r]' % (self.lo, self.hi)


class Shp:
    __slots__ = ('ext',)

    def __init__(self, ext):
        self.ext = tuple(aff(e) if not isinstance(e, str) else parse_extent(e) for e in ext)

    def __repr__(self):
        return 'Shp%r' % (self.ext,)


class Tup:
    __slots__ = ('items',)

    def __init__(self, items):
        self.items = tuple(items)


def parse_extent(e):
    if isinstance(e, int):
        return Aff(e)
    if isinstance(e, Aff):
        return e
    e = e.strip()
    if '+' in e:
        a, b = e.split('+')
        return parse_extent(a) + parse_extent(b)
    if e.lstrip('-').isdigit():
        return Aff(int(e))
    return Aff.sym(e)


def shape_from_contract(s):
    if s is None:
        return None
    if s == ():
        return 'scalar'
    if isinstance(s, tuple) and s and s[0] == 'tuple':
        return Tup([shape_from_contract(x) for x in s[1]])
    return Shp(s)


ELEMENTWISE = {'sin', 'cos', 'tan', 'arccos', 'arcsin', 'sqrt', 'abs', 'square', 'exp', 'absolute', 'negative', 'conj'}


class Site:
    __slots__ = ('node', 'kind', 'ok', 'msg', 'text')

    def __init__(self, node, kind, ok, msg, text):
        self.node, self.kind, self.ok, self.msg, self.text = node, kind, ok, msg, text


class Bounds:
    """Analyse one function.  contracts: {param: shape tuple}; returns: {fname: shape | 'arg0' | ('tuple', ...)}"""

    def __init__(self, fnode, contracts, returns, np_names=('np', 'numpy'), strict_params=True, callee_contracts=None):
        self.fn = fnode
        self.returns = returns
        self.callee_contracts = callee_contracts or {}     # kernel name -> (ordered parameter names, {param: contracted shape})
        self.np = set(np_names)
        self.sites = []         # Site
        self.unresolved = []    # (node, why)
        self.n_int = 0
        self.n_slice = 0
        self.env = {}
        a = fnode.args
        for p in [x.arg for x in a.posonlyargs + a.args]:
            s = contracts.get(p)
            self.env[p] = shape_from_contract(s) if s is not None else None

    # ------------------------------------------------------------------ driver
    def run(self):
        body = self.fn.body
        self.block(body, self.env)
        return self

    def block(self, stmts, env):
        for st in stmts:
            self.stmt(st, env)

    def stmt(self, st, env):
        if isinstance(st, ast.Assign):
            v = self.ev(st.value, env)
            for t in st.targets:
                self.assign(t, v, env)
        elif isinstance(st, ast.AugAssign):
            cur = self.ev(st.target, env) if not isinstance(st.target, ast.Name) else env.get(st.target.id)
            inc = self.ev(st.value, env)
            if isinstance(st.target, ast.Name):
                v = None
                if isinstance(cur, Rng) and isinstance(inc, Rng) and isinstance(st.op, (ast.Add, ast.Sub)):
                    v = Rng(cur.lo + inc.lo, cur.hi + inc.hi) if isinstance(st.op, ast.Add) else Rng(cur.lo - inc.hi, cur.hi - inc.lo)
                elif isinstance(cur, Shp):
                    v = cur
                env[st.target.id] = v
            else:
                self.ev(st.target, env)
        elif isinstance(st, ast.AnnAssign):
            if st.value is not None:
                self.assign(st.target, self.ev(st.value, env), env)
        elif isinstance(st, ast.Expr):
            self.ev(st.value, env)
        elif isinstance(st, ast.Return):
            if st.value is not None:
                self.ev(st.value, env)
        elif isinstance(st, ast.If):
            self.ev(st.test, env)
            e1, e2 = dict(env), dict(env)
            self.refine(st.test, True, e1)
            self.refine(st.test, False, e2)
            self.block(st.body, e1)
            self.block(st.orelse, e2)
            for k in set(e1) | set(e2):
                env[k] = self.join(e1.get(k), e2.get(k))
        elif isinstance(st, ast.For):
            self.for_(st, env)
        elif isinstance(st, ast.While):
            self.ev(st.test, env)
            self.havoc(st.body, env)
            self.block(st.body, env)
            self.havoc(st.body, env)
        elif isinstance(st, ast.Try):
            self.block(st.body, env)
            for h in st.handlers:
                self.block(h.body, dict(env))
            self.block(st.orelse, env)
            self.block(st.finalbody, env)
        elif isinstance(st, ast.With):
            self.block(st.body, env)
        # pass/break/continue/import: nothing

    def havoc(self, body, env):
        """Integer locals modified inside a loop of unknown trip count lose their value; arrays keep their shape."""
        for n in ast.walk(ast.Module(body=list(body), type_ignores=[])):
            tg = []
            if isinstance(n, ast.Assign):
                tg = n.targets
            elif isinstance(n, ast.AugAssign):
                tg = [n.target]
            for t in tg:
                if isinstance(t, ast.Name) and isinstance(env.get(t.id), Rng):
                    env[t.id] = None

    def for_(self, st, env):
        it = self.ev(st.iter, env)
        rng = None
        if isinstance(st.iter, ast.Call) and isinstance(st.iter.func, ast.Name) and st.iter.func.id == 'range':
            args = [self.ev(a, env) for a in st.iter.args]
            if all(isinstance(a, Rng) and a.lo == a.hi for a in args):
                vals = [a.lo for a in args]
                if len(vals) == 1:
                    lo, hi, step = Aff(0), vals[0], 1
                elif len(vals) == 2:
                    lo, hi, step = vals[0], vals[1], 1
                else:
                    lo, hi = vals[0], vals[1]
                    step = vals[2].c if vals[2].is_const() else None
                if step == 1:
                    rng = Rng(lo, hi - 1)
                elif step == -1:
                    rng = Rng(hi + 1, lo)
                # constant small trip count: unroll exactly
                if step in (1, -1) and lo.is_const() and hi.is_const() and isinstance(st.target, ast.Name):
                    seq = list(range(lo.c, hi.c, step))
                    if 0 < len(seq) <= 8:
                        for v in seq:
                            env[st.target.id] = Rng(v, v)
                            self.block(st.body, env)
                        self.block(st.orelse, env)
                        return
        if isinstance(st.target, ast.Name):
            env[st.target.id] = rng
        else:
            for n in ast.walk(st.target):
                if isinstance(n, ast.Name):
                    env[n.id] = None
        self.havoc(st.body, env)
        self.block(st.body, env)
        self.havoc(st.body, env)
        self.block(st.orelse, env)

    def refine(self, test, truth, env):
        return

    def join(self, a, b):
        if a is None or b is None:
            return None
        if isinstance(a, Shp) and isinstance(b, Shp):
            return a if a.ext == b.ext else None
        if isinstance(a, Rng) and isinstance(b, Rng):
            if a.lo == b.lo and a.hi == b.hi:
                return a
            if a.lo.is_const() and b.lo.is_const() and a.hi.is_const() and b.hi.is_const():
                return Rng(min(a.lo.c, b.lo.c), max(a.hi.c, b.hi.c))
            return None
        if a == 'scalar' and b == 'scalar':
            return 'scalar'
        if isinstance(a, Tup) and isinstance(b, Tup) and len(a.items) == len(b.items):
            return Tup([self.join(x, y) for x, y in zip(a.items, b.items)])
        return None

    def assign(self, t, v, env):
        if isinstance(t, ast.Name):
            env[t.id] = v
        elif isinstance(t, (ast.Tuple, ast.List)):
            for k, e in enumerate(t.elts):
                self.assign(e, v.items[k] if isinstance(v, Tup) and k < len(v.items) else None, env)
        elif isinstance(t, ast.Subscript):
            self.subscript(t, env, store=True)
        elif isinstance(t, ast.Attribute):
            self.ev(t.value, env)

    # ------------------------------------------------------------------ expressions
    def ev(self, e, env):
        if e is None:
            return None
        if isinstance(e, ast.Constant):
            if isinstance(e.value, bool):
                return 'scalar'
            if isinstance(e.value, int):
                return Rng(e.value, e.value)
            if isinstance(e.value, float):
                return 'scalar'
            return None
        if isinstance(e, ast.Name):
            return env.get(e.id)
        if isinstance(e, ast.UnaryOp):
            v = self.ev(e.operand, env)
            if isinstance(e.op, ast.USub) and isinstance(v, Rng):
                return Rng(-v.hi, -v.lo)
            return v if isinstance(v, (Shp,)) or v == 'scalar' else ('scalar' if isinstance(e.op, ast.Not) else None)
        if isinstance(e, ast.BinOp):
            a, b = self.ev(e.left, env), self.ev(e.right, env)
            return self.binop(e.op, a, b)
        if isinstance(e, (ast.BoolOp, ast.Compare)):
            for n in ast.iter_child_nodes(e):
                if isinstance(n, ast.expr):
                    self.ev(n, env)
            return 'scalar'
        if isinstance(e, ast.Tuple):
            return Tup([self.ev(x, env) for x in e.elts])
        if isinstance(e, ast.List):
            items = [self.ev(x, env) for x in e.elts]
            if not items:
                return Shp((0,))
            if all(x == 'scalar' or isinstance(x, Rng) for x in items):
                return Shp((len(items),))
            if all(isinstance(x, Shp) for x in items) and len({x.ext for x in items}) == 1:
                return Shp((len(items),) + items[0].ext)
            return None
        if isinstance(e, ast.Subscript):
            return self.subscript(e, env)
        if isinstance(e, ast.Attribute):
            b = self.ev(e.value, env)
            if e.attr == 'T' and isinstance(b, Shp):
                return Shp(tuple(reversed(b.ext)))
            if e.attr == 'shape' and isinstance(b, Shp):
                return Tup([Rng(x, x) for x in b.ext])
            if e.attr == 'size' and isinstance(b, Shp) and len(b.ext) == 1:
                return Rng(b.ext[0], b.ext[0])
            if isinstance(e.value, ast.Name) and e.value.id in self.np and e.attr in ('pi', 'inf', 'e'):
                return 'scalar'
            return None
        if isinstance(e, ast.Call):
            return self.call(e, env)
        if isinstance(e, ast.IfExp):
            self.ev(e.test, env)
            return self.join(self.ev(e.body, env), self.ev(e.orelse, env))
        for n in ast.iter_child_nodes(e):
            if isinstance(n, ast.expr):
                self.ev(n, env)
        return None

    def binop(self, op, a, b):
        if isinstance(op, ast.MatMult):
            return self.matmul(a, b)
        if isinstance(a, Rng) and isinstance(b, Rng):
            if isinstance(op, ast.Add):
                return Rng(a.lo + b.lo, a.hi + b.hi)
            if isinstance(op, ast.Sub):
                return Rng(a.lo - b.hi, a.hi - b.lo)
            if isinstance(op, ast.Mult):
                for x, y in ((a, b), (b, a)):
                    if x.lo == x.hi and x.lo.is_const():
                        k = x.lo.c
                        return Rng(y.lo.scale(k), y.hi.scale(k)) if k >= 0 else Rng(y.hi.scale(k), y.lo.scale(k))
                return None
            if isinstance(op, (ast.Div, ast.Pow)):
                return 'scalar'
            return None
        if isinstance(a, Shp) and isinstance(b, Shp):
            return self.broadcast(a, b)
        if isinstance(a, Shp) and (b == 'scalar' or isinstance(b, Rng)):
            return a
        if isinstance(b, Shp) and (a == 'scalar' or isinstance(a, Rng)):
            return b
        if (a == 'scalar' or isinstance(a, Rng)) and (b == 'scalar' or isinstance(b, Rng)):
            return 'scalar'
        return None

    def broadcast(self, a, b):
        ea, eb = list(a.ext), list(b.ext)
        n = max(len(ea), len(eb))
        ea = [Aff(1)] * (n - len(ea)) + ea
        eb = [Aff(1)] * (n - len(eb)) + eb
        out = []
        for x, y in zip(ea, eb):
            if x == y:
                out.append(x)
            elif x == Aff(1):
                out.append(y)
            elif y == Aff(1):
                out.append(x)
            else:
                return None
        return Shp(out)

    def matmul(self, a, b):
        if a == 'scalar' or isinstance(a, Rng):
            return b if isinstance(b, Shp) else ('scalar' if b == 'scalar' else None)
        if b == 'scalar' or isinstance(b, Rng):
            return a if isinstance(a, Shp) else None
        if not (isinstance(a, Shp) and isinstance(b, Shp)):
            return None
        if len(a.ext) == 2 and len(b.ext) == 2:
            return Shp((a.ext[0], b.ext[1]))
        if len(a.ext) == 2 and len(b.ext) == 1:
            return Shp((a.ext[0],))
        if len(a.ext) == 1 and len(b.ext) == 2:
            return Shp((b.ext[1],))
        if len(a.ext) == 1 and len(b.ext) == 1:
            return 'scalar'
        return None

    def shape_arg(self, node, env):
        """shape argument of zeros/ones/reshape: int, tuple of ints, or a .shape tuple"""
        v = self.ev(node, env)
        if isinstance(v, Rng) and v.lo == v.hi:
            return Shp((v.lo,))
        if isinstance(v, Tup) and all(isinstance(x, Rng) and x.lo == x.hi for x in v.items):
            return Shp(tuple(x.lo for x in v.items))
        return None

    def call(self, e, env):
        f = e.func
        args = [self.ev(a, env) for a in e.args]
        for k in e.keywords:
            self.ev(k.value, env)
        name = None
        if isinstance(f, ast.Name):
            name = f.id
        elif isinstance(f, ast.Attribute):
            if isinstance(f.value, ast.Name) and f.value.id in self.np:
                name = 'np.' + f.attr
            elif isinstance(f.value, ast.Attribute) and isinstance(f.value.value, ast.Name) and f.value.value.id in self.np:
                name = 'np.%s.%s' % (f.value.attr, f.attr)
            else:
                recv = self.ev(f.value, env)
                m = f.attr
                if isinstance(recv, Shp):
                    if m in ('copy', 'astype', 'conj', 'conjugate'):
                        return recv
                    if m in ('flatten', 'ravel'):
                        if len(recv.ext) == 1:
                            return recv
                        if all(x.is_const() for x in recv.ext):
                            p = 1
                            for x in recv.ext:
                                p *= x.c
                            return Shp((p,))
                        if len(recv.ext) == 2 and recv.ext[1] == Aff(1):
                            return Shp((recv.ext[0],))
                        return None
                    if m == 'reshape':
                        if len(e.args) == 1:
                            return self.shape_arg(e.args[0], env)
                        sh = [self.ev(a, env) for a in e.args]
                        if all(isinstance(x, Rng) and x.lo == x.hi for x in sh):
                            return Shp(tuple(x.lo for x in sh))
                        return None
                    if m == 'transpose' and not e.args:
                        return Shp(tuple(reversed(recv.ext)))
                    if m == 'dot' and len(args) == 1:
                        return self.matmul(recv, args[0])
                    if m in ('any', 'all', 'sum', 'max', 'min') and not e.args:
                        return 'scalar'
                # calls through a module alias (mr.X / fmr.X): last attribute is the kernel name
                name = m
        if name is None:
            return None
        if name == 'len' and args and isinstance(args[0], Shp) and args[0].ext:
            return Rng(args[0].ext[0], args[0].ext[0])
        if name in ('int', 'float', 'abs', 'min', 'max', 'round') and args:
            if name == 'int' and isinstance(args[0], Rng):
                return args[0]
            if name == 'int' and isinstance(e.args[0], ast.Name):
                s = Aff.sym(e.args[0].id)
                return Rng(s, s)
            if name in ('abs',) and isinstance(args[0], Shp):
                return args[0]
            return 'scalar'
        if name == 'range':
            return None
        if name.startswith('np.'):
            n = name[3:]
            if n in ('zeros', 'ones', 'empty') and e.args:
                return self.shape_arg(e.args[0], env)
            if n == 'arange' and e.args and not any(k.arg in ('start', 'stop', 'step') for k in e.keywords):
                exact = all(isinstance(a_, Rng) and a_.lo == a_.hi for a_ in args[:len(e.args)])
                if exact and len(e.args) == 1:
                    return Shp((args[0].lo,))
                if exact and len(e.args) == 2:
                    return Shp((args[1].lo - args[0].lo,))
                if not exact:
                    # a float-step arange: NumPy computes its length as ceil((stop - start) / step) in floating point and documents that the
                    # result can be one longer / shorter than the exact quotient - an extent of its own, equal to no other expression
                    return Shp((Aff.sym('arange@%d' % e.lineno),))
                return None
            if n in ('eye', 'identity') and e.args:
                v = args[0]
                if isinstance(v, Tup) and len(v.items) == 1:
                    v = v.items[0]
                if isinstance(v, Rng) and v.lo == v.hi:
                    return Shp((v.lo, v.lo))
                return None
            if n in ('array', 'asarray', 'copy', 'transpose') and args:
                if n == 'transpose' and isinstance(args[0], Shp):
                    return Shp(tuple(reversed(args[0].ext)))
                return args[0] if isinstance(args[0], Shp) or args[0] == 'scalar' else None
            if n in ELEMENTWISE and args:
                return args[0] if isinstance(args[0], Shp) else ('scalar' if args[0] in ('scalar',) or isinstance(args[0], Rng) else None)
            if n in ('dot', 'matmul') and len(args) == 2:
                return self.matmul(args[0], args[1])
            if n == 'cross':
                return Shp((3,))
            if n in ('linalg.norm', 'trace', 'linalg.det'):
                return 'scalar'
            if n in ('linalg.pinv',) and args and isinstance(args[0], Shp) and len(args[0].ext) == 2:
                return Shp((args[0].ext[1], args[0].ext[0]))
            if n in ('linalg.inv',) and args:
                return args[0]
            if n == 'linalg.solve' and len(args) == 2:
                return args[1]
            if n in ('sum',) and args and isinstance(args[0], Shp):
                if len(e.args) == 2 or any(k.arg == 'axis' for k in e.keywords):
                    axn = e.args[1] if len(e.args) == 2 else [k.value for k in e.keywords if k.arg == 'axis'][0]
                    if isinstance(axn, ast.Constant) and isinstance(axn.value, int) and 0 <= axn.value < len(args[0].ext):
                        ext = list(args[0].ext)
                        del ext[axn.value]
                        return Shp(ext)
                    return None
                return 'scalar'
            if n in ('hstack', 'vstack', 'concatenate'):
                return None
            return None
        if name in self.callee_contracts:
            # a kernel calling a kernel: a constant extent of the argument must be the constant extent the callee indexes within
            params, contract = self.callee_contracts[name]
            for pi, a in enumerate(args):
                if pi >= len(params) or not isinstance(a, Shp):
                    continue
                want = contract.get(params[pi])
                if not want or not isinstance(want, tuple) or len(want) != len(a.ext):
                    continue
                for d_, (got, w_) in enumerate(zip(a.ext, want)):
                    if isinstance(w_, int) and got.is_const():
                        self.n_slice += 1
                        ok = got.c >= w_
                        self.sites.append(Site(e, 'callarg', ok, '' if ok else
                                               'argument %d of %s has extent %d in dimension %d, but %s indexes it as a %s-element value: it reads %d element(s) past the end'
                                               % (pi, name, got.c, d_, name, w_, w_ - got.c), ast.unparse(e)[:80]))
        if name in self.returns:
            r = self.returns[name]
            if r == 'arg0':
                return args[0] if args else None
            return shape_from_contract(r)
        return None

    # ------------------------------------------------------------------ subscripts
    def subscript(self, e, env, store=False):
        base = self.ev(e.value, env)
        items = e.slice.elts if isinstance(e.slice, ast.Tuple) else [e.slice]
        vals = []
        for it in items:
            if isinstance(it, ast.Slice):
                vals.append(('sl', self.ev(it.lower, env) if it.lower else None, self.ev(it.upper, env) if it.upper else None,
                             it.step))
            else:
                vals.append(self.ev(it, env))
        if isinstance(base, Tup):
            if len(vals) == 1 and isinstance(vals[0], Rng) and vals[0].lo == vals[0].hi and vals[0].lo.is_const():
                k = vals[0].lo.c
                self.n_int += 1
                ok = 0 <= k < len(base.items)
                self.sites.append(Site(e, 'int', ok, 'tuple of %d items indexed with %d' % (len(base.items), k), ast.unparse(e)))
                return base.items[k] if ok else None
            return None
        if not isinstance(base, Shp):
            if any(not isinstance(v, tuple) for v in vals) or vals:
                self.unresolved.append((e, 'shape of %s unknown' % ast.unparse(e.value)[:40]))
            return None
        if len(vals) > len(base.ext):
            self.sites.append(Site(e, 'rank', False, 'value of rank %d indexed with %d subscripts' % (len(base.ext), len(vals)), ast.unparse(e)))
            return None
        out = []
        for k, v in enumerate(vals):
            E = base.ext[k]
            if isinstance(v, tuple) and v[0] == 'sl':
                lo, hi, step = v[1], v[2], v[3]
                self.n_slice += 1
                lo_a = Aff(0) if lo is None else (lo.lo if isinstance(lo, Rng) and lo.lo == lo.hi else None)
                hi_a = E if hi is None else (hi.lo if isinstance(hi, Rng) and hi.lo == hi.hi else None)
                if step is not None or lo_a is None or hi_a is None:
                    if lo is not None and isinstance(lo, Rng) and hi is not None and isinstance(hi, Rng):
                        # bounds are ranges (loop dependent): check hull
                        s_hi = sign(E - hi.hi)
                        if s_hi == 'neg':
                            self.sites.append(Site(e, 'slice', False, 'slice upper bound %r exceeds extent %r' % (hi.hi, E), ast.unparse(e)))
                        out.append(None)
                        continue
                    self.unresolved.append((e, 'slice bound not affine'))
                    out.append(None)
                    continue
                ok = True
                msg = ''
                if sign(lo_a) == 'neg':
                    ok, msg = False, 'negative slice start %r' % lo_a
                s = sign(E - hi_a)
                if s == 'neg':
                    ok, msg = False, 'slice %r:%r reaches beyond extent %r' % (lo_a, hi_a, E)
                elif s == 'unknown':
                    self.unresolved.append((e, 'cannot order slice end %r and extent %r' % (hi_a, E)))
                if sign(hi_a - lo_a) == 'neg':
                    ok, msg = False, 'empty/backward slice %r:%r' % (lo_a, hi_a)
                self.sites.append(Site(e, 'slice', ok, msg, ast.unparse(e)))
                out.append(hi_a - lo_a)
            elif isinstance(v, Rng):
                self.n_int += 1
                ok, msg = True, ''
                s_lo = sign(v.lo)
                s_hi = sign(E - 1 - v.hi)
                if s_lo == 'neg':
                    ok, msg = False, 'index can be %r < 0 (wrap-around is not a contracted use)' % v.lo
                elif s_lo == 'unknown':
                    self.unresolved.append((e, 'cannot show %r >= 0' % v.lo))
                if s_hi == 'neg':
                    ok, msg = False, 'index reaches %r but the extent is %r' % (v.hi, E)
                elif s_hi == 'unknown':
                    w = _witness_negative(E - 1 - v.hi)
                    ar = [k_ for k_, c_ in (E - 1 - v.hi).t.items() if str(k_).startswith('arange@') and c_ < 0]
                    if ar and not any(str(k_).startswith('arange@') for k_ in E.t):
                        ok, msg = False, ('index runs up to %r, where %s is the length of the float-step np.arange of line %s: NumPy computes that length in '
                                          'floating point (ceil((stop - start) / step)) and documents that it can come out one larger than the exact '
                                          'quotient, while the extent here is %r: for such arguments the access is one past the end'
                                          % (v.hi, ar[0], str(ar[0]).split('@')[1], E))
                    elif w is not None:
                        # the extent is a contract symbol: every value >= 1 (>= 0 for slack) is a valid input, and for this one the index is outside
                        ok, msg = False, 'index reaches %r but for %s (a valid input) the extent %r is too small by %s' % (v.hi, w[1], E, w[0])
                    else:
                        self.unresolved.append((e, 'cannot show %r <= %r - 1' % (v.hi, E)))
                self.sites.append(Site(e, 'int', ok, msg, ast.unparse(e)))
            elif v is None:
                self.unresolved.append((e, 'index %s not an affine integer' % ast.unparse(items[k])[:30]))
                # an unknown index still drops (scalar) or keeps (array) the dimension: unknown result
                return None
            elif v == 'scalar':
                self.unresolved.append((e, 'float-typed index'))
                return None
            else:
                return None
        out = [x for x in out]
        rest = list(base.ext[len(vals):])
        if any(x is None for x in out):
            return None
        res = out + rest
        if not res:
            return 'scalar'
        return Shp(res)
