"""Element-flow evaluation: which element of an initializer reaches which slot of a six-vector / pose.

A tiny symbolic evaluator over the statement kinds the transform constructors use (assignments, list literals and
comprehensions over constant ranges, list concatenation, constant indexing, np.array(...), tm([...]) literals, pose products,
.gTAA(), calls of helpers of the same class).  Values:
    ('el', path)         exactly the element root[path...] of the initializer
    ('num', c)           a numeric constant
    ('lst', (v...))      a list / 1-D array with those components
    ('pose', (v0..v5))   tm([v0..v5])        ('prod', (p1, p2, ...))  p1 @ p2 @ ...
    ('gtaa', p)          p.gTAA()            ('slot', p, k)           component k of the six-vector of pose p
    ('tail', path, k)    root[path...][k:]
    ('unk', text)        anything else
No repository code is executed.
"""
import ast

from .model import src


class ElemEval:
    def __init__(self, cls_methods, root, flags=None, cls_name='tm'):
        self.methods = cls_methods          # name -> FunctionDef node
        self.root = root
        self.flags = dict(flags or {})      # name -> bool (boolean parameters with an assumed value)
        self.cls_name = cls_name
        self.stores = {}                    # 'self.<attr>' -> value (last store on the evaluated path)
        self.calls = []                     # (method name, [arg values]) for self.<method>(...) statements

    # ------------------------------------------------------------------ expressions
    def ev(self, e, env, depth=0):
        if isinstance(e, ast.Constant) and isinstance(e.value, (int, float)) and not isinstance(e.value, bool):
            return ('num', e.value)
        if isinstance(e, ast.Constant) and e.value is None:
            return ('none',)
        if isinstance(e, ast.Name):
            if e.id in env:
                return env[e.id]
            if e.id == self.root:
                return ('el', ())
            return ('unk', e.id)
        if isinstance(e, (ast.List, ast.Tuple)):
            return ('lst', tuple(self.ev(x, env, depth) for x in e.elts))
        if isinstance(e, ast.ListComp) and 1 <= len(e.generators) <= 3 and all(not g.ifs and isinstance(g.target, ast.Name) for g in e.generators):
            # comprehension over constant ranges (nested generators: outer loop first), each element evaluated with the counters bound
            envs = [dict(env)]
            for g in e.generators:
                rng = self._const_range(g.iter)
                if rng is None or len(rng) > 16:
                    return ('unk', src(e)[:40])
                nxt = []
                for env_ in envs:
                    for k in rng:
                        env2 = dict(env_)
                        env2[g.target.id] = ('num', k)
                        nxt.append(env2)
                envs = nxt
                if len(envs) > 64:
                    return ('unk', src(e)[:40])
            return ('lst', tuple(self.ev(e.elt, env_, depth) for env_ in envs))
        if isinstance(e, ast.BinOp) and isinstance(e.op, ast.Add):
            a, b = self.ev(e.left, env, depth), self.ev(e.right, env, depth)
            if a[0] == 'lst' and b[0] == 'lst':
                return ('lst', a[1] + b[1])
            if a[0] == 'num' and b[0] == 'num':
                return ('num', a[1] + b[1])
            return ('unk', src(e)[:40])
        if isinstance(e, ast.BinOp) and isinstance(e.op, ast.MatMult):
            a, b = self.ev(e.left, env, depth), self.ev(e.right, env, depth)
            fa = a[1] if a[0] == 'prod' else (a,)
            fb = b[1] if b[0] == 'prod' else (b,)
            if all(x[0] == 'pose' for x in fa + fb):
                return ('prod', fa + fb)
            return ('unk', src(e)[:40])
        if isinstance(e, ast.Subscript):
            base = self.ev(e.value, env, depth)
            sl = e.slice
            idx = None
            if isinstance(sl, ast.Constant) and isinstance(sl.value, int):
                idx = sl.value
            else:
                v = self.ev(sl, env, depth) if not isinstance(sl, ast.Slice) else None
                if v is not None and v[0] == 'num' and float(v[1]).is_integer():
                    idx = int(v[1])
            if idx is not None:
                if base[0] == 'el':
                    return ('el', base[1] + (idx,))
                if base[0] == 'pel' and idx >= 0:
                    return dict(base[2]).get(idx, ('el', base[1] + (idx,)))
                if base[0] == 'lst' and -len(base[1]) <= idx < len(base[1]):
                    return base[1][idx]
                if base[0] in ('pose', 'prod'):
                    return ('slot', base, idx) if base[0] == 'prod' else base[1][idx] if 0 <= idx < 6 else ('unk', src(e))
                if base[0] == 'gtaa':
                    return ('slot', base[1], idx) if base[1][0] == 'prod' else base[1][1][idx]
            if isinstance(sl, ast.Slice) and sl.step is None:
                lo = 0 if sl.lower is None else (sl.lower.value if isinstance(sl.lower, ast.Constant) else None)
                hi = None if sl.upper is None else (sl.upper.value if isinstance(sl.upper, ast.Constant) else 'x')
                if base[0] == 'el' and hi is None and lo is not None:
                    return ('tail', base[1], lo)
                if base[0] == 'el' and isinstance(hi, int) and isinstance(lo, int) and 0 <= lo <= hi <= 16:
                    return ('lst', tuple(('el', base[1] + (k,)) for k in range(lo, hi)))      # x[a:b] with constant bounds: its elements
                if base[0] == 'lst' and lo is not None and hi != 'x':
                    return ('lst', base[1][lo:hi])
            return ('unk', src(e)[:40])
        if isinstance(e, ast.Call):
            f = e.func
            fn = src(f)
            if fn in ('np.array', 'np.asarray', 'numpy.array', 'list', 'tuple') and e.args:
                return self.ev(e.args[0], env, depth)
            if fn in ('np.append', 'numpy.append') and len(e.args) == 2 and not e.keywords:
                a, b = self.ev(e.args[0], env, depth), self.ev(e.args[1], env, depth)
                return ('lst', a[1] + b[1]) if a[0] == 'lst' and b[0] == 'lst' else ('unk', src(e)[:40])
            if fn in ('np.concatenate', 'np.hstack', 'numpy.concatenate', 'numpy.hstack') and len(e.args) == 1 and not e.keywords \
                    and isinstance(e.args[0], (ast.Tuple, ast.List)):
                parts = [self.ev(x, env, depth) for x in e.args[0].elts]
                if parts and all(p_[0] == 'lst' for p_ in parts):
                    return ('lst', tuple(x for p_ in parts for x in p_[1]))
                return ('unk', src(e)[:40])
            if fn == self.cls_name and len(e.args) == 1:
                a = self.ev(e.args[0], env, depth)
                if a[0] == 'lst' and len(a[1]) == 6:
                    return ('pose', a[1])
                return ('unk', src(e)[:40])
            if isinstance(f, ast.Attribute) and f.attr == 'gTAA' and not e.args:
                a = self.ev(f.value, env, depth)
                return ('gtaa', a) if a[0] in ('pose', 'prod') else ('unk', src(e)[:40])
            if isinstance(f, ast.Attribute) and f.attr in ('flatten', 'copy', 'reshape', 'astype', 'ravel', 'squeeze'):
                return self.ev(f.value, env, depth)
            # helper of the same class:  self._h(...), tm._h(...), cls._h(...)
            if isinstance(f, ast.Attribute) and isinstance(f.value, ast.Name) and f.value.id in ('self', 'cls', self.cls_name) and f.attr in self.methods and depth < 4:
                return self.call_method(f.attr, [self.ev(a, env, depth) for a in e.args], depth + 1)
            return ('unk', src(e)[:40])
        return ('unk', src(e)[:40])

    @staticmethod
    def _const_range(it):
        if isinstance(it, ast.Call) and isinstance(it.func, ast.Name) and it.func.id == 'range' and 1 <= len(it.args) <= 3 \
                and all(isinstance(a, ast.Constant) and isinstance(a.value, int) for a in it.args):
            return range(*[a.value for a in it.args])
        return None

    def call_method(self, name, argvals, depth):
        fn = self.methods[name]
        params = [a.arg for a in fn.args.args]
        is_static = any(src(d) in ('staticmethod',) for d in fn.decorator_list)
        if not is_static and params and params[0] in ('self', 'cls'):
            params = params[1:]
        env = {p: v for p, v in zip(params, argvals)}
        sub = ElemEval(self.methods, '\0none', self.flags, self.cls_name)
        r = sub.block(fn.body, env, depth)
        return r if r is not None else ('unk', 'call ' + name)

    # ------------------------------------------------------------------ statements
    def _none_test(self, test, env, depth):
        """truth of `x is None` / `x is not None` / `x == None` for a local whose value is known; None otherwise"""
        t, neg = test, False
        while isinstance(t, ast.UnaryOp) and isinstance(t.op, ast.Not):
            t, neg = t.operand, not neg
        if isinstance(t, ast.Compare) and len(t.ops) == 1 and isinstance(t.comparators[0], ast.Constant) and t.comparators[0].value is None \
                and isinstance(t.ops[0], (ast.Is, ast.IsNot, ast.Eq, ast.NotEq)) and isinstance(t.left, ast.Name) and t.left.id in env:
            v = env[t.left.id]
            if v[0] == 'unk':
                return None
            r = (v[0] == 'none') == isinstance(t.ops[0], (ast.Is, ast.Eq))
            return (not r) if neg else r
        return None

    def decide(self, test):
        """truth of a test over the assumed boolean flags; None when it is not such a test"""
        t, neg = test, False
        while isinstance(t, ast.UnaryOp) and isinstance(t.op, ast.Not):
            t, neg = t.operand, not neg
        v = None
        if isinstance(t, ast.Name) and t.id in self.flags:
            v = self.flags[t.id]
        elif isinstance(t, ast.Compare) and len(t.ops) == 1 and isinstance(t.left, ast.Name) and t.left.id in self.flags \
                and isinstance(t.comparators[0], ast.Constant) and isinstance(t.comparators[0].value, bool):
            eq = isinstance(t.ops[0], (ast.Eq, ast.Is))
            ne = isinstance(t.ops[0], (ast.NotEq, ast.IsNot))
            if eq or ne:
                v = (self.flags[t.left.id] == t.comparators[0].value) == eq
        if v is None:
            return None
        return (not v) if neg else v

    def block(self, stmts, env, depth=0):
        """-> value of a `return` reached on the evaluated path, else None; env / self.stores / self.calls are updated"""
        for st in stmts:
            if isinstance(st, ast.Expr) and isinstance(st.value, ast.Constant):
                continue
            if isinstance(st, ast.Assign) and len(st.targets) == 1:
                t = st.targets[0]
                v = self.ev(st.value, env, depth)
                if isinstance(t, ast.Name):
                    env[t.id] = v
                    # a local that holds a fresh copy of (a part of) the argument: element stores into it are followed (see 'pel')
                    fresh = getattr(self, '_fresh_locals', None)
                    if fresh is None:
                        fresh = self._fresh_locals = set()
                    fresh.discard(t.id)
                    if v[0] == 'el' and any(isinstance(c_, ast.Call) and (src(c_.func) in ('np.array', 'numpy.array', 'np.copy', 'numpy.copy', 'copy.copy', 'copy.deepcopy')
                                                                         or (isinstance(c_.func, ast.Attribute) and c_.func.attr in ('copy', 'astype', 'flatten')))
                                            for c_ in ast.walk(st.value)):
                        fresh.add(t.id)
                elif isinstance(t, (ast.Tuple, ast.List)) and all(isinstance(x, ast.Name) for x in t.elts):
                    for i, x in enumerate(t.elts):
                        env[x.id] = v[1][i] if v[0] == 'lst' and len(v[1]) == len(t.elts) else ('unk', src(st.value)[:30])
                elif isinstance(t, ast.Attribute) and isinstance(t.value, ast.Name) and t.value.id == 'self':
                    self.stores['self.' + t.attr] = v
                elif isinstance(t, ast.Subscript):
                    # an in-place store changes the value the base holds: one element of a known list, otherwise everything known about it
                    b = t.value
                    while isinstance(b, ast.Subscript):
                        b = b.value
                    if isinstance(b, ast.Name):
                        cur = env.get(b.id)
                        k = t.slice.value if isinstance(t.slice, ast.Constant) and isinstance(t.slice.value, int) and t.value is b else None
                        if k is None and t.value is b and not isinstance(t.slice, (ast.Slice, ast.Tuple)):
                            kv = self.ev(t.slice, env, depth)
                            k = kv[1] if kv[0] == 'num' and isinstance(kv[1], int) else None
                        if cur is not None and cur[0] == 'lst' and k is not None and -len(cur[1]) <= k < len(cur[1]):
                            items = list(cur[1])
                            items[k] = v
                            env[b.id] = ('lst', tuple(items))
                        elif cur is not None and cur[0] in ('el', 'pel') and k is not None and k >= 0 and b.id in getattr(self, '_fresh_locals', ()):
                            # a copy of the argument with some elements replaced: ('pel', path, ((index, value), ...))
                            patches = dict(cur[2]) if cur[0] == 'pel' else {}
                            patches[k] = v
                            env[b.id] = ('pel', cur[1], tuple(sorted(patches.items())))
                        else:
                            env[b.id] = ('unk', 'stored into in place: ' + src(st)[:30])
                    elif isinstance(b, ast.Attribute) and isinstance(b.value, ast.Name) and b.value.id == 'self' and ('self.' + b.attr) in self.stores:
                        self.stores['self.' + b.attr] = ('unk', 'stored into in place: ' + src(st)[:30])
                continue
            if isinstance(st, ast.AugAssign):
                b = st.target
                while isinstance(b, ast.Subscript):
                    b = b.value
                if isinstance(b, ast.Name):
                    env[b.id] = ('unk', src(st)[:30])
                elif isinstance(b, ast.Attribute) and isinstance(b.value, ast.Name) and b.value.id == 'self' and ('self.' + b.attr) in self.stores:
                    self.stores['self.' + b.attr] = ('unk', src(st)[:30])
                continue
            if isinstance(st, ast.Expr) and isinstance(st.value, ast.Call):
                f = st.value.func
                if isinstance(f, ast.Attribute) and isinstance(f.value, ast.Name) and f.value.id == 'self':
                    self.calls.append((f.attr, [self.ev(a, env, depth) for a in st.value.args], st))
                elif isinstance(f, ast.Attribute) and isinstance(f.value, ast.Name) and f.value.id in env:
                    # a method called on a tracked local: list growth is followed, any other mutation forgets the value
                    cur = env[f.value.id]
                    if f.attr == 'append' and len(st.value.args) == 1 and cur[0] == 'lst':
                        env[f.value.id] = ('lst', cur[1] + (self.ev(st.value.args[0], env, depth),))
                    elif f.attr == 'extend' and len(st.value.args) == 1 and cur[0] == 'lst' and self.ev(st.value.args[0], env, depth)[0] == 'lst':
                        env[f.value.id] = ('lst', cur[1] + self.ev(st.value.args[0], env, depth)[1])
                    elif f.attr in ('append', 'extend', 'insert', 'pop', 'remove', 'clear', 'sort', 'reverse', 'fill', 'resize', 'put', 'itemset'):
                        env[f.value.id] = ('unk', 'changed by .%s()' % f.attr)
                continue
            if isinstance(st, ast.If):
                d = self.decide(st.test)
                if d is None:
                    d = self._none_test(st.test, env, depth)
                if d is True:
                    r = self.block(st.body, env, depth)
                elif d is False:
                    r = self.block(st.orelse, env, depth)
                else:
                    # undecided: both branches, values that differ become unknown
                    e1, e2 = dict(env), dict(env)
                    s0 = dict(self.stores)
                    r1 = self.block(st.body, e1, depth)
                    s1 = dict(self.stores)
                    self.stores = dict(s0)
                    r2 = self.block(st.orelse, e2, depth)
                    s2 = dict(self.stores)
                    for k in set(e1) | set(e2):
                        env[k] = e1.get(k) if e1.get(k) == e2.get(k) else ('unk', 'branch-dependent ' + k)
                    self.stores = {k: (s1.get(k) if s1.get(k) == s2.get(k) else ('unk', 'branch-dependent')) for k in set(s1) | set(s2)}
                    r = r1 if r1 == r2 else (None if r1 is None and r2 is None else ('unk', 'branch-dependent return'))
                if r is not None:
                    return r
                continue
            if isinstance(st, ast.Return):
                v = st.value
                if isinstance(v, ast.Call) and isinstance(v.func, ast.Attribute) and isinstance(v.func.value, ast.Name) and v.func.value.id == 'self' \
                        and depth == 0:
                    self.calls.append((v.func.attr, [self.ev(a, env, depth) for a in v.args], st))
                    return ('unk', 'result of self.' + v.func.attr)
                return self.ev(st.value, env, depth) if st.value is not None else ('num', None)
            if isinstance(st, (ast.Pass,)):
                continue
            if isinstance(st, ast.For) and isinstance(st.target, ast.Name) and not st.orelse:
                items = None
                if isinstance(st.iter, (ast.Tuple, ast.List)):
                    items = [self.ev(x, env, depth) for x in st.iter.elts]
                else:
                    rng = self._const_range(st.iter)
                    if rng is not None and len(rng) <= 16:
                        items = [('num', k) for k in rng]
                    else:
                        v = self.ev(st.iter, env, depth)
                        if v[0] == 'lst' and len(v[1]) <= 16:
                            items = list(v[1])
                if items is not None and not any(isinstance(n, (ast.Break, ast.Continue)) for n in ast.walk(st)):
                    r = None
                    for it in items:
                        env[st.target.id] = it
                        r = self.block(st.body, env, depth)
                        if r is not None:
                            return r
                    continue
            # anything else: forget what it binds
            for n in ast.walk(st):
                if isinstance(n, ast.Name) and isinstance(n.ctx, ast.Store):
                    env[n.id] = ('unk', 'bound in ' + type(st).__name__)
        return None


def show(v):
    if not isinstance(v, tuple):
        return str(v)
    k = v[0]
    if k == 'el':
        return 'x' + ''.join('[%d]' % i for i in v[1])
    if k == 'num':
        return repr(v[1])
    if k == 'none':
        return 'None'
    if k == 'lst':
        return '[' + ', '.join(show(x) for x in v[1]) + ']'
    if k == 'pose':
        return 'tm(' + show(('lst', v[1])) + ')'
    if k == 'prod':
        return ' @ '.join(show(x) for x in v[1])
    if k == 'gtaa':
        return '(' + show(v[1]) + ').gTAA()'
    if k == 'slot':
        return '(' + show(v[1]) + ')[%d]' % v[2]
    if k == 'tail':
        return 'x' + ''.join('[%d]' % i for i in v[1]) + '[%d:]' % v[2]
    return '?' + str(v[1])
