"""Positive control for R03.3 (never imported, only parsed): three external writers of tm payload."""


def poke_matrix(t):
    t.TM[0, 3] = 1.0          # element store through the attribute


def replace_vector(robot, v):
    robot.pose.TAA = v        # whole-field store on a nested receiver


def through_view(t):
    p = t.TAA[0:3]            # view ...
    p[0] = 99                 # ... written through
