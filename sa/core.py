"""Check protocol: obligations, findings, known-findings file, evidence, exit codes."""
import json
import os
import sys
import time
import traceback

from .engine.model import Model, AnalysisError

VERIF = os.path.dirname(os.path.dirname(os.path.abspath(__file__)))
KNOWN_FILE = os.path.join(VERIF, 'known_findings.json')


def repo_root():
    return os.environ.get('VERIF_REPO', '/repo')


class Obligation:
    __slots__ = ('rule', 'module', 'qualname', 'construct', 'ok', 'msg', 'line', 'nontrivial')

    def __init__(self, rule, module, qualname, construct, ok, msg, line, nontrivial):
        self.rule = rule
        self.module = module
        self.qualname = qualname
        self.construct = construct
        self.ok = ok
        self.msg = msg
        self.line = line
        self.nontrivial = nontrivial

    def key(self):
        return {'module': self.module, 'qualname': self.qualname, 'construct': self.construct}

    def as_dict(self):
        return {'rule': self.rule, 'module': self.module, 'qualname': self.qualname,
                'construct': self.construct, 'ok': self.ok, 'msg': self.msg, 'line': self.line}


class Report:
    """Collects obligations for one property run."""

    def __init__(self, pid, tier, seed, level='other'):
        self.pid = pid
        self.tier = tier
        self.seed = seed
        self.level = level
        self.obligations = []
        self.notes = []
        self.rules = {}          # rule id -> text
        self.counts = {}         # free-form measured counts (functions, call sites, ...)
        self.unresolved = []     # constructs the analysis could not type (silent by design)
        self.assumptions = []
        self.trusted_base = []
        self.extra = {}
        self.selftest = None
        self.floor_errors = []
        self.t0 = time.time()

    # -- declaring
    def rule(self, rid, text):
        self.rules[rid] = text

    def count(self, name, n=1):
        self.counts[name] = self.counts.get(name, 0) + n

    def note(self, text):
        self.notes.append(text)

    def unresolved_item(self, rule, where, what):
        self.unresolved.append({'rule': rule, 'where': where, 'what': what})

    def ob(self, rule, fi_or_mod, construct, ok, msg='', line=None, nontrivial=True, qualname=None, shape=False):
        """Record an obligation.  fi_or_mod: FuncInfo or module relpath string.
        shape=True marks an obligation whose failure means 'the rule does not recognise how this is written any more', not
        'the code is wrong': such a failure is reported as an analysis error (exit 2, no verdict), never as a violation."""
        if shape and not ok:
            where = fi_or_mod.where if hasattr(fi_or_mod, 'where') else str(fi_or_mod)
            self.floor_errors.append('%s: construct not recognised at %s (%s): %s' % (rule, where, construct, msg))
            return None
        if hasattr(fi_or_mod, 'qualname'):
            module = fi_or_mod.module.relpath
            qn = fi_or_mod.qualname
            if line is None:
                line = fi_or_mod.node.lineno
        else:
            module = fi_or_mod
            qn = qualname or ''
        o = Obligation(rule, module, qn, construct, bool(ok), msg, line, nontrivial)
        self.obligations.append(o)
        return o

    def floor(self, rule, what, measured, minimum):
        """Instance floor: fewer rule instances than were confirmed by hand is an analysis error."""
        self.counts['%s:%s' % (rule, what)] = measured
        if measured < minimum:
            # deferred: a definite violation found elsewhere in the same run takes precedence over exit 2
            self.floor_errors.append('%s: rule lost its instances: %s = %d < floor %d (anchor code moved or '
                                     'was restructured beyond what the rule recognises)' % (rule, what, measured, minimum))


def load_known():
    if not os.path.exists(KNOWN_FILE):
        return []
    with open(KNOWN_FILE) as f:
        return json.load(f).get('findings', [])


def match_known(known, pid, ob):
    for k in known:
        if k.get('property') != pid or k.get('status') != 'known':
            continue
        if k.get('rule') != ob.rule:
            continue
        kk = k.get('key', {})
        if kk.get('module') == ob.module and kk.get('qualname') == ob.qualname and kk.get('construct') == ob.construct:
            return k
    return None


def finish(rep, replay=None):
    """Print summary, write evidence, return exit code."""
    pid = rep.pid
    known = load_known()
    failed = [o for o in rep.obligations if not o.ok]
    kf, viol = [], []
    for o in failed:
        k = match_known(known, pid, o)
        (kf if k else viol).append((o, k))
    n = len(rep.obligations)
    distinct = len({(o.rule, o.module, o.qualname, o.construct) for o in rep.obligations if o.nontrivial})
    by_rule = {}
    for o in rep.obligations:
        by_rule.setdefault(o.rule, [0, 0])
        by_rule[o.rule][0] += 1
        by_rule[o.rule][1] += 1 if o.ok else 0
    for rid in sorted(by_rule):
        tot, okc = by_rule[rid]
        print('%s %s: %d obligations, %d discharged -- %s' % (pid, rid, tot, okc, rep.rules.get(rid, '')))
    for name in sorted(rep.counts):
        print('%s analysed %s = %s' % (pid, name, rep.counts[name]))
    if rep.unresolved:
        print('%s unresolved (silent by design): %d constructs' % (pid, len(rep.unresolved)))
    for t in rep.notes:
        print('%s note: %s' % (pid, t))
    for o, k in kf:
        print('KNOWN-FINDING: property=%s %s %s:%s %s -- %s' % (pid, o.rule, o.module, o.qualname, o.construct, o.msg))
    vfiles = []
    evdir = os.path.join(VERIF, 'evidence')
    os.makedirs(evdir, exist_ok=True)
    # remove stale violation files of this property
    for fn in os.listdir(evdir):
        if fn.startswith(pid + '.violation.'):
            try:
                os.remove(os.path.join(evdir, fn))
            except OSError:
                pass
    for i, (o, _) in enumerate(viol):
        path = os.path.join(evdir, '%s.violation.%d.json' % (pid, i))
        with open(path, 'w') as f:
            json.dump({'property': pid, 'finding': o.as_dict(), 'key': o.key(),
                       'repo': repo_root(), 'tier': rep.tier}, f, indent=1)
        vfiles.append(path)
        print('FINDING %s %s %s:%s line %s: %s -- %s' % (pid, o.rule, o.module, o.qualname, o.line, o.construct, o.msg))
        print('VIOLATION property=%s replay=%s' % (pid, path))
    # evidence
    samples = [o.as_dict() for o in rep.obligations[:6]]
    # add one sample per rule for readability
    seen = {s['rule'] for s in samples}
    for o in rep.obligations:
        if o.rule not in seen:
            samples.append(o.as_dict())
            seen.add(o.rule)
    cov = {
        'explanation': rep.extra.pop('explanation', 'static analysis of the source under %s' % repo_root()),
        'evaluations': n,
        'distinct_nontrivial': distinct,
        'rule': 'one evaluation = one obligation (rule instance at a resolved construct); distinct = distinct '
                '(rule, module, qualname, construct); non-trivial = the rule actually matched code (not vacuous)',
        'obligations': n,
        'discharged': n - len(failed),
        'known_findings': [o.as_dict() for o, _ in kf],
        'violations': [o.as_dict() for o, _ in viol],
        'rules': rep.rules,
        'per_rule': {r: {'obligations': v[0], 'discharged': v[1]} for r, v in by_rule.items()},
        'analysed': rep.counts,
        'unresolved': rep.unresolved[:50],
        'unresolved_count': len(rep.unresolved),
        'samples': samples,
        'functions': sorted({'%s:%s' % (o.module, o.qualname) for o in rep.obligations if o.module and o.qualname}),
        'trusted_base': rep.trusted_base,
        'exhaustive': True,
        'notes': rep.notes,
    }
    if rep.selftest is not None:
        cov['selftest'] = rep.selftest
    cov.update(rep.extra)
    ev = {
        'property_id': pid,
        'tier': rep.tier,
        'seed': rep.seed,
        'level': rep.level,
        'coverage': cov,
        'assumptions': rep.assumptions,
        'wall_s': round(time.time() - rep.t0, 3),
        'violations': len(viol),
    }
    if os.environ.get('VERIF_NO_EVIDENCE') != '1':
        with open(os.path.join(evdir, pid + '.json'), 'w') as f:
            json.dump(ev, f, indent=1, sort_keys=True)
    print('%s: %d obligations, %d discharged, %d known findings, %d violations (%.2fs, tier %s)' % (
        pid, n, n - len(failed), len(kf), len(viol), time.time() - rep.t0, rep.tier))
    if viol:
        for fe in rep.floor_errors:
            print('%s note (instance floor): %s' % (pid, fe))
        return 1
    if rep.floor_errors:
        for fe in rep.floor_errors:
            print('ANALYSIS-ERROR property=%s %s' % (pid, fe))
        return 2
    return 0


def run_property(pid, tier, seed, quiet=False):
    """Run the rule module of a property against the tree; returns (exit_code, Report)."""
    from . import rules
    mod = rules.load(pid)
    model = Model(repo_root())
    rep = Report(pid, tier, seed, getattr(mod, 'LEVEL', 'other'))
    mod.check(model, rep)
    return rep


def main(argv=None):
    import argparse
    ap = argparse.ArgumentParser()
    ap.add_argument('pid')
    ap.add_argument('--tier', default='quick', choices=['quick', 'thorough'])
    ap.add_argument('--replay')
    args = ap.parse_args(argv)
    tier = os.environ.get('VERIF_TIER') or args.tier
    if tier not in ('quick', 'thorough'):
        tier = args.tier
    try:
        seed = int(os.environ.get('VERIF_SEED', '0'))
    except ValueError:
        seed = 0
    pid = args.pid
    try:
        rep = run_property(pid, tier, seed)
        if tier == 'thorough':
            from . import selftest
            selftest.run(pid, rep, seed)
        if args.replay:
            with open(args.replay) as f:
                want = json.load(f)['key']
            hit = [o for o in rep.obligations if not o.ok and o.key() == want]
            if hit:
                for o in hit:
                    print('REPLAY reproduced: %s %s:%s %s -- %s' % (o.rule, o.module, o.qualname, o.construct, o.msg))
                    print('VIOLATION property=%s replay=%s' % (pid, args.replay))
                return 1
            print('REPLAY: finding no longer present')
            return 0
        return finish(rep)
    except AnalysisError as e:
        print('ANALYSIS-ERROR property=%s %s' % (pid, e))
        return 2
    except Exception:  # noqa
        print('ANALYSIS-ERROR property=%s internal error' % pid)
        traceback.print_exc()
        return 2


if __name__ == '__main__':
    sys.exit(main())
