from . import V

A = 'basic_robotics/kinematics/arm_model.py'
VARIANTS = [
    V('axis-default-removed', A, ("new_element.axis = np.array([1.0, 0.0, 0.0])\n        new_element.xyz_origin = tm()", "new_element.xyz_origin = tm()"), 'fire', 'joint.axis'),
    V('rpy-order-xyz', A, ("cg_origin_tm = cg_origin_tm @ tm([0, 0, 0, 0, 0, cg_origin_rpy[2]])\n                cg_origin_tm = cg_origin_tm @ tm([0, 0, 0, 0, cg_origin_rpy[1], 0])\n                #cg_origin_rpy[0], cg_origin_rpy[1], cg_origin_rpy[2]\n                cg_origin_tm = cg_origin_tm @ tm([0, 0, 0, cg_origin_rpy[0], 0, 0])", "cg_origin_tm = cg_origin_tm @ tm([0, 0, 0, cg_origin_rpy[0], 0, 0])\n                cg_origin_tm = cg_origin_tm @ tm([0, 0, 0, 0, cg_origin_rpy[1], 0])\n                #cg_origin_rpy[0], cg_origin_rpy[1], cg_origin_rpy[2]\n                cg_origin_tm = cg_origin_tm @ tm([0, 0, 0, 0, 0, cg_origin_rpy[2]])"), 'fire', 'completeJointParse'),
    V('names-appended-for-fixed', A, ("prev_joints_to_next_joints.append(temp_element.xyz_origin) # Fixed Joints are still origins", "prev_joints_to_next_joints.append(temp_element.xyz_origin) # Fixed Joints are still origins\n                joint_names.append(temp_element.name)"), 'fire', 'link / fixed joint'),
    V('arrind-not-advanced', A, ("temp_element = mostChildren(temp_element)\n        arrind+=1", "temp_element = mostChildren(temp_element)"), 'fire', 'moving joint'),
    V('screw-order-swapped', A, ("screw_list[0:6, i] = np.hstack((\n            joint_axes[0:3, i],\n            np.cross(joint_homes[0:3, i], joint_axes[0:3, i])))\n\n    base_offset", "screw_list[0:6, i] = np.hstack((\n            joint_axes[0:3, i],\n            np.cross(joint_axes[0:3, i], joint_homes[0:3, i])))\n\n    base_offset"), 'fire', 'screw_i'),
    V('rpy-default-missing', A, ("if r_org_urdf is not None:\n            r_origin = r_org_urdf.split()\n        else:\n            r_origin = [0, 0, 0]", "r_origin = r_org_urdf.split()"), 'fire', 'extractOrigin'),
    V('limits-swapped', A, ("new_element.joint_limits[0] = child.get('lower')\n                new_element.joint_limits[1] = child.get('upper')", "new_element.joint_limits[0] = child.get('upper')\n                new_element.joint_limits[1] = child.get('lower')"), 'fire', 'limits'),
    V('axis-not-rotated', A, ("joint_axes[0:3, arrind] = determineAxis(joint_poses[-1], temp_element.axis)", "joint_axes[0:3, arrind] = temp_element.axis"), 'fire', 'axis_i'),
    V('fixed-joint-not-folded', A, ("joint_poses[-1] = joint_poses[-1] @ temp_element.xyz_origin\n                eef_to_last_joint", "eef_to_last_joint"), 'fire', 'fixed joints are folded'),
    V('wrong-column', A, ("joint_homes[0:3, arrind] = joint_poses[-1][0:3].flatten()", "joint_homes[0:3, arrind-1] = joint_poses[-1][0:3].flatten()"), 'fire', 'moving joint'),
    V('mins-maxs-swapped-at-arm', A, ("arm.setJointProperties(np.array(joint_mins), np.array(joint_maxs),", "arm.setJointProperties(np.array(joint_maxs), np.array(joint_mins),"), 'fire', 'limits passed'),
    V('count-includes-fixed', A, ("if temp_element.type == 'joint' and temp_element.sub_type != 'fixed':\n            num_dof += 1", "if temp_element.type == 'joint':\n            num_dof += 1"), 'fire', 'complementary'),
    # benign
    V('benign-default-before-name', A, ("new_element.axis = np.array([1.0, 0.0, 0.0])\n        new_element.xyz_origin = tm()", "new_element.xyz_origin = tm()\n        new_element.axis = np.array([1.0, 0.0, 0.0])"), 'silent'),
    V('benign-comment-removed', A, ("#cg_origin_rpy[0], cg_origin_rpy[1], cg_origin_rpy[2]\n", ""), 'silent'),
]
