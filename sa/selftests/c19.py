from . import V

F = 'basic_robotics/interfaces/comms_core.py'
VARIANTS = [
    V('drop-none-guard', F, ("if rx_data is None:\n                return None\n", ""), 'fire', 'Comms.getData'),
    V('guard-only-forwarding', F, ("if rx_data is None:\n                return None\n            if name in self.forwarding:", "if name in self.forwarding and rx_data is not None:"), 'fire', 'destination_function(rx_data)'),
    V('dup-path-returns-true', F, ("self.forwarding[input_name].append(output_com)\n                return True\n            return False", "self.forwarding[input_name].append(output_com)\n                return True\n            return True"), 'fire', 'Comms.setForwardData'),
    V('append-without-membership', F, ("if output_handle not in self.output_functions[input_name]:\n                self.output_functions[input_name].append(output_handle)\n                return True\n            return False", "self.output_functions[input_name].append(output_handle)\n            return True"), 'fire', 'Comms.setDataSink'),
    V('forward-wrong-key', F, ("for destination in self.forwarding[name]:", "for destination in self.forwarding[destination_name]:"), 'fire', 'Comms.getData'),
    V('clobber-existing-list', F, ("if input_handle not in self.input_functions[output_name]:\n                self.input_functions[output_name].append(input_handle)\n                return True\n            return False\n        else:\n            self.input_functions[output_name] = [input_handle]", "if input_handle not in self.input_functions[output_name]:\n                self.input_functions[output_name] = [input_handle]\n                return True\n            return False\n        else:\n            self.input_functions[output_name] = [input_handle]"), 'fire', 'Comms.setDataSource'),
    V('delete-reports-false', F, ("self.forwarding[input_name].remove(output_com)\n            return True", "self.forwarding[input_name].remove(output_com)\n            return False"), 'fire', 'Comms.deleteForwardingRule'),
    V('double-send', F, ("destination.sendData(rx_data)", "destination.sendData(rx_data)\n                    destination.sendData(rx_data)"), 'fire', 'Comms.getData'),
    V('spin-source-wrong-endpoint', F, ("for function in self.input_functions[name]:\n                    this_com.sendData(function())", "for function in self.input_functions[name]:\n                    self.getCom(function.__name__).sendData(function())"), 'fire', 'Comms._single_spin'),
    V('external-table-writer', F, ("def closeAll(self) -> None:", "def clearRules(self) -> None:\n        self.forwarding.clear()\n\n    def closeAll(self) -> None:"), 'fire', 'Comms.clearRules'),
    V('sink-gets-name-not-data', F, ("destination_function(rx_data)", "destination_function(name)"), 'fire', 'Comms.getData'),
    # benign twins
    V('benign-nested-guard', F, ("if rx_data is None:\n                return None\n            if name in self.forwarding:\n                for destination in self.forwarding[name]:\n                    destination.sendData(rx_data)\n            if name in self.output_functions:\n                for destination_function in self.output_functions[name]:\n                    destination_function(rx_data)",
                                 "if rx_data is not None:\n                if name in self.forwarding:\n                    for destination in self.forwarding[name]:\n                        destination.sendData(rx_data)\n                if name in self.output_functions:\n                    for destination_function in self.output_functions[name]:\n                        destination_function(rx_data)"), 'silent'),
    V('benign-result-variable', F, ("self.forwarding[input_name].remove(output_com)\n            return True\n        return False", "self.forwarding[input_name].remove(output_com)\n            removed = True\n            return removed\n        return False"), 'silent'),
    V('benign-rename-loopvar', F, ("for destination in self.forwarding[name]:\n                    destination.sendData(rx_data)", "for dest in self.forwarding[name]:\n                    dest.sendData(rx_data)"), 'silent'),
]
