"""Thorough tier: both-ways self-test of the checkers on scratch variants of the CURRENT tree.

A variant = one or more textual edits (whitespace-insensitive anchors) applied to a scratch
copy of /repo's python sources (outside /repo and /verif, removed afterwards).  `fire`
variants must make the property's check report a violation that mentions `mention`;
`silent` variants (benign twins) must leave it silent.  A variant whose anchor text is
no longer present in the tree is skipped with a note (nothing frozen is compared with the
source).  A self-test miss means the checker is broken: AnalysisError (exit 2), never a
VIOLATION of the property.
"""
import concurrent.futures as cf
import importlib
import os
import random
import re
import shutil
import subprocess
import sys
import tempfile

from ..engine.model import AnalysisError
from ..core import VERIF, repo_root


class V:
    def __init__(self, name, file, edits, expect='fire', mention=None, rule=None):
        self.name = name
        self.file = file
        self.edits = edits if isinstance(edits, list) else [edits]
        self.expect = expect
        self.mention = mention
        self.rule = rule


class W:
    """Whole-tree benign twin: a behaviour-preserving transformation of every source file (sa/selftests/benign.py)."""
    expect = 'silent'
    mention = None
    rule = None
    file = None

    def __init__(self, mode):
        self.mode = mode
        self.name = 'benign-tree-' + mode


class S:
    """An independently seeded breaking change kept under /verif/seeded/<name>/patch.diff: must make the check fire."""
    expect = 'fire'
    mention = None
    rule = None
    file = None

    def __init__(self, name, patch):
        self.name = 'seed-' + name
        self.patch = patch


class B:
    """An independently written behaviour-preserving refactor kept under /verif/benign/<name>/patch.diff (probe output identical,
    baseline tests pass): every check must stay silent on it."""
    expect = 'silent'
    mention = None
    rule = None
    file = None

    def __init__(self, name, patch):
        self.name = 'benign-refactor-' + name
        self.patch = patch


def _rx(old):
    parts = [re.escape(p) for p in old.split()]
    return re.compile(r'\s+'.join(parts))


def apply_edits(text, edits):
    for old, new in edits:
        rx = _rx(old)
        ms = list(rx.finditer(text))
        if len(ms) != 1:
            return None, 'anchor %r matched %d times' % (old[:50], len(ms))
        m = ms[0]
        # the anchor is matched from its first to its last token: leading / trailing blank space that `old` and `new` share is not part of
        # the replacement
        lead = old[:len(old) - len(old.lstrip())]
        if lead and new.startswith(lead):
            new = new[len(lead):]
        trail = old[len(old.rstrip()):]
        if trail and new.endswith(trail):
            new = new[:len(new) - len(trail)]
        text = text[:m.start()] + new + text[m.end():]
    return text, None


def copy_tree(dst):
    root = repo_root()
    srcpkg = os.path.join(root, 'basic_robotics')
    for dirpath, dirnames, filenames in os.walk(srcpkg):
        dirnames[:] = [d for d in dirnames if d != '__pycache__']
        rel = os.path.relpath(dirpath, root)
        os.makedirs(os.path.join(dst, rel), exist_ok=True)
        for fn in filenames:
            if fn.endswith('.py'):
                shutil.copy2(os.path.join(dirpath, fn), os.path.join(dst, rel, fn))


def run_variant(pid, v, base):
    d = tempfile.mkdtemp(prefix='vsa_%s_' % pid, dir=base)
    try:
        copy_tree(d)
        if isinstance(v, (S, B)):
            p = subprocess.run(['git', 'apply', '--whitespace=nowarn', v.patch], cwd=d, capture_output=True, text=True)
            if p.returncode != 0:
                return ('skip', 'patch no longer applies: ' + (p.stderr or p.stdout).strip()[:120], '')
            return _run_check(pid, v, d)
        if isinstance(v, W):
            from .benign import transform
            n = 0
            for dirpath, dirnames, filenames in os.walk(os.path.join(d, 'basic_robotics')):
                for fn in filenames:
                    if fn.endswith('.py'):
                        fp = os.path.join(dirpath, fn)
                        with open(fp, encoding='utf-8') as f:
                            text = f.read()
                        try:
                            new = transform(text, v.mode, None)
                        except SyntaxError:
                            continue
                        with open(fp, 'w', encoding='utf-8') as f:
                            f.write(new)
                        n += 1
            if not n:
                return ('skip', 'no file could be transformed', '')
            return _run_check(pid, v, d)
        path = os.path.join(d, v.file)
        if not os.path.exists(path):
            return ('skip', 'file vanished: ' + v.file, '')
        with open(path, encoding='utf-8') as f:
            text = f.read()
        new, err = apply_edits(text, v.edits)
        if new is None:
            return ('skip', err, '')
        try:
            compile(new, path, 'exec')
        except SyntaxError as e:
            return ('skip', 'variant does not compile: %s' % e, '')
        with open(path, 'w', encoding='utf-8') as f:
            f.write(new)
        return _run_check(pid, v, d)
    finally:
        shutil.rmtree(d, ignore_errors=True)


def _run_check(pid, v, d):
    if True:
        env = dict(os.environ, VERIF_REPO=d, VERIF_NO_EVIDENCE='1', VERIF_TIER='quick', PYTHONDONTWRITEBYTECODE='1')
        p = subprocess.run([sys.executable, '-m', 'sa.check', pid, '--tier', 'quick'], cwd=VERIF, env=env,
                           capture_output=True, text=True, timeout=600)
        out = p.stdout + p.stderr
        fired = p.returncode == 1 and 'VIOLATION property=%s' % pid in out
        if v.expect == 'fire':
            if not fired:
                return ('miss', 'expected a violation, got exit %d' % p.returncode, out[-1500:])
            if v.mention:
                lines = [l for l in out.splitlines() if l.startswith('FINDING')]
                if not any(v.mention in l for l in lines):
                    return ('miss', 'violation does not name %r' % v.mention, '\n'.join(lines)[-1500:])
            return ('ok', 'fired', '')
        else:
            if p.returncode != 0:
                return ('false-alarm', 'benign twin produced exit %d' % p.returncode, out[-1500:])
            return ('ok', 'silent', '')


def variants_for(pid):
    try:
        mod = importlib.import_module('sa.selftests.' + pid.lower())
    except ModuleNotFoundError:
        return []
    return list(mod.VARIANTS)


def run_for(pid, rep, seed):
    vs = variants_for(pid)
    if not vs:
        rep.note('no self-test variants registered for %s' % pid)
        rep.selftest = {'variants': 0}
        return
    from .benign import MODES
    vs = vs + [W(m) for m in MODES]
    sd = os.path.join(VERIF, 'seeded')
    if os.path.isdir(sd):
        for nm in sorted(os.listdir(sd)):
            pth = os.path.join(sd, nm, 'patch.diff')
            if nm.startswith(pid) and os.path.exists(pth):
                vs.append(S(nm, pth))
    bd = os.path.join(VERIF, 'benign')
    if os.path.isdir(bd):
        for nm in sorted(os.listdir(bd)):
            pth = os.path.join(bd, nm, 'patch.diff')
            if os.path.exists(pth):
                vs.append(B(nm, pth))
    rnd = random.Random(seed)
    rnd.shuffle(vs)
    base = tempfile.mkdtemp(prefix='vsa_base_')
    results = []
    try:
        with cf.ThreadPoolExecutor(max_workers=min(16, os.cpu_count() or 4)) as ex:
            futs = {ex.submit(run_variant, pid, v, base): v for v in vs}
            for fu in cf.as_completed(futs):
                v = futs[fu]
                try:
                    st, msg, tail = fu.result()
                except Exception as e:  # noqa
                    st, msg, tail = 'error', repr(e), ''
                results.append((v, st, msg, tail))
    finally:
        shutil.rmtree(base, ignore_errors=True)
    results.sort(key=lambda r: r[0].name)
    bad = [r for r in results if r[1] in ('miss', 'false-alarm', 'error')]
    skipped = [r for r in results if r[1] == 'skip']
    rep.selftest = {
        'variants': len(results),
        'fire_ok': sum(1 for v, st, _, _ in results if st == 'ok' and v.expect == 'fire'),
        'silent_ok': sum(1 for v, st, _, _ in results if st == 'ok' and v.expect == 'silent'),
        'skipped': [{'name': v.name, 'why': msg} for v, st, msg, _ in skipped],
        'failed': [{'name': v.name, 'status': st, 'why': msg} for v, st, msg, _ in bad],
        'names': [v.name for v, _, _, _ in results],
        'seed': seed,
    }
    print('%s self-test: %d variants, %d fired as required, %d benign twins silent, %d skipped, %d failed' % (
        pid, len(results), rep.selftest['fire_ok'], rep.selftest['silent_ok'], len(skipped), len(bad)))
    for v, st, msg, _ in skipped:
        print('%s self-test skipped %s: %s' % (pid, v.name, msg))
    if bad:
        for v, st, msg, tail in bad:
            print('%s self-test FAILED %s [%s]: %s\n%s' % (pid, v.name, st, msg, tail))
        raise AnalysisError('checker self-test failed for %s: %s' % (pid, ', '.join(v.name for v, _, _, _ in bad)))
    if len(skipped) > len(results) // 2:
        raise AnalysisError('checker self-test for %s lost more than half of its anchors (%d/%d skipped)' % (
            pid, len(skipped), len(results)))
