from . import V

H = 'basic_robotics/general/faser_high_performance.py'
P = 'basic_robotics/kinematics/sp_model.py'
VARIANTS = [
    V('top-joint-bottom-transform', H, ("top_joint_locations[0:3, i] = TrVec(top_transform, top_joints[0:3, i])", "top_joint_locations[0:3, i] = TrVec(bottom_transform, top_joints[0:3, i])"), 'fire', 'SPIKinSpace'),
    V('length-other-leg', H, ("t_len = Norm(top_joint_locations[0:3, i] - bottom_joint_locations[0:3, i])", "t_len = Norm(top_joint_locations[0:3, i] - bottom_joint_locations[0:3, i-1])"), 'fire', 'SPIKinSpace'),
    V('five-legs', H, ("lengths = np.zeros((6, 1))\n\n    #Perform Inverse Kinematics\n    for i in range(6):", "lengths = np.zeros((6, 1))\n\n    #Perform Inverse Kinematics\n    for i in range(5):"), 'fire', 'SPIKinSpace'),
    V('trvec-no-homogeneous-one', H, ("vector_4 = np.ones((4))", "vector_4 = np.zeros((4))"), 'fire', 'TrVec'),
    V('helper-swapped-poses', P, ("bottom_plate_pos.gTM(),\n                top_plate_pos.gTM(),\n                self._bottom_joints_local,", "top_plate_pos.gTM(),\n                bottom_plate_pos.gTM(),\n                self._bottom_joints_local,"), 'fire', 'SP._IKHelper'),
    V('spin-stale-tables', P, ("self._bottom_joints_init = self._bottom_joints_local.conj().transpose()\n        self._top_joints_init = self._top_joints_local.conj().transpose()\n        self._bottom_joints_space = bottom_joints_space_new", "self._bottom_joints_space = bottom_joints_space_new"), 'fire', 'SP.spinCustom'),
    V('spin-one-table-only', P, ("self._top_joints_init = self._top_joints_local.conj().transpose()\n        self._bottom_joints_space = bottom_joints_space_new", "self._bottom_joints_space = bottom_joints_space_new"), 'fire', 'SP.spinCustom'),
    V('fk-no-writeback', P, ("self._IKHelper(coords, bottom_plate_pos_backup)\n", ""), 'fire', 'SP.FK'),
    V('fk-stores-other-pose', P, ("self._setPlatePos(bottom_plate_pos_backup, coords)", "self._setPlatePos(bottom_plate_pos_backup, bottom_plate_pos_backup @ self._nominal_plate_transform)"), 'fire', 'SP.FK'),
    V('raphson-tables-swapped', P, ("attempt, iteration = fmr.SPFKinSpaceR(L, attempt,\n                self._bottom_joints_init, self._top_joints_init,\n                self._max_iterations, self._tol_f, self._tol_a, self.leg_ext_min)\n\n            #If the algorithm failed", "attempt, iteration = fmr.SPFKinSpaceR(L, attempt,\n                self._top_joints_init, self._bottom_joints_init,\n                self._max_iterations, self._tol_f, self._tol_a, self.leg_ext_min)\n\n            #If the algorithm failed"), 'fire', 'SP._FKRaphson'),
    V('ik-stores-unchecked-pose', P, ("self._setPlatePos(bottom_plate_pos, top_plate_pos)\n\n        #Ensure a valid position", "self._setPlatePos(bottom_plate_pos, top_plate_pos @ tm())\n\n        #Ensure a valid position"), 'fire', 'SP.IK'),
    # benign
    V('benign-rename-leg-index', H, ("for i in range(6):\n        bottom_joint_locations[0:3, i] = TrVec(bottom_transform, bottom_joints[0:3, i])\n        top_joint_locations[0:3, i] = TrVec(top_transform, top_joints[0:3, i])\n        t_len = Norm(top_joint_locations[0:3, i] - bottom_joint_locations[0:3, i])\n        lengths[i] = t_len", "for leg in range(6):\n        bottom_joint_locations[0:3, leg] = TrVec(bottom_transform, bottom_joints[0:3, leg])\n        top_joint_locations[0:3, leg] = TrVec(top_transform, top_joints[0:3, leg])\n        lengths[leg] = Norm(top_joint_locations[0:3, leg] - bottom_joint_locations[0:3, leg])"), 'silent'),
    V('benign-fk-named-poses', P, ("bottom, top = self.getBottomT(), self.getTopT()\n            self._IKHelper(top, bottom)", "top = self.getTopT()\n            bottom = self.getBottomT()\n            self._IKHelper(top, bottom)"), 'silent'),
]
