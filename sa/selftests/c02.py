from . import V

F = 'basic_robotics/modern_robotics_numba/modern_high_performance.py'
VARIANTS = [
    V('log6-sign', F, ("lterm = (np.eye(3) - omgmat / 2.0 + (1.0 / theta - 1.0 /", "lterm = (np.eye(3) + omgmat / 2.0 + (1.0 / theta - 1.0 /"), 'fire', 'MatrixLog6'),
    V('jacobianbody-index', F, ("T = np.dot(T,MatrixExp6(VecTose3(Blist[:, i + 1] \\\n                                         * -thetalist[i + 1])))", "T = np.dot(T,MatrixExp6(VecTose3(Blist[:, i + 1] \\\n                                         * -thetalist[i])))"), 'fire', 'JacobianBody'),
    V('log3-branch-cutoff', F, ("if acosinput >= 1:", "if acosinput > 1:"), 'fire', 'MatrixLog3'),
    V('reintroduce-np-float', F, ("dthetamat = taumat.copy().astype(float)", "dthetamat = taumat.copy().astype(np.float)"), 'fire', 'ForwardDynamicsTrajectory'),
    V('nearzero-threshold', F, ("return abs(z) < 1e-6", "return abs(z) < 1e-5"), 'fire', 'NearZero'),
    V('adjoint-block-swap', F, ("rarr[3:6, 0:3] = vs3 @ R", "rarr[0:3, 3:6] = vs3 @ R"), 'fire', 'Adjoint'),
    V('transinv-sign', F, ("rarr[0:3, 3] = -1 * tdot", "rarr[0:3, 3] = tdot"), 'fire', 'TransInv'),
    V('fkinspace-order', F, ("for i in range(len(thetalist) - 1, -1, -1):\n        T = np.dot(MatrixExp6(VecTose3(Slist[:, i] * thetalist[i])), T)", "for i in range(len(thetalist)):\n        T = np.dot(MatrixExp6(VecTose3(Slist[:, i] * thetalist[i])), T)"), 'fire', 'FKinSpace'),
    V('ikinspace-tolerance-swap', F, ("err = Norm([Vs[0], Vs[1], Vs[2]]) > eomg or Norm([Vs[3], Vs[4], Vs[5]]) > ev\n    return (thetalist, not err)", "err = Norm([Vs[0], Vs[1], Vs[2]]) > ev or Norm([Vs[3], Vs[4], Vs[5]]) > eomg\n    return (thetalist, not err)"), 'fire', 'IKinSpace'),
    V('cubic-coefficient', F, ("return 3 * (1.0 * t / Tf) ** 2 - 2 * (1.0 * t / Tf) ** 3", "return 3 * (1.0 * t / Tf) ** 2 - 3 * (1.0 * t / Tf) ** 3"), 'fire', 'CubicTimeScaling'),
    V('vectoso3-entry', F, ("[omg[2],       0, -omg[0]],", "[omg[2],       0, omg[0]],"), 'fire', 'VecToso3'),
    V('exp6-translation-term', F, ("(theta - np.sin(theta))* np.dot(omgmat, omgmat), se3mat[0: 3, 3].copy()) / theta", "(theta - np.cos(theta))* np.dot(omgmat, omgmat), se3mat[0: 3, 3].copy()) / theta"), 'fire', 'MatrixExp6'),
    V('se3tovec-slot', F, ("return np.array([se3mat[2][1], se3mat[0][2], se3mat[1][0], se3mat[0][3], se3mat[1][3], se3mat[2][3]])", "return np.array([se3mat[2][1], se3mat[0][2], se3mat[1][0], se3mat[0][3], se3mat[2][3], se3mat[1][3]])"), 'fire', 'se3ToVec'),
    V('massmatrix-unit', F, ("ddthetalist[i] = 1\n        M[:, i] = InverseDynamics(thetalist, [0] * n, ddthetalist,", "ddthetalist[i] = 1\n        M[i, :] = InverseDynamics(thetalist, dthetalist_unused if False else [0] * n, ddthetalist,"), 'fire', 'MassMatrix'),
    V('id-gravity-sign', F, ("Vdi[:, 0] = np.r_[[0, 0, 0], -np.array(g)]", "Vdi[:, 0] = np.r_[[0, 0, 0], np.array(g)]"), 'fire', 'InverseDynamics'),
    V('ikinbody-stale-flag', F, ("Vb \\\n        = se3ToVec(MatrixLog6(np.dot(TransInv(FKinBody(M, Blist, \\\n                                                       thetalist)), T)))\n        err = Norm([Vb[0], Vb[1], Vb[2]]) > eomg \\\n              or Norm([Vb[3], Vb[4], Vb[5]]) > ev\n    return (thetalist, not err)", "err = Norm([Vb[0], Vb[1], Vb[2]]) > eomg \\\n              or Norm([Vb[3], Vb[4], Vb[5]]) > ev\n        Vb \\\n        = se3ToVec(MatrixLog6(np.dot(TransInv(FKinBody(M, Blist, \\\n                                                       thetalist)), T)))\n    return (thetalist, not err)"), 'fire', 'IKinBody'),
    V('undefined-name', F, ("timegap = Tf/ (N - 1.0)\n    traj = np.zeros((len(thetastart), N))", "timegap = Tfinal/ (N - 1.0)\n    traj = np.zeros((len(thetastart), N))"), 'fire', 'JointTrajectory'),
    V('extra-required-param', F, ("def Adjoint(T):", "def Adjoint(T, order):"), 'fire', 'Adjoint'),
    # benign twins
    V('benign-rename-locals', F, [("rarr = np.eye((4))\n        rarr[0:3, 3] = se3mat[0:3, 3]\n        return rarr", "ident = np.eye((4))\n        ident[0:3, 3] = se3mat[0:3, 3]\n        return ident")], 'silent'),
    V('benign-inline-temps', F, ("Rt = np.transpose(R)\n    rarr = np.eye((4), dtype=np.float64)\n    rarr[0:3, 0:3] = Rt\n    tdot = np.dot(Rt, p)\n    rarr[0:3, 3] = -1 * tdot", "rarr = np.eye((4), dtype=np.float64)\n    rarr[0:3, 0:3] = R.T\n    rarr[0:3, 3] = -np.dot(np.transpose(R), p)"), 'silent'),
    V('benign-dot-to-matmul', F, ("T = np.dot(T, MatrixExp6(VecTose3(Blist[:, i] * thetalist[i])))", "T = T @ MatrixExp6(VecTose3(Blist[:, i] * thetalist[i]))"), 'silent'),
    V('benign-reorder-stores', F, ("rarr[0:3, 0:3] = R\n    rarr[3:6, 3:6] = R\n    rarr[3:6, 0:3] = vs3 @ R", "rarr[3:6, 0:3] = vs3 @ R\n    rarr[3:6, 3:6] = R\n    rarr[0:3, 0:3] = R"), 'silent'),
    V('benign-rptotrans-r-c', F, ("omat = np.eye(4, dtype=np.float64)\n    omat[0:3,0:3] = R\n    omat[0:3,3] =p\n    return omat", "return np.r_[np.c_[R, p], [[0, 0, 0, 1]]]"), 'silent'),
    V('benign-temp-in-log3', F, ("return theta / 2.0 / np.sin(theta) * (R - (R).T)", "skew_part = R - np.transpose(R)\n        return theta / 2.0 / np.sin(theta) * skew_part"), 'silent'),
    V('benign-drop-clip', F, ("theta = np.arccos(SafeClip(acosinput, -1.0, 1.0))", "theta = np.arccos(acosinput)"), 'silent'),
    V('benign-norm-call', F, ("if NearZero(Norm(omgtheta)):\n        return np.eye(3)", "if NearZero(np.linalg.norm(omgtheta)):\n        return np.eye(3)"), 'silent'),
    V('benign-docstring-comment', F, ("def RotInv(R):   # pragma: no cover", "def RotInv(R):   # pragma: no cover  (transpose == inverse for rotations)"), 'silent'),
]
