from . import V

F = 'basic_robotics/modern_robotics_numba/modern_high_performance.py'
VARIANTS = [
    V('hat-entries-swapped', F, ("return np.array([[0,      -omg[2],  omg[1]],\n                     [omg[2],       0, -omg[0]],", "return np.array([[0,      -omg[1],  omg[2]],\n                     [omg[2],       0, -omg[0]],"), 'fire', 'VecToso3'),
    V('vee-reads-transposed', F, ("return np.array([so3mat[2][1], so3mat[0][2], so3mat[1][0]])", "return np.array([so3mat[1][2], so3mat[0][2], so3mat[1][0]])"), 'fire', 'so3ToVec'),
    V('transinv-store-row3', F, ("rarr[0:3, 3] = -1 * tdot\n    return rarr", "rarr[0:3, 3] = -1 * tdot\n    rarr[3, 3] = 0\n    return rarr"), 'fire', 'TransInv'),
    V('log3-guard-divisor-mismatch', F, ("omg = ((1.0 / np.sqrt(2 * (1 + R[2][2])))\n                  * np.array([R[0][2], R[1][2], 1 + R[2][2]]))", "omg = ((1.0 / np.sqrt(2 * (1 + R[1][1])))\n                  * np.array([R[0][2], R[1][2], 1 + R[2][2]]))"), 'fire', 'MatrixLog3'),
    V('log3-halfturn-column', F, ("* np.array([R[0][1], 1 + R[1][1], R[2][1]]))", "* np.array([R[1][0], 1 + R[1][1], R[2][1]]))"), 'fire', 'MatrixLog3'),
    V('adjoint-upper-right', F, ("rarr[3:6, 0:3] = vs3 @ R\n    return rarr", "rarr[3:6, 0:3] = vs3 @ R\n    rarr[0:3, 3:6] = vs3 @ R\n    return rarr"), 'fire', 'Adjoint'),
    V('ad-swapped-halves', F, ("omgmat = VecToso3([V[0], V[1], V[2]])\n    result = np.zeros((6,6), dtype=np.float64)", "omgmat = VecToso3([V[3], V[4], V[5]])\n    result = np.zeros((6,6), dtype=np.float64)"), 'fire', 'ad'),
    V('exp3-nearzero-dropped', F, ("if NearZero(Norm(omgtheta)):\n        return np.eye(3)\n    else:\n        theta = AxisAng3(omgtheta)[1]\n        omgmat = so3mat / theta", "if Norm(omgtheta) == 0:\n        return np.eye(3)\n    else:\n        theta = AxisAng3(omgtheta)[1]\n        omgmat = so3mat / theta"), 'fire', 'MatrixExp3'),
    V('log6-last-row-one', F, ("rarr = np.zeros((4, 4))\n        rarr[0:3, 0:3] = omgmat", "rarr = np.eye(4)\n        rarr[0:3, 0:3] = omgmat"), 'fire', 'MatrixLog6'),
    V('se3tovec-omega-v-order', F, ("return np.array([se3mat[2][1], se3mat[0][2], se3mat[1][0], se3mat[0][3], se3mat[1][3], se3mat[2][3]])", "return np.array([se3mat[0][3], se3mat[1][3], se3mat[2][3], se3mat[2][1], se3mat[0][2], se3mat[1][0]])"), 'fire', 'se3ToVec'),
    V('transtorp-wrong-column', F, ("return T[0: 3, 0: 3].copy(), T[0: 3, 3].copy()", "return T[0: 3, 0: 3].copy(), T[3, 0: 3].copy()"), 'fire', 'TransToRp'),
    # benign
    V('benign-hat-via-zeros', F, ("return np.array([[0,      -omg[2],  omg[1]],\n                     [omg[2],       0, -omg[0]],\n                     [-omg[1], omg[0],       0]])", "m = np.zeros((3, 3))\n    m[0, 1] = -omg[2]\n    m[0, 2] = omg[1]\n    m[1, 0] = omg[2]\n    m[1, 2] = -omg[0]\n    m[2, 0] = -omg[1]\n    m[2, 1] = omg[0]\n    return m"), 'silent'),
    V('benign-adjoint-r-c', F, ("rarr = np.eye((6), dtype=np.float64)\n    vs3 = VecToso3(p)\n    rarr[0:3, 0:3] = R\n    rarr[3:6, 3:6] = R\n    rarr[3:6, 0:3] = vs3 @ R\n    return rarr", "return np.r_[np.c_[R, np.zeros((3, 3))], np.c_[np.dot(VecToso3(p), R), R]]"), 'silent'),
    V('benign-log3-rename', F, [("trace = SafeTrace(R)\n    acosinput = (trace - 1) / 2.0", "tr = SafeTrace(R)\n    acosinput = (tr - 1) / 2.0")], 'silent'),
    V('trace-helper-snaps-near-identity', 'basic_robotics/modern_robotics_numba/modern_high_performance.py', ('            sum = sum + R[i, i]\n        return sum\n', '            sum = sum + R[i, i]\n        if abs(sum - sz[0]) < 1e-6:\n            return 1.0 * sz[0]\n        return sum\n'), 'fire', 'SafeTrace'),
    V('norm-helper-drops-a-component', 'basic_robotics/modern_robotics_numba/modern_high_performance.py', ('return np.sqrt(v[0] * v[0] + v[1] * v[1] + v[2] * v[2])', 'return np.sqrt(v[0] * v[0] + v[1] * v[1])'), 'fire', 'Norm'),
    V('benign-trace-helper-library-call', 'basic_robotics/modern_robotics_numba/modern_high_performance.py', ('    sz = R.shape\n    if sz[0] == sz[1]:\n        sum = 0\n        for i in range(sz[0]):\n            sum = sum + R[i, i]\n        return sum\n    return -1\n', '    return np.trace(R)\n'), 'silent'),
]
