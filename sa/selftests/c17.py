from . import V

M = 'basic_robotics/modern_robotics_numba/modern_high_performance.py'
H = 'basic_robotics/general/faser_high_performance.py'
A = 'basic_robotics/kinematics/arm_model.py'
VARIANTS = [
    V('fkinbody-range-plus-one', M, ("T = M\n    for i in range(len(thetalist)):", "T = M\n    for i in range(len(thetalist) + 1):"), 'fire', 'FKinBody'),
    V('callsite-prefix-short', A, ("t_js = fmr.JacobianSpace(self.screw_list[0:6, 0:i+1], theta[0:i+1])", "t_js = fmr.JacobianSpace(self.screw_list[0:6, 0:i], theta[0:i+1])"), 'fire', 'Arm.jacobianLink'),
    V('spfk-angs-index', H, ("angs[j+1] = (np.sin(top_plate_guess[i]))", "angs[j+2] = (np.sin(top_plate_guess[i]))"), 'fire', 'SPFKinSpaceR'),
    V('jacobianbody-lower-bound', M, ("for i in range(len(thetalist) - 2, -1, -1):", "for i in range(len(thetalist) - 1, -1, -1):"), 'fire', 'JacobianBody'),
    V('jacobianspace-start-zero', M, ("for i in range(1, len(thetalist)):\n        sSe3", "for i in range(0, len(thetalist)):\n        sSe3"), 'fire', 'JacobianSpace'),
    V('spik-seven-legs', H, ("for i in range(6):\n        bottom_joint_locations[0:3, i]", "for i in range(7):\n        bottom_joint_locations[0:3, i]"), 'fire', 'SPIKinSpace'),
    V('se3tovec-row-four', M, ("se3mat[0][3], se3mat[1][3], se3mat[2][3]])", "se3mat[0][3], se3mat[1][3], se3mat[2][4]])"), 'fire', 'se3ToVec'),
    V('trvec-slice-too-long', H, ("return new_vec[0:3]", "return new_vec[0:5]"), 'fire', 'TrVec'),
    V('fklink-regression', A, ("tm(fmr.FKinSpace(self._link_homes_global[i].TM,\n            self.screw_list[0:6, 0:i+1], theta[0:i+1]))", "tm(fmr.FKinSpace(self._link_homes_global[i].TM,\n            self.screw_list[0:6, 0:i], theta[0:i+1]))"), 'fire', 'Arm.FKLink'),
    V('clamp-loop-over-mins', H, ("theta_list = theta_list + new_theta\n        for j in range(len(theta_list)):", "theta_list = theta_list + new_theta\n        for j in range(len(joint_mins) + 1):"), 'fire', 'IKinSpaceConstrained'),
    # benign
    V('benign-rename-loopvar', M, ("for i in range(len(thetalist)):\n        T = np.dot(T, MatrixExp6(VecTose3(Blist[:, i] * thetalist[i])))", "for joint in range(len(thetalist)):\n        T = np.dot(T, MatrixExp6(VecTose3(Blist[:, joint] * thetalist[joint])))"), 'silent'),
    V('benign-forward-loop', M, ("for i in range(len(thetalist) - 2, -1, -1):\n        T = np.dot(T,MatrixExp6(VecTose3(Blist[:, i + 1] \\\n                                         * -thetalist[i + 1])))\n        Jb[:, i] = np.dot(Adjoint(T), Blist[:, i])", "for k in range(1, len(thetalist)):\n        i = len(thetalist) - 1 - k\n        T = np.dot(T,MatrixExp6(VecTose3(Blist[:, i + 1] \\\n                                         * -thetalist[i + 1])))\n        Jb[:, i] = np.dot(Adjoint(T), Blist[:, i])"), 'silent'),
    V('fkjoint-named-short-prefix', A, ("jh = self._joint_homes_global[i].TM\n        end_effector_pos = tm(fmr.FKinSpace(jh,\n            self.screw_list[0:6, 0:i+1], theta[0:i+1]))", "jh = self._joint_homes_global[i].TM\n        screws = self.screw_list[0:6, 0:i]\n        end_effector_pos = tm(fmr.FKinSpace(jh, screws, theta[0:i+1]))"), 'fire', 'R17.2'),
    V('benign-fkjoint-named-prefix', A, ("jh = self._joint_homes_global[i].TM\n        end_effector_pos = tm(fmr.FKinSpace(jh,\n            self.screw_list[0:6, 0:i+1], theta[0:i+1]))", "jh = self._joint_homes_global[i].TM\n        k = i + 1\n        screws = self.screw_list[0:6, 0:k]\n        end_effector_pos = tm(fmr.FKinSpace(jh, screws, theta[0:k]))"), 'silent'),
    V('fklink-whole-theta-on-protect-path', A, [("theta = self.thetaProtector(theta)\n        end_effector_pos =  tm(fmr.FKinSpace(self._link_homes_global[i].TM,\n            self.screw_list[0:6, 0:i+1], theta[0:i+1]))", "theta = self.thetaProtector(theta[0:i+1])\n        end_effector_pos =  tm(fmr.FKinSpace(self._link_homes_global[i].TM,\n            self.screw_list[0:6, 0:i+1], theta))")], 'fire', 'passed whole'),
    V('benign-fklink-slice-before-clamp', A, [("if not protect:\n            theta = self.thetaProtector(theta)\n        end_effector_pos =  tm(fmr.FKinSpace(self._link_homes_global[i].TM,\n            self.screw_list[0:6, 0:i+1], theta[0:i+1]))", "theta = theta[0:i+1]\n        if not protect:\n            theta = self.thetaProtector(theta)\n        end_effector_pos =  tm(fmr.FKinSpace(self._link_homes_global[i].TM,\n            self.screw_list[0:6, 0:i+1], theta))")], 'silent'),
    V('jacobianlink-whole-screw-table-with-theta-prefix', A, ("t_js = fmr.JacobianSpace(self.screw_list[0:6, 0:i+1], theta[0:i+1])", "t_js = fmr.JacobianSpace(self.screw_list, theta[0:i+1])[0:6, 0:i+1]"), 'fire', 'R17.2'),
    V('benign-jacobianlink-full-row-slice', A, ("t_js = fmr.JacobianSpace(self.screw_list[0:6, 0:i+1], theta[0:i+1])", "t_js = fmr.JacobianSpace(self.screw_list[:, 0:i+1], theta[0:i+1])"), 'silent'),
    V('ikinspace-norm-of-two-element-view', M, ("err = Norm([Vs[0], Vs[1], Vs[2]]) > eomg or Norm([Vs[3], Vs[4], Vs[5]]) > ev\n    while err and i < max_iters:", "err = Norm(Vs[0:3]) > eomg or Norm(Vs[3:5]) > ev\n    while err and i < max_iters:"), 'fire', 'R17.1'),
    V('benign-ikinspace-norm-of-three-element-view', M, ("err = Norm([Vs[0], Vs[1], Vs[2]]) > eomg or Norm([Vs[3], Vs[4], Vs[5]]) > ev\n    while err and i < max_iters:", "err = Norm(Vs[0:3]) > eomg or Norm(Vs[3:6]) > ev\n    while err and i < max_iters:"), 'silent'),
    V('fkinspace-driven-by-the-screw-table', M, ('T = SafeCopy(M)\n    for i in range(len(thetalist) - 1, -1, -1):', 'T = SafeCopy(M)\n    for i in range(Slist.shape[1] - 1, -1, -1):'), 'fire', 'R17.3'),
    V('jacobianbody-driven-by-the-screw-table', M, ('for i in range(len(thetalist) - 2, -1, -1):\n        T = np.dot(T,MatrixExp6(VecTose3(Blist[:, i + 1] \\\n                                         * -thetalist[i + 1])))', 'for i in range(Blist.shape[1] - 2, -1, -1):\n        T = np.dot(T,MatrixExp6(VecTose3(Blist[:, i + 1] \\\n                                         * -thetalist[i + 1])))'), 'fire', 'R17.3'),
]
