from . import V

P = 'basic_robotics/kinematics/sp_model.py'
R = 'basic_robotics/kinematics/robot_model.py'
VARIANTS = [
    V('moment-arm-from-top-of-previous-leg', P, ("qi = self._bottom_joints_space[:, i]\n            col", "qi = self._top_joints_space[:, i-1]\n            col"), 'fire', 'SP.inverseJacobian'),
    V('row-force-first', P, ("col = np.hstack((np.cross(qi, ni), ni))", "col = np.hstack((ni, np.cross(qi, ni)))"), 'fire', 'SP.inverseJacobian'),
    V('cross-order', P, ("col = np.hstack((np.cross(qi, ni), ni))", "col = np.hstack((np.cross(ni, qi), ni))"), 'fire', 'SP.inverseJacobian'),
    V('direction-not-normalised', P, ("ni = fmr.Normalize(self._top_joints_space[:, i]-self._bottom_joints_space[:, i])", "ni = (self._top_joints_space[:, i]-self._bottom_joints_space[:, i])"), 'fire', 'SP.inverseJacobian'),
    V('motors-before-solve', P, ("tau = self.staticForces(wrench, protect = protect)\n        for i in range(6):\n            wrench += fsr.makeWrench(self.getActuatorLoc(i, 'b'),\n                self._act_motor_mass, self.grav)", "for i in range(6):\n            wrench += fsr.makeWrench(self.getActuatorLoc(i, 'b'),\n                self._act_motor_mass, self.grav)\n        tau = self.staticForces(wrench, protect = protect)"), 'fire', 'SP.carryMassCalc'),
    V('shaft-weight-at-motor-cg', P, ("wrench += fsr.makeWrench(self.getActuatorLoc(i, 't'),\n                self._act_shaft_mass, self.grav)", "wrench += fsr.makeWrench(self.getActuatorLoc(i, 'b'),\n                self._act_shaft_mass, self.grav)"), 'fire', 'SP.carryMassCalc'),
    V('top-plate-weight-missing', P, ("wrench = wrench + fsr.makeWrench(self.getTopT(),\n            self._top_plate_mass, self.grav)\n\n        for i in range(6):", "for i in range(6):"), 'fire', 'SP.carryMassCalc'),
    V('sum-wrench-point-other-leg', P, ("wrench += fsr.makeWrench(self._top_joints_space[:, i], float(forces[i]), unit_vector)", "wrench += fsr.makeWrench(self._top_joints_space[:, i-1], float(forces[i]), unit_vector)"), 'fire', 'SP.sumActuatorWrenches'),
    V('robot-jacobian-no-pinv', R, ("return np.linalg.pinv(self.inverseJacobian(*args, **kwargs))", "return self.inverseJacobian(*args, **kwargs).T"), 'fire', 'Robot.jacobian'),
    V('returns-untransposed', P, ("inverse_jacobian = inverse_jacobian_transpose.T", "inverse_jacobian = inverse_jacobian_transpose"), 'fire', 'SP.inverseJacobian'),
    # benign
    V('benign-rename-leg', P, [("ni = fmr.Normalize(self._top_joints_space[:, i]-self._bottom_joints_space[:, i])\n             #Reverse for upward forces?\n            qi = self._bottom_joints_space[:, i]\n            col = np.hstack((np.cross(qi, ni), ni))\n            inverse_jacobian_transpose[:, i] = col", "ni = fmr.Normalize(self._top_joints_space[:, i]-self._bottom_joints_space[:, i])\n            qi = self._bottom_joints_space[:, i]\n            col = np.hstack((np.cross(qi, ni), ni))\n            inverse_jacobian_transpose[:, i] = col")], 'silent'),
    V('shaft-cog-clamped-to-leg-length', P, ("return fsr.getUnitVec(top_act_joint,\n                bottom_act_joint, self._act_shaft_grav_center)", "return fsr.getUnitVec(top_act_joint,\n                bottom_act_joint, min(self._act_shaft_grav_center, fsr.distance(bottom_act_joint, top_act_joint)))"), 'fire', 'R11.5'),
    V('shaft-cog-measured-from-the-bottom-joint', P, ("return fsr.getUnitVec(top_act_joint,\n                bottom_act_joint, self._act_shaft_grav_center)", "return fsr.getUnitVec(bottom_act_joint,\n                top_act_joint, self._act_shaft_grav_center)"), 'fire', 'R11.5'),
    V('benign-shaft-cog-offset-named', P, ("return fsr.getUnitVec(top_act_joint,\n                bottom_act_joint, self._act_shaft_grav_center)", "offset = self._act_shaft_grav_center\n            start, towards = top_act_joint, bottom_act_joint\n            return fsr.getUnitVec(start, towards, offset)"), 'silent'),
]
