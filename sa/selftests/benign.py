"""Behaviour-preserving whole-tree source transformations used as benign twins of every check (no repository code is run).

  reformat        ast.unparse(ast.parse(file)): drops comments, normalises quotes / parentheses / line breaks, moves every line
  rename-locals   every local variable (not parameter) of every function is renamed  name -> name_r (closures followed)
  extract-temps   in every simple statement, call-valued call arguments are hoisted into fresh temporaries
  invert-if       `if c: A else: B` (no elif) becomes `if not c: B else: A`
  drop-else       `if c: ...; return x  else: B` becomes `if c: ...; return x` followed by B (also raise / continue / break)
  insert-noop     a fresh assignment `_noop_k = None` is inserted at the start and at the end of every statement block (as an
                  added log line would be); ends only where the block does not finish with return/raise/break/continue
  all             every transformation above, one after the other
  flip-compare    `a < b` becomes `b > a` (single ordering comparisons whose operands have no side effects)
The transformations were validated once by running the repository's own fast tests on a transformed copy (DESIGN.md 8.3).
"""
import ast

MODES = ('reformat', 'rename-locals', 'extract-temps', 'invert-if', 'flip-compare', 'drop-else', 'insert-noop', 'all')


class RenameLocals(ast.NodeTransformer):
    def __init__(self, func_filter=None):
        self.func_filter = func_filter
        self.n = 0

    def visit_FunctionDef(self, node):
        # inner functions first
        self.generic_visit(node)
        if self.func_filter and self.func_filter not in node.name:
            return node
        if any(isinstance(n, (ast.Global, ast.Nonlocal)) for n in ast.walk(node)):
            return node
        if any(isinstance(n, ast.Name) and n.id in ('locals', 'vars', 'eval', 'exec') for n in ast.walk(node)):
            return node
        if any(isinstance(n, ast.ClassDef) for n in ast.walk(node)):
            return node

        def scope_nodes(fn):
            """nodes of fn's own scope; nested function nodes are yielded (not entered)"""
            todo = list(ast.iter_child_nodes(fn))
            while todo:
                n = todo.pop()
                yield n
                if isinstance(n, (ast.FunctionDef, ast.AsyncFunctionDef, ast.Lambda)):
                    continue
                todo.extend(ast.iter_child_nodes(n))

        def params_of(fn):
            a = fn.args
            ps = {x.arg for x in a.args + a.kwonlyargs + a.posonlyargs}
            if a.vararg:
                ps.add(a.vararg.arg)
            if a.kwarg:
                ps.add(a.kwarg.arg)
            return ps

        def bound_in(fn):
            out = set(params_of(fn))
            for n in scope_nodes(fn):
                if isinstance(n, ast.Name) and isinstance(n.ctx, (ast.Store, ast.Del)):
                    out.add(n.id)
                elif isinstance(n, (ast.FunctionDef, ast.AsyncFunctionDef)):
                    out.add(n.name)
                elif isinstance(n, ast.ExceptHandler) and n.name:
                    out.add(n.name)
                elif isinstance(n, (ast.Import, ast.ImportFrom)):
                    for a in n.names:
                        out.add((a.asname or a.name).split('.')[0])
            return out
        params = params_of(node)
        keep = set(params) | {'self', 'cls', '_'}
        stored = set()
        for n in scope_nodes(node):
            if isinstance(n, ast.Name) and isinstance(n.ctx, (ast.Store, ast.Del)):
                stored.add(n.id)
            elif isinstance(n, (ast.FunctionDef, ast.AsyncFunctionDef)):
                keep.add(n.name)
            elif isinstance(n, ast.ExceptHandler) and n.name:
                keep.add(n.name)
            elif isinstance(n, (ast.Import, ast.ImportFrom)):
                for a in n.names:
                    keep.add((a.asname or a.name).split('.')[0])
        names = stored - keep
        names = {x for x in names if not x.endswith('_r')}      # already renamed by an inner pass
        if not names:
            return node

        def rename(fn, active):
            for n in scope_nodes(fn):
                if isinstance(n, ast.Name) and n.id in active:
                    n.id = n.id + '_r'
                    self.n += 1
                elif isinstance(n, (ast.FunctionDef, ast.AsyncFunctionDef, ast.Lambda)):
                    inner = active - (bound_in(n) if not isinstance(n, ast.Lambda) else params_of(n))
                    # default values / decorators belong to the enclosing scope
                    for d in list(n.args.defaults) + [x for x in n.args.kw_defaults if x is not None] + list(getattr(n, 'decorator_list', [])):
                        for m in ast.walk(d):
                            if isinstance(m, ast.Name) and m.id in active:
                                m.id = m.id + '_r'
                    if inner:
                        rename(n, inner)
        rename(node, names)
        return node

    visit_AsyncFunctionDef = visit_FunctionDef


class ExtractTemps(ast.NodeTransformer):
    """`x = f(g(a), b)` -> `tmp_k = g(a); x = f(tmp_k, b)` for simple statements directly in a function body / branch."""

    def __init__(self):
        self.k = 0
        self.n = 0

    def _hoist(self, stmt):
        pre = []
        if not isinstance(stmt, (ast.Assign, ast.Expr, ast.Return)) or getattr(stmt, 'value', None) is None:
            return [stmt]
        v = stmt.value
        # only the outermost call; positional arguments evaluated left to right before anything else in the statement
        if not isinstance(v, ast.Call) or isinstance(stmt, ast.Assign) and not all(isinstance(t, ast.Name) for t in stmt.targets):
            return [stmt]
        if isinstance(v.func, ast.Attribute) and not isinstance(v.func.value, ast.Name):
            return [stmt]
        for i, a in enumerate(v.args):
            if isinstance(a, ast.Starred):
                break
            if isinstance(a, ast.Call):
                self.k += 1
                nm = 'tmp_x%d' % self.k
                pre.append(ast.Assign(targets=[ast.Name(id=nm, ctx=ast.Store())], value=a, lineno=stmt.lineno, col_offset=stmt.col_offset))
                v.args[i] = ast.Name(id=nm, ctx=ast.Load())
                self.n += 1
            elif not isinstance(a, (ast.Name, ast.Constant)):
                break       # do not reorder evaluation past a non-trivial argument
        return pre + [stmt]

    def _block(self, body):
        out = []
        for s in body:
            out.extend(self._hoist(s))
        return out

    def generic_visit(self, node):
        super().generic_visit(node)
        for fld in ('body', 'orelse', 'finalbody'):
            b = getattr(node, fld, None)
            if isinstance(b, list) and b and isinstance(b[0], ast.stmt):
                setattr(node, fld, self._block(b))
        return node


class InvertIf(ast.NodeTransformer):
    def __init__(self):
        self.n = 0

    def visit_If(self, node):
        self.generic_visit(node)
        if node.orelse and not (len(node.orelse) == 1 and isinstance(node.orelse[0], ast.If)):
            t = node.test
            if isinstance(t, ast.UnaryOp) and isinstance(t.op, ast.Not):
                nt = t.operand
            else:
                nt = ast.UnaryOp(op=ast.Not(), operand=t)
            node.test, node.body, node.orelse = nt, node.orelse, node.body
            self.n += 1
        return node


class FlipCompare(ast.NodeTransformer):
    FLIP = {ast.Lt: ast.Gt, ast.LtE: ast.GtE, ast.Gt: ast.Lt, ast.GtE: ast.LtE}

    def __init__(self):
        self.n = 0

    def visit_Compare(self, node):
        self.generic_visit(node)
        if len(node.ops) == 1 and type(node.ops[0]) in self.FLIP:
            # operands without calls: evaluation order is immaterial
            if not any(isinstance(x, (ast.Call, ast.NamedExpr, ast.Await, ast.Yield)) for side in (node.left, node.comparators[0]) for x in ast.walk(side)):
                node.left, node.comparators, node.ops = node.comparators[0], [node.left], [self.FLIP[type(node.ops[0])]()]
                self.n += 1
        return node


class DropElse(ast.NodeTransformer):
    def __init__(self):
        self.n = 0

    def _block(self, body):
        out = []
        for st in body:
            if isinstance(st, ast.If) and st.orelse and st.body and isinstance(st.body[-1], (ast.Return, ast.Raise, ast.Continue, ast.Break)):
                tail = st.orelse
                st.orelse = []
                out.append(st)
                out.extend(self._block(tail))
                self.n += 1
            else:
                out.append(st)
        return out

    def generic_visit(self, node):
        super().generic_visit(node)
        for fld in ('body', 'orelse', 'finalbody'):
            b = getattr(node, fld, None)
            if isinstance(b, list) and b and isinstance(b[0], ast.stmt):
                setattr(node, fld, self._block(b))
        return node


class InsertNoop(ast.NodeTransformer):
    def __init__(self):
        self.k = 0

    def _mk(self):
        self.k += 1
        return ast.Assign(targets=[ast.Name(id='_noop_%d' % self.k, ctx=ast.Store())], value=ast.Constant(value=None), lineno=1, col_offset=0)

    def generic_visit(self, node):
        super().generic_visit(node)
        if isinstance(node, (ast.Module, ast.ClassDef)):
            return node
        for fld in ('body', 'orelse', 'finalbody'):
            b = getattr(node, fld, None)
            if isinstance(b, list) and b and isinstance(b[0], ast.stmt):
                if fld == 'orelse' and len(b) == 1 and isinstance(b[0], ast.If) and isinstance(node, ast.If):
                    continue        # keep elif chains as they are
                start = 0
                if fld == 'body' and isinstance(node, (ast.FunctionDef, ast.AsyncFunctionDef)) and isinstance(b[0], ast.Expr) \
                        and isinstance(b[0].value, ast.Constant) and isinstance(b[0].value.value, str):
                    start = 1       # after the docstring
                nb = b[:start] + [self._mk()] + b[start:]
                if not isinstance(nb[-1], (ast.Return, ast.Raise, ast.Break, ast.Continue)):
                    nb.append(self._mk())
                setattr(node, fld, nb)
        return node


def transform(text, mode, func_filter):
    if mode == 'all':
        for m in ('rename-locals', 'extract-temps', 'invert-if', 'flip-compare', 'drop-else', 'insert-noop'):
            text = transform(text, m, func_filter)
        return text
    tree = ast.parse(text)
    if mode == 'reformat':
        pass
    elif mode == 'rename-locals':
        t = RenameLocals(func_filter)
        tree = t.visit(tree)
    elif mode == 'extract-temps':
        t = ExtractTemps()
        tree = t.visit(tree)
    elif mode == 'invert-if':
        t = InvertIf()
        tree = t.visit(tree)
    elif mode == 'flip-compare':
        t = FlipCompare()
        tree = t.visit(tree)
    elif mode == 'drop-else':
        t = DropElse()
        tree = t.visit(tree)
    elif mode == 'insert-noop':
        t = InsertNoop()
        tree = t.visit(tree)
    else:
        raise SystemExit('unknown mode ' + mode)
    ast.fix_missing_locations(tree)
    out = ast.unparse(tree) + '\n'
    compile(out, '<variant>', 'exec')
    return out


