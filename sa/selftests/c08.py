from . import V

A = 'basic_robotics/kinematics/arm_model.py'
M = 'basic_robotics/modern_robotics_numba/modern_high_performance.py'
VARIANTS = [
    V('id-coriolis-sign', M, ("+ np.dot(ad(Vi[:, i + 1]), Ai[:, i]) * dthetalist[i]", "- np.dot(ad(Vi[:, i + 1]), Ai[:, i]) * dthetalist[i]"), 'fire', 'InverseDynamics'),
    V('id-backward-transpose', M, ("Fi = np.dot(np.array(AdTi[i + 1]).T, Fi) \\", "Fi = np.dot(np.array(AdTi[i + 1]), Fi) \\"), 'fire', 'InverseDynamics'),
    V('massmatrix-with-velocity', M, ("M[:, i] = InverseDynamics(thetalist, [0] * n, ddthetalist, \\\n                                  [0, 0, 0], [0, 0, 0, 0, 0, 0], Mlist, \\", "M[:, i] = InverseDynamics(thetalist, [0] * n, ddthetalist, \\\n                                  [0, 0, -9.81], [0, 0, 0, 0, 0, 0], Mlist, \\"), 'fire', 'MassMatrix'),
    V('gravityforces-drops-g', M, ("return InverseDynamics(thetalist, [0] * n, [0] * n, g, \\\n                           [0, 0, 0, 0, 0, 0], Mlist, Glist, Slist)", "return InverseDynamics(thetalist, [0] * n, [0] * n, [0, 0, 0], \\\n                           [0, 0, 0, 0, 0, 0], Mlist, Glist, Slist)"), 'fire', 'GravityForces'),
    V('fd-plus-gravity', M, ("- GravityForces(thetalist, g, Mlist, Glist, Slist) \\", "+ GravityForces(thetalist, g, Mlist, Glist, Slist) \\"), 'fire', 'ForwardDynamics'),
    V('arm-massmatrix-index', A, ("jt = Ji.T @ self._box_spatial_links[i,:,:] @ Ji", "jt = Ji.T @ self._box_spatial_links[i-1,:,:] @ Ji"), 'fire', 'Arm.massMatrix'),
    V('arm-massmatrix-not-congruence', A, ("jt = Ji.T @ self._box_spatial_links[i,:,:] @ Ji", "jt = Ji.T @ self._box_spatial_links[i,:,:] @ self.jacobian(theta)"), 'fire', 'Arm.massMatrix'),
    V('coriolis-with-acceleration', A, ("h = self.inverseDynamics(theta, theta_dot, 0*theta, grav, np.zeros((6, 1)))[0]", "h = self.inverseDynamics(theta, theta_dot, theta_dot, grav, np.zeros((6, 1)))[0]"), 'fire', 'Arm.coriolisGravity'),
    V('fd-wrench-object', A, ("tau,\n            grav,\n            end_effector_wrench.flatten(),\n            link_mass_array,", "tau,\n            grav,\n            end_effector_wrench,\n            link_mass_array,"), 'fire', 'Arm.forwardDynamics'),
    V('fd-arg-order', A, ("theta,\n            theta_dot,\n            tau,\n            grav,", "theta,\n            tau,\n            theta_dot,\n            grav,"), 'fire', 'Arm.forwardDynamics'),
    V('emr-unpack-two', A, ("tau = fmr.InverseDynamics(theta, theta_dot, theta_dot_dot, grav, end_effector_wrench.flatten(),", "tau, wrenches = fmr.InverseDynamics(theta, theta_dot, theta_dot_dot, grav, end_effector_wrench.flatten(),"), 'fire', 'Arm.inverseDynamicsEMR'),
    V('forwarddynamicsE-sign', A, ("mult_term = (tau-h.flatten()-ee.flatten())", "mult_term = (tau-h.flatten()+ee.flatten())"), 'fire', 'Arm.forwardDynamicsE'),
    V('eulerstep-no-dt', M, ("dthetalist + dt * ddthetalist", "dthetalist + ddthetalist"), 'fire', 'EulerStep'),
    # benign
    V('benign-massmatrix-inline', A, ("Ji = self.jacobianLink(i, theta)\n            jt = Ji.T @ self._box_spatial_links[i,:,:] @ Ji\n            M = M + jt", "Ji = self.jacobianLink(i, theta)\n            M = M + Ji.T @ self._box_spatial_links[i,:,:] @ Ji"), 'silent'),
    V('benign-id-rename', M, [("taulist = np.zeros(n)\n    for i in range(n):\n        Mi = np.dot(Mi,Mlist[i])", "taulist = np.zeros(n)\n    for i in range(n):\n        Mi = Mi @ Mlist[i]")], 'silent'),
    V('gravity-through-home-frame', A, ("(fmr.Adjoint(Ti_im1) @ np.hstack((np.array([0,0,0]) , -1*grav))) +", "(self._link_homes_global[i].inv().adjoint() @ np.hstack((np.array([0,0,0]) , -1*grav))) +"), 'fire', 'R08.4'),
    V('gravity-sign', A, ("(fmr.Adjoint(Ti_im1) @ np.hstack((np.array([0,0,0]) , -1*grav))) +", "(fmr.Adjoint(Ti_im1) @ np.hstack((np.array([0,0,0]) , grav))) +"), 'fire', 'base acceleration'),
    V('benign-base-step-simplified', A, ("V[0:6, i] = (A[0:6, i] * theta_dot[i] + fmr.Adjoint(Ti_im1) @ np.zeros((6)))\n                vel_dot[0:6, i] = ((A[0:6, i] * theta_dot_dot[i]) +\n                    (fmr.Adjoint(Ti_im1) @ np.hstack((np.array([0,0,0]) , -1*grav))) +\n                    (fmr.ad(V[0:6, i]) @ A[0:6, i] * theta_dot[i]))", "V[0:6, i] = A[0:6, i] * theta_dot[i]\n                base_accel = fmr.Adjoint(Ti_im1) @ np.hstack((np.zeros(3), -grav))\n                vel_dot[0:6, i] = A[0:6, i] * theta_dot_dot[i] + base_accel"), 'silent'),
]
