from . import V

F = 'basic_robotics/general/faser_transform.py'
H = 'basic_robotics/general/faser_general.py'
VARIANTS = [
    V('set-without-sync', F, ("self.TAA[ind] = val\n        self.TAAtoTM()\n        return self", "self.TAA[ind] = val\n        return self"), 'fire', 'tm.set'),
    V('setitem-early-return', F, ("self.TAA[ind] = val\n        else:", "self.TAA[ind] = val\n            return\n        else:"), 'fire', 'tm.__setitem__'),
    V('setquat-wrong-direction', F, ("self.TM[0:3, 0:3] = R.from_quat(quaternion).as_matrix()\n        self.TMtoTAA()", "self.TM[0:3, 0:3] = R.from_quat(quaternion).as_matrix()\n        self.TAAtoTM()"), 'fire', 'tm.setQuat'),
    V('anglemod-flag-reset', F, ("self.TAA[i, 0] = self.TAA[i, 0] % (2 * np.pi)", "self.TAA[i, 0] = self.TAA[i, 0] % (2 * np.pi)\n                refresh = 0"), 'fire', 'tm.angleMod'),
    V('anglemod-sync-only-first', F, ("if refresh == 1:\n            self.TAAtoTM()", "if refresh == 2:\n            self.TAAtoTM()"), 'fire', 'tm.angleMod'),
    V('new-setter-forgets-sync', F, ("def sTAA(self, TAA):", "def sPos(self, pos):\n        self.TAA[0:3, 0] = pos\n\n    def sTAA(self, TAA):"), 'fire', 'tm.sPos'),
    V('copy-mixed-sources', F, ("copy.TAA = np.copy(self.TAA)", "copy.TAA = np.copy(copy.TAA)"), 'fire', 'tm.copy'),
    V('ctor-array-of-tm-no-sync', F, ("self.TM = initializer_array[0].TM.copy()\n                        self.TMtoTAA()", "self.TM = initializer_array[0].TM.copy()"), 'fire', 'tm.__init__'),
    V('sync-reads-wrong-side', F, ("rotation, transformation =  mr.TransToRp(self.TM)", "rotation, transformation =  mr.TransToRp(TAAtoTM_helper(self.TAA))"), 'fire', 'tm.TMtoTAA'),
    V('external-poke', H, ("modified_point = active_point.copy()", "modified_point = active_point.copy()\n    modified_point.TAA[0] = 0"), 'fire', 'adjustRotationToMidpoint'),
    V('view-write-in-class', F, ("def gPos(self):", "def zeroPos(self):\n        p = self.TAA[0:3]\n        p[0] = 0\n\n    def gPos(self):"), 'fire', 'tm.zeroPos'),
    V('sync-rotation-from-position', F, ("mres = mr.MatrixExp3(mr.VecToso3(self.TAA[3:6].flatten()))", "mres = mr.MatrixExp3(mr.VecToso3(self.TAA[0:3].flatten()))"), 'fire', 'tm.TAAtoTM'),
    V('sync-last-row', F, ("self.TM = np.vstack((np.hstack((mres, self.TAA[0:3])), np.array([0, 0, 0, 1])))", "self.TM = np.vstack((np.hstack((mres, self.TAA[0:3])), np.array([0, 0, 0, 0])))"), 'fire', 'tm.TAAtoTM'),
    V('sync-tmtotaa-swapped-halves', F, ("self.TAA = np.vstack((transformation.reshape((3, 1)), (rotationAA.reshape((3, 1)))))", "self.TAA = np.vstack((rotationAA.reshape((3, 1)), (transformation.reshape((3, 1)))))"), 'fire', 'tm.TMtoTAA'),
    V('sync-tmtotaa-no-log', F, ("rotationAA = mr.so3ToVec(mr.MatrixLog3(rotation))", "rotationAA = mr.so3ToVec(rotation)"), 'fire', 'tm.TMtoTAA'),
    # benign twins
    V('benign-sync-inline', F, ("mres = mr.MatrixExp3(mr.VecToso3(self.TAA[3:6].flatten()))\n        self.TM = np.vstack((np.hstack((mres, self.TAA[0:3])), np.array([0, 0, 0, 1])))", "self.TM = np.vstack((np.hstack((mr.MatrixExp3(mr.VecToso3(self.TAA[3:6].flatten())), self.TAA[0:3])), np.array([0, 0, 0, 1])))"), 'silent'),
    V('benign-sync-in-finally', F, ("self.TAA[ind] = val\n        self.TAAtoTM()\n        return self", "try:\n            self.TAA[ind] = val\n        finally:\n            self.TAAtoTM()\n        return self"), 'silent'),
    V('benign-rename-flag', F, [("refresh = 0", "dirty = 0"), ("refresh = 1", "dirty = 1"), ("if refresh == 1:", "if dirty == 1:")], 'silent'),
    V('benign-copy-method-form', F, ("copy.TM = np.copy(self.TM)", "copy.TM = self.TM.copy()"), 'silent'),
    V('benign-bool-flag', F, [("refresh = 0", "refresh = False"), ("refresh = 1", "refresh = True"), ("if refresh == 1:", "if refresh:")], 'silent'),
    V('benign-stm-copies', F, ("self.TM = TM\n        self.TMtoTAA()", "self.TM = np.array(TM, dtype=float)\n        self.TMtoTAA()"), 'silent'),
    V('copy-constructor-shares-matrix', F, ("self.TM = initializer_array.TM.copy()", "self.TM = initializer_array.TM"), 'fire', 'R03.5'),
    V('benign-copy-constructor-np-copy', F, ("self.TM = initializer_array.TM.copy()", "self.TM = np.array(initializer_array.TM)"), 'silent'),
    V('copy-shares-matrix-buffer', 'basic_robotics/general/faser_transform.py', ('        copy.TM = np.copy(self.TM)\n        copy.TAA = np.copy(self.TAA)\n', '        copy.TM = np.asarray(self.TM, dtype=float)\n        copy.TAA = np.array(self.TAA, dtype=float).reshape((6, 1))\n'), 'fire', 'R03.5'),
    V('benign-copy-through-array-constructor', 'basic_robotics/general/faser_transform.py', ('        copy.TM = np.copy(self.TM)\n        copy.TAA = np.copy(self.TAA)\n', '        copy.TM = np.array(self.TM, dtype=float)\n        copy.TAA = np.array(self.TAA, dtype=float).reshape((6, 1))\n'), 'silent'),
]
