from . import V

P = 'basic_robotics/kinematics/sp_model.py'
VARIANTS = [
    V('fk-stale-top-after-uninvert', P, ("self._fixUpsideDown()\n            bottom, top = self.getBottomT(), self.getTopT()\n            self._IKHelper(top, bottom)", "self._fixUpsideDown()"), 'fire', 'SP.FK'),
    V('validator-overwrites-false', P, ("temp_valid = self._plateRotationConstraint()\n            valid = valid and temp_valid", "temp_valid = self._plateRotationConstraint()\n            valid = temp_valid"), 'fire', 'SP.validatePlateRotation'),
    V('revalidate-too-shallow', P, ("bottom_plate_pos = self.getBottomT(), protect = True)\n                valid = self.validate(True, 3)", "bottom_plate_pos = self.getBottomT(), protect = True)\n                valid = self.validate(True, 2)"), 'fire', 'SP.validateInteriorAngles'),
    V('wrong-switch', P, ("if self.validation_settings[1]:\n            temp_valid = self._continuousTranslationConstraint()", "if self.validation_settings[0]:\n            temp_valid = self._continuousTranslationConstraint()"), 'fire', 'SP.validateContinuousTranslation'),
    V('query-no-restore', P, ("#Restore original Values\n        self.IK(top_plate_pos = old_top_plate_transform,\n                bottom_plate_pos = old_bottom_plate_transform, protect = protect)\n        return inverse_jacobian", "return inverse_jacobian"), 'fire', 'SP.inverseJacobian'),
    V('query-restores-swapped', P, ("self.IK(top_plate_pos = old_top_plate_transform,\n                bottom_plate_pos = old_bottom_plate_transform, protect = protect)", "self.IK(top_plate_pos = old_bottom_plate_transform,\n                bottom_plate_pos = old_top_plate_transform, protect = protect)"), 'fire', 'SP.inverseJacobian'),
    V('unbounded-fallback', P, [("return self._FKSolve(L, bottom_plate_pos_backup, protect, _fallback = True)", "return self._FKSolve(L, bottom_plate_pos_backup, protect, _fallback = False)"),
                                ("return self._FKRaphson(L, plate_pos, protect, _fallback = True)", "return self._FKRaphson(L, plate_pos, protect, _fallback = False)")], 'fire', 'call cycle'),
    V('bounded-fallback-asymmetric', P, ("return self._FKSolve(L, bottom_plate_pos_backup, protect, _fallback = True)", "return self._FKSolve(L, bottom_plate_pos_backup, protect)"), 'silent'),
    V('revalidation-drops-donothing', P, ("self._lengthCorrectiveAction()\n                valid = self.validate(True, 1)", "self._lengthCorrectiveAction()\n                valid = self.validate(False, 1)"), 'fire', 'SP.validateLegs'),
    V('new-writer-of-lengths', P, ("def getLens(self) -> 'np.ndarray[float]':", "def setLens(self, L):\n        self.lengths = L\n\n    def getLens(self) -> 'np.ndarray[float]':"), 'fire', 'SP.setLens'),
    V('move-forgets-ik', P, ("self._base_pos_global = new_pos.copy()\n        self.IK(\n            top_plate_pos = fsr.localToGlobal(self.getBottomT(),\n                    self._current_plate_transform_local),\n            protect = protect)", "self._base_pos_global = new_pos.copy()"), 'fire', 'SP.move'),
    V('corrective-without-fk', P, ("self.FK(self.lengths.copy(), protect = True)\n        #print(self.lengths)", "#print(self.lengths)"), 'fire', 'R10.2'),
    V('validators-out-of-order', P, ("if validation_limit > 1: valid = self.validateContinuousTranslation(valid, donothing)\n        if validation_limit > 2: valid = self.validateInteriorAngles(valid, donothing)", "if validation_limit > 1: valid = self.validateInteriorAngles(valid, donothing)\n        if validation_limit > 2: valid = self.validateContinuousTranslation(valid, donothing)"), 'fire', 'SP.validate'),
    # benign
    V('benign-validate-level-higher', P, ("valid = self.validate(True, 1)", "valid = self.validate(True, 2)"), 'silent'),
    V('benign-setplatepos-first', P, ("self._IKHelper(coords, bottom_plate_pos_backup)\n            #self._base_pos_global = bottom_plate_pos_backup\n            #@ tm([0, 0, self.bottom_plate_thickness, 0, 0, 0])\n            #self._end_effector_pos_global = coords #@ tm([0, 0, self.top_plate_thickness, 0, 0, 0])\n            self._setPlatePos(bottom_plate_pos_backup, coords)", "self._setPlatePos(bottom_plate_pos_backup, coords)\n            self._IKHelper(coords, bottom_plate_pos_backup)"), 'silent'),
]
