from . import V

T = 'basic_robotics/general/faser_transform.py'
H = 'basic_robotics/general/basic_helpers.py'
M = 'basic_robotics/modern_robotics_numba/modern_high_performance.py'
VARIANTS = [
    V('pair-index-typo', T, ("initializer_array[1][1], initializer_array[1][2]], rpy)", "initializer_array[1][2], initializer_array[1][2]], rpy)"), 'fire', 'tm.__init__'),
    V('from6dof-slot-swap', T, ("self.TAA = np.array([initializer_array[0],\n                    initializer_array[1],\n                    initializer_array[2],\n                    initializer_array[3],\n                    initializer_array[4],\n                    initializer_array[5]], dtype=float)", "self.TAA = np.array([initializer_array[0],\n                    initializer_array[1],\n                    initializer_array[2],\n                    initializer_array[3],\n                    initializer_array[5],\n                    initializer_array[4]], dtype=float)"), 'fire', 'tm.from6DOF'),
    V('matmul-operands-swapped', T, ("if isinstance(other_object, tm):\n            return tm(self.TM @ other_object.TM)\n        else:\n            if isinstance(other_object, np.ndarray):\n                return tm(self.TM @ other_object)", "if isinstance(other_object, tm):\n            return tm(other_object.TM @ self.TM)\n        else:\n            if isinstance(other_object, np.ndarray):\n                return tm(self.TM @ other_object)"), 'fire', 'tm.__matmul__'),
    V('wrapper-args-swapped', H, ("return tm(mr.GlobalToLocal(reference.gTAA(), rel.gTAA()))", "return tm(mr.GlobalToLocal(rel.gTAA(), reference.gTAA()))"), 'fire', 'globalToLocal'),
    V('quat-asymmetric-convention', T, ("return R.from_matrix(self.TM[0:3, 0:3]).as_quat()", "return R.from_matrix(self.TM[0:3, 0:3]).as_quat(scalar_first=True)"), 'fire', 'tm.getQuat'),
    V('rpy-flag-dropped', T, ("return self.from6DOF(initializer_array.flatten(), rpy)", "return self.from6DOF(initializer_array.flatten(), False)"), 'fire', 'tm.__init__'),
    V('from7dof-quat-offset', T, ("self.setQuat(initializer_array[3:])", "self.setQuat(initializer_array[2:6])"), 'fire', 'tm.from7DOF'),
    V('g2l-no-transpose', M, ("locPos = rodRefRod.conj().T @ (relPos - refPos)", "locPos = rodRefRod @ (relPos - refPos)"), 'fire', 'GlobalToLocal'),
    V('l2g-rotation-order', M, ("rod = so3ToVec(MatrixLog3(rodRefRod @ trod))", "rod = so3ToVec(MatrixLog3(trod @ rodRefRod))"), 'fire', 'LocalToGlobal'),
    V('inv-not-transinv', T, ("TM = mr.TransInv(self.TM)\n        return tm(TM)", "TM = self.TM.T\n        return tm(TM)"), 'fire', 'tm.inv'),
    V('sub-adds', T, ("return tm(self.TAA - other_object.TAA)", "return tm(self.TAA + other_object.TAA)"), 'fire', 'tm.__sub__'),
    V('rpy3-slots', T, ("temp_init =  tm([0, 0, 0, initializer_array[0], 0, 0])\n            temp_init = temp_init @ tm([0, 0, 0, 0, initializer_array[1], 0])", "temp_init =  tm([0, 0, 0, initializer_array[0], 0, 0])\n            temp_init = temp_init @ tm([0, 0, 0, 0, 0, initializer_array[1]])"), 'fire', 'tm.from3DOF'),
    # benign
    V('benign-pair-unpack', T, ("return self.from6DOF([initializer_array[0][0], initializer_array[0][1], \n                        initializer_array[0][2], initializer_array[1][0], \n                        initializer_array[1][1], initializer_array[1][2]], rpy)", "return self.from6DOF([initializer_array[0][0], initializer_array[0][1], initializer_array[0][2],\n                        initializer_array[1][0], initializer_array[1][1], initializer_array[1][2]], rpy)"), 'silent'),
    V('benign-g2l-plain-T', M, ("locPos = rodRefRod.conj().T @ (relPos - refPos)", "locPos = rodRefRod.T @ (relPos - refPos)"), 'silent'),
]
