from . import V

G = 'basic_robotics/general/faser_general.py'
H = 'basic_robotics/general/basic_helpers.py'
T = 'basic_robotics/general/faser_transform.py'
M = 'basic_robotics/modern_robotics_numba/modern_high_performance.py'
VARIANTS = [
    V('mirror-plus-d', G, ("k = (-a * x1 - b * y1 - c * z1 + d) / float((a * a + b * b + c * c))", "k = (-a * x1 - b * y1 - c * z1 - d) / float((a * a + b * b + c * c))"), 'fire', 'mirror'),
    V('plane-d-from-wrong-sign', G, ("d = np.dot(cp, p3)", "d = -np.dot(cp, p3)"), 'fire', 'mirror'),
    V('mirror-single-step', G, ("x3 = 2 * x2-x1", "x3 = x2"), 'fire', 'mirror'),
    V('tm-anglemod-pi', T, ("self.TAA[i, 0] = self.TAA[i, 0] % (2 * np.pi)", "self.TAA[i, 0] = self.TAA[i, 0] % (np.pi)"), 'fire', 'tm.angleMod'),
    V('helper-anglemod-threshold', H, ("if np.size(rad) == 1:\n        if abs(rad) > 2 * np.pi:", "if np.size(rad) == 1:\n        if abs(rad) > np.pi:"), 'fire', 'angleMod'),
    V('midpoint-log-of-half', G, ("mr.MatrixLog3(Re)/2", "mr.MatrixLog3(Re/2)"), 'fire', 'tmInterpMidpoint'),
    V('midpoint-position-not-mean', G, ("taar[0:3] = (ref_point_1[0:3] + ref_point_2[0:3])/2", "taar[0:3] = (ref_point_1[0:3] + ref_point_2[0:3])"), 'fire', 'tmInterpMidpoint'),
    V('ikpath-range-steps', G, ("for i in range(steps - 1):\n        pos = tm(initial.gTAA() + delta * i)", "for i in range(steps):\n        pos = tm(initial.gTAA() + delta * i)"), 'fire', 'IKPath'),
    V('ikpath-delta-denominator', G, ("delta = (goal.gTAA() - initial.gTAA())/(steps - 1)", "delta = (goal.gTAA() - initial.gTAA())/(steps)"), 'fire', 'IKPath'),
    V('fibosphere-not-unit', G, ("x, y, z = np.cos(theta) * np.sin(phi), np.sin(theta) * np.sin(phi), np.cos(phi)", "x, y, z = np.cos(theta) * np.sin(phi), np.sin(theta) * np.cos(phi), np.cos(phi)"), 'fire', 'fiboSphere'),
    V('chainjacobian-offset', G, ("T = T @ transformFromTwist(theta[i-1] * screws[0:6, i-1])", "T = T @ transformFromTwist(theta[i] * screws[0:6, i-1])"), 'fire', 'chainJacobian'),
    V('lookat-left-handed', G, ("xax = mr.Normalize(np.cross(up, zax))\n    yax = np.cross(zax, xax)\n    R2 = np.eye(4)\n    R2[0:3, 0:3] = np.array([xax, yax, zax]).T\n    R2[0:3, 3] = va\n    try:", "xax = mr.Normalize(np.cross(up, zax))\n    yax = np.cross(xax, zax)\n    R2 = np.eye(4)\n    R2[0:3, 0:3] = np.array([xax, yax, zax]).T\n    R2[0:3, 3] = va\n    try:"), 'fire', 'lookAt'),
    V('closegap-not-unit', G, ("return_transform[i] = origin_point.TAA[i] + (origin_to_goal[i] / var) * delta", "return_transform[i] = origin_point.TAA[i] + (origin_to_goal[i]) * delta"), 'fire', 'closeLinearGap'),
    V('twist-exp-of-transform', G, ("tms = mr.VecTose3(input_twist)\n    tmr = mr.MatrixExp6(tms)", "tms = mr.VecTose3(input_twist)\n    tmr = mr.MatrixExp6(mr.MatrixExp6(tms))"), 'fire', 'transformFromTwist'),
    V('port-anglemod-modulus', M, ("rad[i] = rad[i] % (2 * np.pi)", "rad[i] = rad[i] % (np.pi)"), 'fire', 'AngleMod'),
    # benign
    V('benign-mirror-rename', G, [("k = (-a * x1 - b * y1 - c * z1 + d) / float((a * a + b * b + c * c))", "k = (d - a * x1 - b * y1 - c * z1) / float((a * a + b * b + c * c))")], 'silent'),
    V('benign-plane-edges', G, ("v1 = p3 - p1\n    v2 = p2 - p1", "v1 = p3 - p2\n    v2 = p1 - p2"), 'silent'),
    V('benign-midpoint-half', G, ("mr.MatrixLog3(Re)/2", "mr.MatrixLog3(Re)/2.0"), 'silent'),
    V('sphere-ring-radius-unclamped', G, [("arccos_e = np.arccos(np.clip(e, -1.0, 1.0))\n        sin_arccos_e = np.sin(arccos_e)", "ring_radius = np.sqrt(1.0 - e * e)"), ("x = np.cos(a) * sin_arccos_e\n            y = np.sin(a) * sin_arccos_e\n            z = np.cos(arccos_e)", "x = np.cos(a) * ring_radius\n            y = np.sin(a) * ring_radius\n            z = e")], 'fire', 'R18.8'),
    V('benign-sphere-ring-radius-clamped', G, [("arccos_e = np.arccos(np.clip(e, -1.0, 1.0))\n        sin_arccos_e = np.sin(arccos_e)", "ring_radius = np.sqrt(max(0.0, 1.0 - e * e))"), ("x = np.cos(a) * sin_arccos_e\n            y = np.sin(a) * sin_arccos_e\n            z = np.cos(arccos_e)", "x = np.cos(a) * ring_radius\n            y = np.sin(a) * ring_radius\n            z = np.clip(e, -1.0, 1.0)")], 'silent'),
    V('benign-ikpath-comprehension', G, ('pose_list = []\n    for i in range(steps - 1):\n        pos = tm(initial.gTAA() + delta * i)\n        pose_list.append(pos)\n    pose_list.append(goal)', 'start = initial.gTAA()\n    pose_list = [tm(start + delta * i) for i in range(steps - 1)]\n    pose_list.append(goal)'), 'silent'),
    V('ikpath-comprehension-one-too-many', G, ('pose_list = []\n    for i in range(steps - 1):\n        pos = tm(initial.gTAA() + delta * i)\n        pose_list.append(pos)\n    pose_list.append(goal)', 'start = initial.gTAA()\n    pose_list = [tm(start + delta * i) for i in range(steps)]\n    pose_list.append(goal)'), 'fire', 'IKPath'),
    V('ikpath-comprehension-skips-start', G, ('pose_list = []\n    for i in range(steps - 1):\n        pos = tm(initial.gTAA() + delta * i)\n        pose_list.append(pos)\n    pose_list.append(goal)', 'start = initial.gTAA()\n    pose_list = [tm(start + delta * (i + 1)) for i in range(steps - 1)]\n    pose_list.append(goal)'), 'fire', 'IKPath'),
]
