from . import V

D = 'basic_robotics/utilities/disp.py'
K = 'basic_robotics/general/faser_screw.py'
VARIANTS = [
    V('print-differs-from-return', D, ("if not noprint:\n        print(matstr)", "if not noprint:\n        print(matstr[:-1])"), 'fire', 'disp'),
    V('nd-dropped-3d', D, ("strr += dispa(matrix[i,], nd = nd, new = False)\n        strr += (t_bl + t_bar + \"═ \" + title + \" END ═\" + t_bar + \"╝\\n\")\n\n    #Prints 4D", "strr += dispa(matrix[i,], new = False)\n        strr += (t_bl + t_bar + \"═ \" + title + \" END ═\" + t_bar + \"╝\\n\")\n\n    #Prints 4D"), 'fire', 'dims==3'),
    V('skip-last-row', D, ("elif dims == 2:\n        if title != \"MATRIX\":\n            strr+=(t_tl + t_bar + \" \" + title + \" BEGIN \" + t_bar + \"╗\\n\")\n        for i in range(shape[0]):", "elif dims == 2:\n        if title != \"MATRIX\":\n            strr+=(t_tl + t_bar + \" \" + title + \" BEGIN \" + t_bar + \"╗\\n\")\n        for i in range(shape[0] - 1):"), 'fire', 'dims==2'),
    V('isinf-guard-removed', D, ("if math.isinf(matrix[i]):\n                    nm = 3\n                else:\n                    nm = len(str(abs(round(matrix[i]))))", "nm = len(str(abs(round(matrix[i]))))"), 'fire', 'round(matrix[i])'),
    V('middle-rows-dropped', D, ("else:\n                strr += dispa(matrix[i,], nd = nd, new = False)\n        if title != \"MATRIX\":\n            strr+=(t_bl", "else:\n                pass\n        if title != \"MATRIX\":\n            strr+=(t_bl"), 'fire', 'dims==2'),
    V('element-formatted-twice', D, ("h = h + fmat.format(matrix[i])\n            if i != shape[0] - 1:", "h = h + fmat.format(matrix[i])\n            if i == 0:\n                h = h + fmat.format(matrix[i])\n            if i != shape[0] - 1:"), 'fire', 'dims==1'),
    V('precision-not-nd', D, ("for i in range(shape[0]):\n            t_nd = nd\n            if (abs(matrix[i]) >= 9999):", "for i in range(shape[0]):\n            t_nd = 3\n            if (abs(matrix[i]) >= 9999):"), 'fire', 'dims==1'),
    V('probe-outside-try', D, ("dims = len(shape)\n        if dims >= 2:\n            t_key = shape[dims - 1]\n        else:\n            t_key = max(shape)\n            if new and title != \"MATRIX\":\n                strr+= title + \": \"\n    except:", "dims = len(shape)\n        if dims >= 2:\n            t_key = shape[dims - 1]\n        else:\n            t_key = 1\n            if new and title != \"MATRIX\":\n                strr+= title + \": \"\n    except:"), 'fire', 'R20.3'),
    V('noprint-inverted', D, ("if not noprint:\n        print(matstr)", "if noprint:\n        print(matstr)"), 'fire', 'disp'),
    V('tex-mode-no-strip', D, ("matstr = disptex(matrix, title, nd)[:-1]", "matstr = disptex(matrix, title, nd)"), 'fire', 'disp'),
    # benign
    V('benign-rename-loopvar', D, ("for i in range(shape[0]):\n            if pdims:\n                strr += (\"DIM \" + str(i) + \":\\n\")\n            strr += dispa(matrix[i,], nd = nd, new = False)", "for k in range(shape[0]):\n            if pdims:\n                strr += (\"DIM \" + str(k) + \":\\n\")\n            strr += dispa(matrix[k,], nd = nd, new = False)"), 'silent'),
    V('benign-explicit-false', D, ("if not noprint:\n        print(matstr)", "if noprint == False:\n        print(matstr)"), 'silent'),
    V('latex-int-conversion-unguarded', D, ("strr+= str(round(val, nd))", "val = round(val, nd)\n            if nd == 0:\n                val = int(val)\n            strr+= str(val)"), 'fire', 'R20.4'),
    V('latex-round-on-raw-element', D, ("val = matrix[i, j]\n            if not hasattr(val, '__round__'):\n                #numpy.bool has no __round__\n                val = float(val)\n            strr+= str(round(val, nd))", "strr+= str(round(matrix[i, j], nd))"), 'fire', 'R20.5'),
    V('benign-latex-float-conversion-first', D, ("val = matrix[i, j]\n            if not hasattr(val, '__round__'):\n                #numpy.bool has no __round__\n                val = float(val)\n            strr+= str(round(val, nd))", "strr+= str(round(float(matrix[i, j]), nd))"), 'silent'),
    V('disp-snaps-small-values-before-rendering', D, ("if mode == 0:", "if hasattr(matrix, 'dtype') and matrix.dtype.kind == 'f':\n        matrix = matrix * (abs(matrix) >= 10**-nd)\n    if mode == 0:"), 'fire', 'R20.1'),
    V('screw-payload-row-layout-kept', K, ('if not data.shape == ((6,1)):\n            self.data = data.reshape((6,1))\n        else:\n            self.data = data', 'if data.ndim == 1:\n            data = data.reshape((6,1))\n        self.data = data'), 'fire', 'R20.7'),
    V('benign-screw-payload-always-reshaped', K, ('if not data.shape == ((6,1)):\n            self.data = data.reshape((6,1))\n        else:\n            self.data = data', 'self.data = np.reshape(data, (6, 1))'), 'silent'),
    V('benign-screw-payload-reshaped-unless-column', K, ('if not data.shape == ((6,1)):\n            self.data = data.reshape((6,1))\n        else:\n            self.data = data', 'if data.shape != (6, 1):\n            data = data.reshape((6, 1))\n        self.data = data'), 'silent'),
]
