from . import V

T = 'basic_robotics/general/faser_transform.py'
S = 'basic_robotics/general/faser_screw.py'
W = 'basic_robotics/general/faser_wrench.py'
G = 'basic_robotics/general/faser_general.py'
H = 'basic_robotics/general/basic_helpers.py'
A = 'basic_robotics/kinematics/arm_model.py'
P = 'basic_robotics/kinematics/sp_model.py'
M = 'basic_robotics/modern_robotics_numba/modern_high_performance.py'
VARIANTS = [
    V('gtm-returns-internal', T, ("return np.copy(self.TM)", "return self.TM"), 'fire', 'tm.gTM'),
    V('grot-view', T, ("return self.TM[0:3, 0:3].copy()", "return self.TM[0:3, 0:3]"), 'fire', 'tm.gRot'),
    V('screw-default-array', S, ("data : 'np.ndarray[float]' = None, frame_applied", "data : 'np.ndarray[float]' = np.zeros((6,1)), frame_applied"), 'fire', 'Screw.__init__'),
    V('closelineargap-inplace', G, ("origin_to_goal = goal_point - origin_point\n    #normalize\n    return_transform = np.zeros((6, 1))\n    var = mr.Norm6(origin_to_goal[0:6])\n    #print(var, \"var\")\n    if var == 0:\n        return goal_point\n    for i in range(6):\n        return_transform[i] = origin_point.TAA[i]", "origin_to_goal = goal_point - origin_point\n    #normalize\n    return_transform = origin_point.TAA\n    var = mr.Norm6(origin_to_goal[0:6])\n    #print(var, \"var\")\n    if var == 0:\n        return goal_point\n    for i in range(6):\n        return_transform[i] = origin_point.TAA[i]"), 'fire', 'closeLinearGap'),
    V('screw-add-mutates-operand', S, ("local_frame_other = other_object.copy().changeFrame(self.frame_applied)\n                return Screw(self.data + local_frame_other.data", "local_frame_other = other_object.changeFrame(self.frame_applied)\n                return Screw(self.data + local_frame_other.data"), 'fire', 'Screw.__add__'),
    V('screw-getdata-view', S, ("return self.data.copy()\n\n    def getPitch", "return self.data\n\n    def getPitch"), 'fire', 'Screw.getData'),
    V('wrench-getforce-view', W, ("return self.data[3:6].copy()", "return self.data[3:6]"), 'fire', 'Wrench.getForce'),
    V('screw-copy-shares', S, ("new_array_base = Screw(self.data.copy(), self.frame_applied.copy())", "new_array_base = Screw(self.data, self.frame_applied.copy())"), 'fire', 'Screw.copy'),
    V('tm-copy-shares', T, ("copy.TM = np.copy(self.TM)", "copy.TM = self.TM"), 'fire', 'tm.copy'),
    V('tm-abs-inplace', T, ("return tm(abs(self.TAA))", "np.abs(self.TAA, out=self.TAA)\n        self.TAA[:] = abs(self.TAA)\n        return tm(self.TAA)"), 'fire', 'tm.__abs__'),
    V('arm-ctor-writes-screws', A, ("self.screw_list = np.copy(screw_list)\n        self.original_screw_list_body", "self.screw_list = screw_list\n        self.original_screw_list_body"), 'fire', 'Arm.initialize'),
    V('sp-ctor-keeps-array', P, ("self._bottom_joints_local = np.copy(bottom_joints)", "self._bottom_joints_local = bottom_joints\n        bottom_joints[2, :] = bottom_joints[2, :] + 0.0"), 'fire', 'SP.__init__'),
    V('port-fkinbody-inplace', M, ("T = M\n    for i in range(len(thetalist)):\n        T = np.dot(T, MatrixExp6(VecTose3(Blist[:, i] * thetalist[i])))", "T = M\n    for i in range(len(thetalist)):\n        T[:, :] = np.dot(T, MatrixExp6(VecTose3(Blist[:, i] * thetalist[i])))"), 'fire', 'FKinBody'),
    V('port-jacobian-writes-slist', M, ("Js = SafeCopy(Slist)", "Js = Slist"), 'fire', 'JacobianSpace'),
    V('helper-via-callee', G, ("geo_error = globalToLocal(ref_point_1, ref_point_2)\n    d = mr.Norm6(geo_error[0:6])", "geo_error = globalToLocal(ref_point_1, ref_point_2)\n    ref_point_1.angleMod()\n    d = mr.Norm6(geo_error[0:6])"), 'fire', 'arcDistance'),
    V('midpoint-inplace-division', G, ("return (ref_point_1 + ref_point_2)/2", "ref_point_1.TAA += ref_point_2.TAA\n    return ref_point_1 / 2"), 'fire', 'tmAvgMidpoint'),
    V('twfreturns-operand', G, ("return wrench.copy().changeFrame(new_wrench_frame, old_wrench_frame)", "return wrench.changeFrame(new_wrench_frame, old_wrench_frame)"), 'fire', 'transformWrenchFrame'),
    V('tm-ctor-stores-default', T, ("init_arr_len = len(initializer_array)\n        if isinstance(initializer_array, list):", "init_arr_len = len(initializer_array)\n        if init_arr_len == 4:\n            self.TM = initializer_array\n            self.TMtoTAA()\n            return\n        if isinstance(initializer_array, list):"), 'fire', 'tm.__init__'),
    # benign twins
    V('benign-copy-method', T, ("return np.copy(self.TM)", "return self.TM.copy()"), 'silent'),
    V('benign-array-copy', T, ("return np.copy(self.TAA)", "return np.array(self.TAA)"), 'silent'),
    V('benign-local-scratch', G, ("x0p[0] = x0p[0] + delta", "x0p[0] += delta"), 'silent'),
    V('benign-rebinding-then-store', M, ("thetalist = thetalist.flatten()\n    Js = SafeCopy(Slist)", "thetalist = thetalist.flatten() * 1.0\n    thetalist[0] = thetalist[0] + 0.0\n    Js = SafeCopy(Slist)"), 'silent'),
]
