from . import V

F = 'basic_robotics/path_planning/pathplanner.py'
VARIANTS = [
    V('drop-axis', F, ("if abs(midpoint_ab[2]) > extents[2] + abs_obstruct[2]:\n                continue\n", ""), 'fire', 'box axis 2'),
    V('cross-extent-index', F, ("(extents[1] * abs_obstruct[2] + extents[2] * abs_obstruct[1])):", "(extents[0] * abs_obstruct[2] + extents[2] * abs_obstruct[1])):"), 'fire', 'RRTStar.obstruction'),
    V('ge-instead-of-gt', F, ("if abs(midpoint_ab[0]) > extents[0] + abs_obstruct[0]:", "if abs(midpoint_ab[0]) >= extents[0] + abs_obstruct[0]:"), 'fire', 'boundary contact'),
    V('cross-sign', F, ("abs(midpoint_ab[0] * L[1] - midpoint_ab[1] * L[0])", "abs(midpoint_ab[0] * L[1] + midpoint_ab[1] * L[0])"), 'fire', 'RRTStar.obstruction'),
    V('duplicate-axis', F, ("if abs(midpoint_ab[1]) > extents[1] + abs_obstruct[1]:", "if abs(midpoint_ab[0]) > extents[0] + abs_obstruct[0]:"), 'fire', 'box axis 1'),
    V('wrong-extent', F, ("extents = np.abs(bounds_2[0:3].reshape((3))-mid)", "extents = np.abs(bounds_2[0:3].reshape((3))-bounds_1[0:3].reshape((3)))"), 'fire', 'RRTStar.obstruction'),
    V('midpoint-not-halved', F, ("midpoint_ab = (a + b) / 2", "midpoint_ab = (a + b)"), 'fire', 'RRTStar.obstruction'),
    V('return-true-default', F, ("return True\n        return False\n\n    def armObstruction", "return True\n        return True\n\n    def armObstruction"), 'fire', 'return False after the loop'),
    V('corner-component-swapped', F, ("tm([L[0], L[1], L[2], -2*np.pi, -2*np.pi, -2*np.pi])", "tm([L[0], L[2], L[1], -2*np.pi, -2*np.pi, -2*np.pi])"), 'fire', 'addObstruction'),
    V('b-uses-point1', F, ("b = np.array([point_2[0] - mid[0], point_2[1] - mid[1], point_2[2] - mid[2]])", "b = np.array([point_2[0] - mid[0], point_1[1] - mid[1], point_2[2] - mid[2]])"), 'fire', 'RRTStar.obstruction'),
    # benign twins
    V('benign-L-from-b', F, ("L = (a - midpoint_ab)", "L = (b - midpoint_ab)"), 'silent'),
    V('benign-permute-tests', F, ("if abs(midpoint_ab[0]) > extents[0] + abs_obstruct[0]:\n                continue\n            if abs(midpoint_ab[1]) > extents[1] + abs_obstruct[1]:\n                continue", "if abs(midpoint_ab[1]) > extents[1] + abs_obstruct[1]:\n                continue\n            if abs(midpoint_ab[0]) > extents[0] + abs_obstruct[0]:\n                continue"), 'silent'),
    V('benign-extent-from-lo', F, ("extents = np.abs(bounds_2[0:3].reshape((3))-mid)", "extents = np.abs(mid - bounds_1[0:3].reshape((3)))"), 'silent'),
    V('benign-lt-form', F, ("if abs(midpoint_ab[0]) > extents[0] + abs_obstruct[0]:", "if extents[0] + abs_obstruct[0] < abs(midpoint_ab[0]):"), 'silent'),
    V('benign-half-diff', F, ("L = (a - midpoint_ab)", "L = (a - b) / 2"), 'silent'),
    V('unsound-sphere-prerejection', F, ("abs_obstruct = np.abs(L)\n", "abs_obstruct = np.abs(L)\n            if midpoint_ab @ midpoint_ab > extents @ extents + L @ L:\n                continue\n"), 'fire', 'not a separating-axis inequality'),
    V('benign-sound-sphere-prerejection', F, ("abs_obstruct = np.abs(L)\n", "abs_obstruct = np.abs(L)\n            if np.linalg.norm(midpoint_ab) > np.linalg.norm(extents) + np.linalg.norm(L):\n                continue\n"), 'silent'),
    V('shared-default-obstruction-list', F, [("def __init__(self, origin = None):", "def __init__(self, origin = None, obstructions = []):"), ("self.obstructions = []", "self.obstructions = obstructions")], 'fire', 'R15.4'),
    V('benign-given-or-fresh-obstruction-list', F, [("def __init__(self, origin = None):", "def __init__(self, origin = None, obstructions = None):"), ("self.obstructions = []", "self.obstructions = list(obstructions) if obstructions is not None else []")], 'silent'),
    V('class-level-obstruction-list', F, ("self.obstructions = []\n", "pass\n"), 'fire', 'R15.4'),
    V('box-not-stored-when-corners-enclosed', F, ("self.obstructions.append([", "if any(ob[0][0] <= L[0] <= ob[1][0] for ob in self.obstructions):\n            return\n        self.obstructions.append(["), 'fire', 'R15.3'),
    V('benign-corners-normalised-per-axis', F, ("tm([L[0], L[1], L[2], -2*np.pi, -2*np.pi, -2*np.pi]),\n            tm([R[0], R[1], R[2], 2*np.pi, 2*np.pi, 2*np.pi])])", "tm([min(L[0], R[0]), min(L[1], R[1]), min(L[2], R[2]), -2*np.pi, -2*np.pi, -2*np.pi]),\n            tm([max(L[0], R[0]), max(L[1], R[1]), max(L[2], R[2]), 2*np.pi, 2*np.pi, 2*np.pi])])"), 'silent'),
    V('node-position-through-general-constructor', 'basic_robotics/path_planning/pathplanner.py', ('        self.position = position\n        self.parent = parent\n        self.mode = mode', '        self.position = position if isinstance(position, tm) else tm(position)\n        self.parent = parent\n        self.mode = mode'), 'fire', 'R15.6'),
    V('benign-node-position-copied', 'basic_robotics/path_planning/pathplanner.py', ('        self.position = position\n        self.parent = parent\n        self.mode = mode', '        self.position = None if position is None else position.copy()\n        self.parent = parent\n        self.mode = mode'), 'silent'),
    V('benign-node-position-named', 'basic_robotics/path_planning/pathplanner.py', ('        self.position = position\n        self.parent = parent\n        self.mode = mode', '        where = position\n        self.parent = parent\n        self.position = where\n        self.mode = mode'), 'silent'),
    V('terrain-regeneration-drops-tail-of-box-list', 'basic_robotics/path_planning/pathplanner.py', ('        cx = int(xd/xc)\n        cy = int(yd/yc)\n        for i in range(cx):', "        cx = int(xd/xc)\n        cy = int(yd/yc)\n        del self.obstructions[len(self.obstructions) - getattr(self, 'terrain_blocks', 0):]\n        self.terrain_blocks = cx * cy\n        for i in range(cx):"), 'fire', 'R15.4'),
]
