from . import V

A = 'basic_robotics/kinematics/arm_model.py'
R = 'basic_robotics/kinematics/robot_model.py'
G = 'basic_robotics/general/faser_general.py'
VARIANTS = [
    V('toolchange-stale-body-screws', A, ("self._end_effector_home = new_home\n        self._helper_determine_eef_to_last_joint()\n        self._helper_refresh_body_screws()", "self._end_effector_home = new_home\n        self._helper_determine_eef_to_last_joint()"), 'fire', 'Arm.setArbitraryHome'),
    V('initialize-stale-body-screws', A, ("self._base_pos_global = base_pos_global.copy()\n        self._helper_refresh_body_screws()", "self._base_pos_global = base_pos_global.copy()"), 'fire', 'R06.1'),
    V('body-jacobian-from-space-screws', A, ("return fmr.JacobianBody(self.screw_list_body, theta)", "return fmr.JacobianBody(self.screw_list, theta)"), 'fire', 'Arm.jacobianBody'),
    V('statics-no-transpose', R, ("self._last_tau = self.jacobian(*args, **kwargs).T @ eef_wrench", "self._last_tau = self.jacobian(*args, **kwargs) @ eef_wrench"), 'fire', 'Robot.staticForces'),
    V('body-statics-space-jacobian', R, ("self._last_tau =  self.jacobianBody(*args, **kwargs).T @ eef_wrench", "self._last_tau =  self.jacobian(*args, **kwargs).T @ eef_wrench"), 'fire', 'Robot.staticForcesBody'),
    V('link-jacobian-index-mismatch', A, ("t_ad = self.FKLink(theta, i).inv().adjoint()", "t_ad = self.FKLink(theta, i - 1).inv().adjoint()"), 'fire', 'Arm.jacobianLink'),
    V('linkmass-cg-index', A, ("link_mass_cg = self._link_mass_grav_centers[i]", "link_mass_cg = self._link_mass_grav_centers[i-1]"), 'fire', 'Arm.staticForcesWithLinkMasses'),
    V('linkmass-no-accumulation', A, ("carry_wrench = carry_wrench + fsr.makeWrench(applied_pos_global, link_mass, self.grav)", "carry_wrench = end_effector_wrench + fsr.makeWrench(applied_pos_global, link_mass, self.grav)"), 'fire', 'Arm.staticForcesWithLinkMasses'),
    V('linkmass-prefix-jacobian', A, ("tau = jacobian[0:6, 0:i].T @ carry_wrench", "tau = jacobian[0:6, 0:i+1].T @ carry_wrench"), 'fire', 'Arm.staticForcesWithLinkMasses'),
    V('generic-body-jacobian-no-inverse', R, ("return self._end_effector_pos_global.inv().adjoint() @ self.jacobian(*args, **kwargs)", "return self._end_effector_pos_global.adjoint() @ self.jacobian(*args, **kwargs)"), 'fire', 'Robot.jacobianBody'),
    V('body-refresh-wrong-formula', A, ("fmr.Adjoint(self._end_effector_home.inv().gTM()) @\n                self.screw_list[:, i])\n\n    def _helper_ensure", "fmr.Adjoint(self._end_effector_home.gTM()) @\n                self.screw_list[:, i])\n\n    def _helper_ensure"), 'fire', 'R06.1'),
    V('inverse-statics-without-pinv', R, ("return Wrench(np.linalg.pinv(self.jacobian(*args, **kwargs).T) @ forces)", "return Wrench(self.jacobian(*args, **kwargs) @ forces)"), 'fire', 'Robot.staticForcesInv'),
    # benign
    V('benign-statics-temp', R, ("self._last_tau = self.jacobian(*args, **kwargs).T @ eef_wrench\n        return self._last_tau.copy()", "jt = self.jacobian(*args, **kwargs).T\n        self._last_tau = jt @ eef_wrench\n        return self._last_tau.copy()"), 'silent'),
    V('benign-linkmass-inline', A, ("link_mass = self._link_masses[i]\n            applied_pos_global = joint_poses[i] @ link_mass_cg\n            carry_wrench = carry_wrench + fsr.makeWrench(applied_pos_global, link_mass, self.grav)", "applied_pos_global = joint_poses[i] @ link_mass_cg\n            carry_wrench = carry_wrench + fsr.makeWrench(applied_pos_global, self._link_masses[i], self.grav)"), 'silent'),
    V('inverse-statics-truncated-pinv', R, ("return Wrench(np.linalg.pinv(self.jacobian(*args, **kwargs).T) @ forces)", "return Wrench(np.linalg.pinv(self.jacobian(*args, **kwargs).T, rcond=1e-5) @ forces)"), 'fire', 'without truncation'),
    V('benign-inverse-statics-default-rcond', R, ("return Wrench(np.linalg.pinv(self.jacobian(*args, **kwargs).T) @ forces)", "return Wrench(np.linalg.pinv(self.jacobian(*args, **kwargs).T, rcond=1e-15) @ forces)"), 'silent'),
    V('benign-refresh-while-loop', A, ('space screw list.\n        """\n        for i in range(0, self.num_dof):\n            self.screw_list_body[:, i] = (\n                fmr.Adjoint(self._end_effector_home.inv().gTM()) @\n                self.screw_list[:, i])', 'space screw list.\n        """\n        adj = fmr.Adjoint(self._end_effector_home.inv().gTM())\n        k = 0\n        while k < self.num_dof:\n            self.screw_list_body[:, k] = adj @ self.screw_list[:, k]\n            k += 1'), 'silent'),
    V('refresh-while-loop-from-one', A, ('space screw list.\n        """\n        for i in range(0, self.num_dof):\n            self.screw_list_body[:, i] = (\n                fmr.Adjoint(self._end_effector_home.inv().gTM()) @\n                self.screw_list[:, i])', 'space screw list.\n        """\n        adj = fmr.Adjoint(self._end_effector_home.inv().gTM())\n        k = 1\n        while k < self.num_dof:\n            self.screw_list_body[:, k] = adj @ self.screw_list[:, k]\n            k += 1'), 'fire', 'R06.1'),
    V('benign-linkmass-reversed-range', A, ("for i in range(self.num_dof, 0, -1):", "for i in reversed(range(1, self.num_dof + 1)):"), 'silent'),
    V('linkmass-loop-misses-first-link', A, ("for i in range(self.num_dof, 0, -1):", "for i in reversed(range(2, self.num_dof + 1)):"), 'fire', 'R06.4'),
    V('benign-numerical-jacobian-inverse-hoisted', A, [("temp = lambda x : self.FK(x).gTM().T.flatten()", "inv_ee_t = ling.inv(self.FK(theta).gTM().T)\n        temp = lambda x : self.FK(x).gTM().T.flatten()"), ("inv_ee_t = ling.inv(self.FK(theta).gTM().T)\n            jac_re", "jac_re")], 'silent'),
    V('benign-finite-difference-driver-without-reset', G, ("# Reset State If Necessary\n    function_handle(x_init)", "# state is re-established by the caller"), 'silent'),
]
