from . import V

A = 'basic_robotics/kinematics/arm_model.py'
VARIANTS = [
    V('move-drops-fk', A, ("if stationary == False:\n            self.FK(self._theta)\n        else:", "if stationary == False:\n            pass\n        else:"), 'fire', 'Arm.move'),
    V('toolchange-no-rederive', A, ("self._end_effector_home = new_home\n        self._helper_determine_eef_to_last_joint()\n        self._helper_refresh_body_screws()\n        self.FK(self._theta)", "self._end_effector_home = new_home\n        self._helper_determine_eef_to_last_joint()\n        self._helper_refresh_body_screws()"), 'fire', 'Arm.setArbitraryHome'),
    V('backup-after-inplace', A, ("self.screw_list = np.copy(screw_list)\n        self.original_screw_list_body", "self.screw_list = screw_list\n        self.original_screw_list_body"), 'fire', 'Arm.initialize'),
    V('fk-swapped-args', A, ("end_effector_transform = tm(fmr.FKinSpace(\n            self._end_effector_home.gTM(), self.screw_list, theta))", "end_effector_transform = tm(fmr.FKinSpace(\n            self._end_effector_home.gTM(), self.screw_list_body, theta))"), 'fire', 'Arm.FK'),
    V('clamp-after-use', A, ("if not protect:\n            theta = self.thetaProtector(theta)\n        self._theta = fsr.angleMod(theta.reshape(len(theta)))\n        end_effector_transform = tm(fmr.FKinSpace(\n            self._end_effector_home.gTM(), self.screw_list, theta))", "self._theta = fsr.angleMod(theta.reshape(len(theta)))\n        end_effector_transform = tm(fmr.FKinSpace(\n            self._end_effector_home.gTM(), self.screw_list, theta))\n        if not protect:\n            theta = self.thetaProtector(theta)"), 'fire', 'Arm.FK'),
    V('ik-stores-goal-on-failure', A, ("theta = fsr.angleMod(theta)\n        if success:\n            self.FK(theta, protect=True)\n        return theta, success", "theta = fsr.angleMod(theta)\n        self._theta = theta\n        if success:\n            self._end_effector_pos_global = goal_position\n        return theta, success"), 'fire', 'Arm.IK'),
    V('move-from-transformed-screws', A, ("self.initialize(new_base_pos_global, self.original_screw_list.copy(),", "self.initialize(new_base_pos_global, self.screw_list.copy(),"), 'fire', 'Arm.move'),
    V('move-global-home', A, ("self._end_effector_home_local, self.original_joint_poses_home)", "self._end_effector_home, self.original_joint_poses_home)"), 'fire', 'Arm.move'),
    V('jacobian-none-theta', A, ("theta = self._helper_ensure_theta_not_none(theta)\n        return fmr.JacobianSpace(self.screw_list, theta)", "return fmr.JacobianSpace(self.screw_list, theta)"), 'fire', 'Arm.jacobian'),
    V('eetrans-mutates-state', A, ("end_effector_temp = self.FK(theta).copy()", "end_effector_temp = self.FK(theta)"), 'fire', 'Arm.jacobianEETrans'),
    V('np-Inf-back', A, ("self.max_vels = np.ones(self.num_dof) * np.inf", "self.max_vels = np.ones(self.num_dof) * np.Inf"), 'fire', 'np.Inf'),
    V('randompos-direct-theta', A, ("pos = self.FK(theta_temp)\n        return pos", "self._theta = theta_temp\n        pos = self.getEEPos()\n        return pos"), 'fire', 'Arm.randomPos'),
    V('constrained-ik-skips-fk', A, ("print('Success + ' + str(self.fail_count) + ' failures')\n            self.FK(theta_list)", "print('Success + ' + str(self.fail_count) + ' failures')\n            self._theta = theta_list"), 'fire', 'Arm.constrainedIK'),
    # benign
    V('benign-refresh-helper-inline', A, ("self._helper_refresh_body_screws()\n        self.FK(self._theta)\n\n    #Converted to Python - Joshua", "for i in range(0, self.num_dof):\n            self.screw_list_body[:, i] = (fmr.Adjoint(self._end_effector_home.inv().gTM()) @ self.screw_list[:, i])\n        self.FK(self._theta)\n\n    #Converted to Python - Joshua"), 'silent'),
    V('benign-explicit-none-check', A, ("theta = self._helper_ensure_theta_not_none(theta)\n        return fmr.JacobianSpace(self.screw_list, theta)", "if theta is None:\n            theta = self._theta\n        return fmr.JacobianSpace(self.screw_list, theta)"), 'silent'),
    V('benign-fk-temp-name', A, [("end_effector_transform = tm(fmr.FKinSpace(", "pose_now = tm(fmr.FKinSpace("), ("self._end_effector_pos_global = end_effector_transform\n        return end_effector_transform", "self._end_effector_pos_global = pose_now\n        return pose_now")], 'silent'),
]
