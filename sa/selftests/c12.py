from . import V

S = 'basic_robotics/general/faser_screw.py'
W = 'basic_robotics/general/faser_wrench.py'
G = 'basic_robotics/general/faser_general.py'
VARIANTS = [
    V('sub-fallthrough-plus', S, ("return self.data - other_object\n", "return self.data + other_object\n"), 'fire', 'Screw.__sub__'),
    V('rsub-order', S, ("return other_object - self.data\n", "return self.data - other_object\n"), 'fire', 'Screw.__rsub__'),
    V('wrench-drop-transpose', W, ("self.data = frame_transition.adjoint().T @ self.data", "self.data = frame_transition.adjoint() @ self.data"), 'fire', 'Wrench.changeFrame'),
    V('screw-swap-g2l-args', S, ("frame_transition = globalToLocal(new_frame, old_frame)", "frame_transition = globalToLocal(old_frame, new_frame)"), 'fire', 'Screw.changeFrame'),
    V('wrench-swap-g2l-args', W, ("frame_transition = globalToLocal(old_frame, new_frame)", "frame_transition = globalToLocal(new_frame, old_frame)"), 'fire', 'Wrench.changeFrame'),
    V('cross-force-position', W, ("t_wren = np.cross(self.position_applied[0:3].reshape((3)), force)", "t_wren = np.cross(force, self.position_applied[0:3].reshape((3)))"), 'fire', 'Wrench.__init__'),
    V('add-mutates-operand', S, ("local_frame_other = other_object.copy().changeFrame(self.frame_applied)\n                return Screw(self.data + local_frame_other.data", "local_frame_other = other_object.changeFrame(self.frame_applied)\n                return Screw(self.data + local_frame_other.data"), 'fire', 'Screw.__add__'),
    V('setframe-before-default-read', W, ("if old_frame is None:\n            old_frame = self.frame_applied\n        if old_frame == new_frame:\n            return self\n        self._setFrame(new_frame)", "self._setFrame(new_frame)\n        if old_frame is None:\n            old_frame = self.frame_applied\n        if old_frame == new_frame:\n            return self"), 'fire', 'Wrench.changeFrame'),
    V('screw-forgets-frame', S, ("self._setFrame(new_frame)\n        frame_transition = globalToLocal(new_frame, old_frame)", "frame_transition = globalToLocal(new_frame, old_frame)"), 'fire', 'Screw.changeFrame'),
    V('moment-slots-swapped', W, ("[t_wren[0], t_wren[1], t_wren[2],\n                    force[0], force[1], force[2]]", "[force[0], force[1], force[2],\n                    t_wren[0], t_wren[1], t_wren[2]]"), 'fire', 'Wrench.__init__'),
    V('getforce-wrong-rows', W, ("return self.data[3:6].copy()", "return self.data[0:3].copy()"), 'fire', 'Wrench.getForce'),
    V('truediv-multiplies', S, ("return Screw(self.data / other_object, self.frame_applied.copy())", "return Screw(self.data * other_object, self.frame_applied.copy())"), 'fire', 'Screw.__truediv__'),
    V('sub-into-right-frame', S, ("local_frame_other = other_object.copy().changeFrame(self.frame_applied)\n                return Screw(self.data- local_frame_other.data, self.frame_applied.copy())", "local_frame_other = other_object.copy().changeFrame(other_object.frame_applied)\n                return Screw(self.data- local_frame_other.data, self.frame_applied.copy())"), 'fire', 'Screw.__sub__'),
    # benign twins
    V('benign-inline-transition', S, ("frame_transition = globalToLocal(new_frame, old_frame)\n        self.data = frame_transition.adjoint() @ self.data", "self.data = globalToLocal(new_frame, old_frame).adjoint() @ self.data"), 'silent'),
    V('benign-mr-adjoint', W, ("self.data = frame_transition.adjoint().T @ self.data", "self.data = np.transpose(frame_transition.adjoint()) @ self.data"), 'silent'),
    V('benign-temp-result', S, ("return self.data - other_object\n", "difference = self.data - other_object\n        return difference\n"), 'silent'),
    V('benign-radd-zero-identity', S, ("new_object : result of addition, either a screw or matrix.\n        \"\"\"\n        return self.__add__(other_object)", "new_object : result of addition, either a screw or matrix.\n        \"\"\"\n        if isinstance(other_object, (int, float)) and other_object == 0:\n            return self.copy()\n        return self.__add__(other_object)"), 'silent'),
    V('rsub-zero-returns-self', S, ("return other_object - self.data\n", "if isinstance(other_object, (int, float)) and other_object == 0:\n            return self.copy()\n        return other_object - self.data\n"), 'fire', 'R12.1'),
    V('sub-inline-twist-rule', S, ("local_frame_other = other_object.copy().changeFrame(self.frame_applied)\n                return Screw(self.data- local_frame_other.data, self.frame_applied.copy())", "frame_transition = globalToLocal(self.frame_applied, other_object.frame_applied)\n                return Screw(self.data - frame_transition.adjoint() @ other_object.data,\n                        self.frame_applied.copy())"), 'fire', 'reconciled through changeFrame'),
]
