"""MANIFEST.setup_cmd: nothing to build (stdlib-only analysers); verify the toolchain and the tree parse."""
import sys
from .engine.model import Model
from .core import repo_root
m = Model(repo_root())
print('setup ok: python %s, %d modules, %d functions parsed from %s' % (
    sys.version.split()[0], len(m.modules), len(m.all_funcs), repo_root()))
