"""C01 - rigid-motion primitives: exp/log inverse, inverse/adjoint homomorphic.

Decided statically on the port's normal forms (E6), for all inputs:
  R01.0 the 19 rigid-motion primitives equal the pinned reference (shared with C02's E6 verdicts).
  R01.1 hat/vee are mutually inverse (complete for this clause): reading so3ToVec's three elements out
        of VecToso3's table gives back (w0,w1,w2); the table is skew-symmetric; same for
        se3ToVec o VecTose3 on all six components.
  R01.2 homogeneous structure: RpToTrans, TransInv, MatrixExp6 (both branches) end in the row 0 0 0 1;
        VecTose3, MatrixLog6 (both branches) end in 0 0 0 0 - for every input.
  R01.3 layout of Adjoint / ad: [[R,0],[[p]R,R]] and [[[w],0],[[v],[w]]] with (R,p) = TransToRp(T),
        w = V[0:3], v = V[3:6] - consistent with the [omega; v] order fixed by se3ToVec.
  R01.4 branch discipline: MatrixLog3's cases are `>= 1`, `<= -1`, else on the same acos input
        (exhaustive, disjoint); in the half-turn case each guard, divisor and vector use the same
        diagonal index; MatrixExp3/MatrixExp6/AxisAng-based formulas divide by theta only on the
        not-NearZero branch; TransInv is [R^T, -R^T p].
Not decided: log(exp(x)) = x, exp(log(T)) = T, inv(T) T = I, Ad homomorphism identities to 5e-6
(floating-point values of trigonometric formulas near the 0/pi branch points).
"""
from ..engine.model import AnalysisError
from ..engine import tv
from ..engine.normal import num, is_num, show
from ..engine.mrspec import C01_PRIMITIVES
from . import c02

PORT = tv.PORT_MOD


def pidx(i, *ks):
    return ('idx', ('p', i), tuple(num(k) for k in ks))


def vec_block(i, ks):
    return ('block', (len(ks),), tuple((j, j + 1, 0, 1, pidx(i, k)) for j, k in enumerate(ks)))


def find(t, pred, acc=None):
    acc = [] if acc is None else acc
    if isinstance(t, tuple) and t:
        try:
            if pred(t):
                acc.append(t)
        except (IndexError, TypeError):
            pass
        for x in t:
            find(x, pred, acc)
    return acc


def negated(a, b):
    return a == ('neg', b) or b == ('neg', a) or (is_num(a) and is_num(b) and a[1] == -b[1])


def check(model, rep):
    rep.extra['explanation'] = (
        'Structural facts read off the value-numbered normal forms of the port\'s SO(3)/SE(3) primitives: hat/vee '
        'tables composed symbolically, constant last rows, block layouts of Adjoint/ad, branch/index discipline of the '
        'logarithm, plus normal-form equality of all 19 primitives with modern_robotics 1.1.1.')
    rep.trusted_base += ['modern_robotics 1.1.1 formulas (Rodrigues, log branches) as the mathematical reference',
                         'rewrite set N1..N16 of the normaliser']
    pm = model.module(PORT)

    def nf(name):
        return tv.port_nf(model, name)[0][2]

    def fi(name):
        return model.func(PORT, name)

    # ---------------------------------------------------------------- R01.0
    c02.r021_r022(model, rep, names=set(C01_PRIMITIVES), rule_api='R01.0a', rule_eq='R01.0')
    rep.rules['R01.0'] = 'each rigid-motion primitive has the same normal form as the pinned reference'
    rep.rules.pop('R01.0a', None)

    # ---------------------------------------------------------------- R01.1
    rep.rule('R01.1', 'vee(hat(w)) = w component-wise, hat table skew-symmetric; se3ToVec(VecTose3(V)) = V')
    hat = nf('VecToso3')
    vee = nf('so3ToVec')
    if hat[0] != 'block' or hat[1] != (3, 3) or vee[0] != 'block' or vee[1] != (3,):
        raise AnalysisError('VecToso3 / so3ToVec no longer normalise to a 3x3 table / 3-vector of selections')
    for k, cell in enumerate(vee[2]):
        t = cell[4]
        if not (t[0] == 'idx' and t[1] == ('p', 0) and len(t[2]) == 2 and all(is_num(x) for x in t[2])):
            rep.ob('R01.1', fi('so3ToVec'), 'element %d' % k, False, 'so3ToVec element %d is not a selection of its argument: %s' % (k, show(t)))
            continue
        r, c = int(t[2][0][1]), int(t[2][1][1])
        got = tv.read_cell(model, hat, r, c)
        rep.ob('R01.1', fi('so3ToVec'), 'so3ToVec(VecToso3(w))[%d] == w[%d]' % (k, k), got == pidx(0, k),
               'reads hat table entry (%d,%d) = %s, expected w[%d]' % (r, c, show(got) if got else '?', k))
    for i in range(3):
        for j in range(i, 3):
            a, b = tv.read_cell(model, hat, i, j), tv.read_cell(model, hat, j, i)
            ok = (is_num(a, 0) and is_num(b, 0)) if i == j else (a is not None and b is not None and negated(a, b))
            rep.ob('R01.1', fi('VecToso3'), 'skew-symmetry (%d,%d)' % (i, j), ok,
                   'hat table is not skew-symmetric at (%d,%d): %s vs %s' % (i, j, show(a) if a else '?', show(b) if b else '?'))
    hat6 = nf('VecTose3')
    vee6 = nf('se3ToVec')
    if hat6[0] != 'block' or vee6[0] != 'block' or vee6[1] != (6,):
        raise AnalysisError('VecTose3 / se3ToVec no longer normalise to block forms')
    for k, cell in enumerate(vee6[2]):
        t = cell[4]
        if not (t[0] == 'idx' and t[1] == ('p', 0) and len(t[2]) == 2 and all(is_num(x) for x in t[2])):
            rep.ob('R01.1', fi('se3ToVec'), 'element %d' % k, False, 'se3ToVec element %d is not a selection: %s' % (k, show(t)))
            continue
        r, c = int(t[2][0][1]), int(t[2][1][1])
        got = tv.read_cell(model, hat6, r, c)
        rep.ob('R01.1', fi('se3ToVec'), 'se3ToVec(VecTose3(V))[%d] == V[%d]' % (k, k), got == pidx(0, k),
               'reads se(3) matrix entry (%d,%d) = %s, expected V[%d]' % (r, c, show(got) if got else '?', k))

    # ---------------------------------------------------------------- R01.2
    rep.rule('R01.2', 'last row is 0 0 0 1 for SE(3) results and 0 0 0 0 for se(3) results, on every branch')

    def branches(t):
        if isinstance(t, tuple) and t[0] == 'ite':
            return branches(t[2]) + branches(t[3])
        return [t]
    for name, want in (('RpToTrans', (0, 0, 0, 1)), ('TransInv', (0, 0, 0, 1)), ('MatrixExp6', (0, 0, 0, 1)),
                       ('VecTose3', (0, 0, 0, 0)), ('MatrixLog6', (0, 0, 0, 0))):
        written = []
        for bi, b in enumerate(branches(nf(name))):
            row = [tv.read_cell(model, b, 3, c) for c in range(4)] if (isinstance(b, tuple) and b[0] == 'block' and b[1] == (4, 4)) else None
            ok = row is not None and all(x is not None and is_num(x, w) for x, w in zip(row, want))
            rep.ob('R01.2', fi(name), 'branch %d last row == %s' % (bi, ' '.join(map(str, want))), ok,
                   'last row is %s' % ([show(x) if x else '?' for x in row] if row else 'not a 4x4 block: ' + show(b)[:80]))
            if row is not None:
                # rows 0..2 must be written from data (not left as the constructor's base)
                rot_cells = [c for c in b[2] if c[0] < 3 and c[2] < 3 and not is_num(c[4])]
                written.append(bool(rot_cells))
                if name in ('RpToTrans', 'TransInv', 'VecTose3'):
                    rep.ob('R01.2', fi(name), 'branch %d rotation block written' % bi, bool(rot_cells),
                           'rotation block of the result is constant')
        if name in ('MatrixExp6', 'MatrixLog6'):
            # one branch is the pure-translation case (constant rotation block), the general branch writes it from data - in either order
            rep.ob('R01.2', fi(name), 'the general branch writes the rotation block', any(written),
                   'rotation block of the result is constant on every branch')

    # ---------------------------------------------------------------- R01.3
    rep.rule('R01.3', 'Adjoint = [[R,0],[[p]R,R]], ad = [[[w],0],[[v],[w]]], TransInv = [[R^T,-R^T p],[0,1]]')
    Rp = ('call', 'TransToRp', (('p', 0),), ())
    R_, p_ = ('unpack', Rp, 0), ('unpack', Rp, 1)

    def region(block, r0, r1, c0, c1):
        for c in block[2]:
            if (c[0], c[1], c[2], c[3]) == (r0, r1, c0, c1):
                return c[4]
        return None

    def region_eq(block, r0, r1, c0, c1, expected):
        """the region is `expected` - stored as one sub-block, or spelled out element by element"""
        if region(block, r0, r1, c0, c1) == expected:
            return True
        for r in range(r0, r1):
            for c in range(c0, c1):
                cell = tv.read_cell(model, block, r, c)
                want = tv.read_cell(model, expected, r - r0, c - c0)
                if cell is None or not (cell == ('idx', expected, (num(r - r0), num(c - c0))) or (want is not None and cell == want)):
                    return False
        return True

    def zeros_region(block, r0, r1, c0, c1):
        return all(is_num(tv.read_cell(model, block, r, c) or ('x',), 0) for r in range(r0, r1) for c in range(c0, c1))
    Ad = nf('Adjoint')
    if Ad[0] == 'block' and Ad[1] == (6, 6):
        rep.ob('R01.3', fi('Adjoint'), 'block (0:3,0:3) == R', region_eq(Ad, 0, 3, 0, 3, R_), 'upper-left block is %s' % show(region(Ad, 0, 3, 0, 3) or ('?',)))
        rep.ob('R01.3', fi('Adjoint'), 'block (3:6,3:6) == R', region_eq(Ad, 3, 6, 3, 6, R_), 'lower-right block is %s' % show(region(Ad, 3, 6, 3, 6) or ('?',)))
        rep.ob('R01.3', fi('Adjoint'), 'block (3:6,0:3) == [p] R', region_eq(Ad, 3, 6, 0, 3, ('dot', ('call', 'VecToso3', (p_,), ()), R_)),
               'lower-left block is %s' % show(region(Ad, 3, 6, 0, 3) or ('?',)))
        rep.ob('R01.3', fi('Adjoint'), 'block (0:3,3:6) == 0', zeros_region(Ad, 0, 3, 3, 6), 'upper-right block is not zero')
    else:
        rep.ob('R01.3', fi('Adjoint'), '6x6 block form', False, 'Adjoint does not normalise to a 6x6 block: ' + show(Ad)[:100])
    adn = nf('ad')
    w_hat = ('call', 'VecToso3', (vec_block(0, (0, 1, 2)),), ())
    v_hat = ('call', 'VecToso3', (vec_block(0, (3, 4, 5)),), ())
    if adn[0] == 'block' and adn[1] == (6, 6):
        rep.ob('R01.3', fi('ad'), 'block (0:3,0:3) == [w]', region_eq(adn, 0, 3, 0, 3, w_hat), 'upper-left block is %s' % show(region(adn, 0, 3, 0, 3) or ('?',)))
        rep.ob('R01.3', fi('ad'), 'block (3:6,3:6) == [w]', region_eq(adn, 3, 6, 3, 6, w_hat), 'lower-right block is %s' % show(region(adn, 3, 6, 3, 6) or ('?',)))
        rep.ob('R01.3', fi('ad'), 'block (3:6,0:3) == [v]', region_eq(adn, 3, 6, 0, 3, v_hat), 'lower-left block is %s' % show(region(adn, 3, 6, 0, 3) or ('?',)))
        rep.ob('R01.3', fi('ad'), 'block (0:3,3:6) == 0', zeros_region(adn, 0, 3, 3, 6), 'upper-right block is not zero')
    else:
        rep.ob('R01.3', fi('ad'), '6x6 block form', False, 'ad does not normalise to a 6x6 block')
    Ti = nf('TransInv')
    if Ti[0] == 'block' and Ti[1] == (4, 4):
        rep.ob('R01.3', fi('TransInv'), 'rotation block == R^T', region(Ti, 0, 3, 0, 3) == ('T', R_), 'rotation block is %s' % show(region(Ti, 0, 3, 0, 3) or ('?',)))
        rep.ob('R01.3', fi('TransInv'), 'translation == -R^T p', region(Ti, 0, 3, 3, 4) == ('neg', ('dot', ('T', R_), p_)),
               'translation block is %s' % show(region(Ti, 0, 3, 3, 4) or ('?',)))
    trp = nf('TransToRp')
    ok = trp[0] == 'tuple' and len(trp[1]) == 2 and trp[1][0] == ('idx', ('p', 0), (('sl', None, num(3), None), ('sl', None, num(3), None))) \
        and trp[1][1] == ('block', (3,), tuple((k, k + 1, 0, 1, pidx(0, k, 3)) for k in range(3)))
    rep.ob('R01.3', fi('TransToRp'), '(T[0:3,0:3], T[0:3,3])', ok, 'TransToRp does not split into rotation block and last column: ' + show(trp)[:120])

    # ---------------------------------------------------------------- R01.4
    rep.rule('R01.4', 'log: cases >=1 / <=-1 / else on one acos input; half-turn guard/divisor/vector share the diagonal index; '
                      'exp divides by theta only when not NearZero')
    lg = nf('MatrixLog3')
    acos = ('bin', '/', ('bin', '-', ('call', 'numpy.trace', (('p', 0),), ()), num(1)), num(2))
    ok_outer = lg[0] == 'ite' and lg[1] == ('cmp', '>=', acos, num(1)) and lg[3][0] == 'ite' and lg[3][1] == ('cmp', '<=', acos, num(-1))
    rep.ob('R01.4', fi('MatrixLog3'), 'case split: acos >= 1 | acos <= -1 | else', ok_outer,
           'the three cases are not `>= 1`, `<= -1`, else on (trace(R) - 1)/2')
    if ok_outer:
        zero_case = lg[2] == ('call', 'numpy.zeros', (('tuple', (num(3), num(3))),), ())
        rep.ob('R01.4', fi('MatrixLog3'), 'angle-0 case returns zeros(3,3)', zero_case, 'identity rotation does not map to the zero matrix')
        half = lg[3][2]
        generic = lg[3][3]
        ok_g = not find(generic, lambda t: t[:2] == ('call', 'NearZero'))
        theta_g = ('call', 'numpy.arccos', (acos,), ())
        want_g = ('bin', '*', ('bin', '/', ('bin', '/', theta_g, num(2)), ('call', 'numpy.sin', (theta_g,), ())),
                  ('bin', '-', ('p', 0), ('T', ('p', 0))))
        rep.ob('R01.4', fi('MatrixLog3'), 'generic case: theta/(2 sin theta) (R - R^T)', generic == want_g and ok_g,
               'generic branch is %s' % show(generic)[:140])
        # half-turn: chain of ite(NearZero(1+R[k,k]), next, branch_k)
        node = half
        ok_wrap = node[:2] == ('call', 'VecToso3') and node[2][0][0] == 'bin' and node[2][0][1] == '*' and node[2][0][2] == ('mod', 'numpy.pi')
        rep.ob('R01.4', fi('MatrixLog3'), 'half-turn case: hat(pi * axis)', ok_wrap, 'half-turn branch is not VecToso3(pi * omg)')
        chain = node[2][0][3] if ok_wrap else None
        seen = []
        while chain is not None:
            if chain[0] == 'ite' and chain[1][:2] == ('call', 'NearZero'):
                gk = _diag_of(chain[1][2][0])
                br, chain = chain[3], chain[2]
                guard = gk
            else:
                br, chain, guard = chain, None, None
            k = _axis_branch(br)
            ok = k is not None and (guard is None or guard == k) and k not in seen
            rep.ob('R01.4', fi('MatrixLog3'), 'half-turn branch using diagonal %s' % (k if k is not None else '?'), ok,
                   'guard looks at diagonal %s but divisor/vector use %s (or malformed): %s' % (guard, k, show(br)[:120]))
            if k is not None:
                seen.append(k)
        rep.ob('R01.4', fi('MatrixLog3'), 'half-turn branches cover the three diagonals', sorted(seen) == [0, 1, 2],
               'half-turn case handles diagonals %s' % seen)
    for name in ('MatrixExp3', 'MatrixExp6'):
        t = nf(name)
        ok = t[0] == 'ite' and t[1][:2] == ('call', 'NearZero')
        div_in_small = bool(find(t[2], lambda x: x[0] == 'bin' and x[1] == '/')) if ok else True
        div_in_big = bool(find(t[3], lambda x: x[0] == 'bin' and x[1] == '/')) if ok else False
        rep.ob('R01.4', fi(name), 'division by theta only on the not-NearZero branch', ok and not div_in_small and div_in_big,
               'near-zero branch divides, or the guard is missing')
        if ok:
            arg = t[1][2][0]
            rep.ob('R01.4', fi(name), 'guard tests the rotation magnitude',
                   arg[:2] == ('call', 'numpy.linalg.norm') and arg[2][0][:2] == ('call', 'so3ToVec'),
                   'NearZero is applied to %s' % show(arg)[:100])
    nz = nf('NearZero')
    rep.ob('R01.4', fi('NearZero'), 'abs(z) < 1e-6', nz == ('cmp', '<', ('call', 'abs', (('p', 0),), ()), num(1e-6)), 'cut-off is %s' % show(nz))
    rep.floor('R01.0', 'primitives compared with the reference', len([o for o in rep.obligations if o.rule == 'R01.0']), 19)

    # ---------------------------------------------------------------- R01.5
    # log(exp(x)) = x, exp(log(T)) = T, vee(hat(w)) = w ... are statements about the caller's x, T, w: the primitives must leave what they are
    # given as it is (normal-form equality compares returned values only; a primitive that normalises its argument in place returns the
    # right value once and changes what every later use of the same array computes)
    rep.rule('R01.5', 'no rigid-motion primitive writes into an array it is given (effects summary: no store, augmented assignment or mutating call '
                      'reaches a parameter, directly or through a callee / a view)')
    from ..engine.effects import Effects
    fx = Effects(model)
    n_fx = 0
    for name in sorted(C01_PRIMITIVES):
        f_ = pm.funcs.get(name)
        if f_ is None:
            continue
        n_fx += 1
        summ = fx.summary(f_)
        sites = [(p_, n_, how) for (p_, k_), lst in summ.writes.items() if k_ != 'meta' for (n_, how) in lst]
        rep.ob('R01.5', f_, '%s leaves its arguments unwritten' % name, not sites,
               ('%s writes its parameter `%s` (%s, line %d): the caller\'s matrix / vector is changed by the call, so the identities fail for every '
                'later use of the same array (log(exp(X)) is no longer X, a second exp(X) gives another rotation)' % (name, sites[0][0], sites[0][2], sites[0][1].lineno))
               if sites else 'no write reaches a parameter')
    rep.floor('R01.5', 'primitives with an effects summary', n_fx, 19)


def _diag_of(t):
    """t == 1 + R[k,k] -> k"""
    if isinstance(t, tuple) and t[0] == 'bin' and t[1] == '+' and is_num(t[2], 1):
        x = t[3]
        if x[0] == 'idx' and x[1] == ('p', 0) and len(x[2]) == 2 and x[2][0] == x[2][1] and is_num(x[2][0]):
            return int(x[2][0][1])
    return None


def _axis_branch(br):
    """br == (1/sqrt(2*(1+R[k,k]))) * [column k of R with 1 added on the diagonal] -> k"""
    if not (isinstance(br, tuple) and br[0] == 'bin' and br[1] == '*'):
        return None
    coef, vec = br[2], br[3]
    if not (coef[0] == 'bin' and coef[1] == '/' and is_num(coef[2], 1) and coef[3][:2] == ('call', 'numpy.sqrt')):
        return None
    inner = coef[3][2][0]
    if not (inner[0] == 'bin' and inner[1] == '*' and is_num(inner[2], 2)):
        return None
    k = _diag_of(inner[3])
    if k is None or vec[0] != 'block' or vec[1] != (3,):
        return None
    for i, c in enumerate(vec[2]):
        t = c[4]
        if i == k:
            if _diag_of(t) != k:
                return None
        else:
            if t != pidx(0, i, k):
                return None
    return k
