"""C05 - arm forward kinematics is base * product of exponentials, through any history.

Decided statically on kinematics/arm_model.py (for all histories over the public methods):
  R05.0 constructibility: every np.<attr> used by the arm / robot modules exists in the installed NumPy.
  R05.1 typestate: every public method that writes the joint vector, the home tool pose or the space
        screws (or stores the tool pose directly) re-derives the reported tool pose through FK(x) on
        every path to a normal exit.
  R05.2 constructor/initialize do not write through the caller's screw array and the backup
        `original_screw_list` is taken from the untransformed parameter (copy before any in-place
        write through an alias of it).
  R05.3 FK = FKinSpace(home tool pose, space screws, theta) with theta clamped (thetaProtector) on the
        non-protect path before use; the stored joint vector and the stored pose come from the same
        vector; FKJoint / FKLink use prefix slices of the same screws.
  R05.4 defaulted joint arguments (theta=None) are resolved to the stored state before they reach a kernel.
  R05.5 move() re-initialises from the stored ORIGINAL screws (a copy) and the LOCAL home pose, then
        re-derives the state (FK of the stored joints, or IK to the previous pose).
  R05.6 the pose objects held as state are not mutated through an alias (e.g. the object FK returns).
Not decided: equality with the product of exponentials to 1e-7 (the kernel is covered by C02).
"""
import ast

from ..engine.model import AnalysisError, src, walk_own
from ..engine import npstub
from ..engine.flow import Flow
from ..engine.inline import Inliner, norm_text
from ..engine.typestate import FactDomain, EventDomain
from .armstate import ArmChecker, ARM, self_field, POSE, HELPERS

ROBOT = 'basic_robotics.kinematics.robot_model'
TM_MUTATORS = {'set', 'sTM', 'sTAA', 'setQuat', 'angleMod', '__setitem__', 'TAAtoTM', 'TMtoTAA', 'transformSqueezedCopy'}
STATE_POSES = ('_end_effector_pos_global', '_base_pos_global', '_end_effector_home', '_end_effector_home_local',
               '_original_end_effector_home')


def r050(model, rep, modules=(ARM, ROBOT), rule='R05.0'):
    rep.rule(rule, 'np.<attr> used by the arm / robot modules exists in the installed NumPy (an Arm can be constructed)')
    db = npstub.load()
    if not db['available']:
        rep.note('NumPy stub oracle unavailable: %s skipped' % rule)
        return
    distinct = {}
    for m, attr, line, node in npstub.np_attrs(model, set(modules)):
        distinct.setdefault((m.name, attr), (m, line, node))
    for (mn, attr), (m, line, node) in sorted(distinct.items()):
        v = npstub.verdict(attr)
        if v == 'unknown':
            rep.unresolved_item(rule, '%s:%d' % (m.relpath, line), 'np.%s not in the stub' % attr)
            continue
        fi = model.enclosing_func(m, node)
        rep.ob(rule, fi if fi is not None else m.relpath, 'np.' + attr, v == 'ok',
               'np.%s does not exist in the installed NumPy (%s): AttributeError whenever line %d runs' % (attr, npstub.reason(attr), line),
               line=line, qualname='<module>')
    rep.count('distinct np attributes in arm/robot modules', len(distinct))


def r051(model, rep, ck):
    rep.rule('R05.1', 'public Arm methods that write joint vector / home pose / space screws / tool pose re-derive the tool '
                      'pose through FK(x) on every path to a normal exit')
    res, writers = ck.exit_marks('pose')
    n = 0
    for fi, (bad, n_exits, own) in sorted(res.items(), key=lambda kv: kv[0].name):
        if not own and not bad:
            continue
        n += 1
        if bad:
            for text, (line, ex) in sorted(bad.items()):
                rep.ob('R05.1', fi, text, False,
                       'store (line %s) reaches %s without the tool pose being re-derived by FK(joint vector): getEEPos() and '
                       'FK(stored joints) disagree afterwards' % (line, ex), line=line)
        else:
            rep.ob('R05.1', fi, 'state writes of %s' % fi.name, True, 're-derived on all %d normal exits' % n_exits)
    rep.floor('R05.1', 'Arm methods writing kinematic state', len(writers), 5)


def r052(model, rep, ck):
    rep.rule('R05.2', 'the screw array handed to the constructor is neither written through nor backed up after transformation')
    arm = ck.arm
    init = arm.methods.get('__init__')
    ini = arm.methods.get('initialize')
    if init is None or ini is None:
        raise AnalysisError('anchor vanished: Arm.__init__/initialize')
    # (a) initialize: parameter screw_list must not be stored as state and then written in place
    p = 'screw_list'
    if p not in ini.params:
        raise AnalysisError('Arm.initialize lost its screw_list parameter')
    aliases = set()
    for n in walk_own(ini.node):
        if isinstance(n, ast.Assign) and isinstance(n.value, ast.Name) and n.value.id == p:
            for t in n.targets:
                f = self_field(t)
                if f:
                    aliases.add(f)
    inplace = []
    for n in walk_own(ini.node):
        if isinstance(n, (ast.Assign, ast.AugAssign)):
            for t in (n.targets if isinstance(n, ast.Assign) else [n.target]):
                if isinstance(t, ast.Subscript):
                    f = self_field(t)
                    base = t.value
                    while isinstance(base, ast.Subscript):
                        base = base.value
                    if (f in aliases) or (isinstance(base, ast.Name) and base.id == p):
                        inplace.append(n)
    rep.ob('R05.2', ini, 'no in-place write through the caller\'s screw array',
           not inplace, ('self.%s aliases the parameter `%s` and is written in place at line %d (%s): the caller\'s array is '
                         'overwritten with base-transformed screws' % (sorted(aliases)[0] if aliases else '?', p, inplace[0].lineno, src(inplace[0])[:60]))
           if inplace else 'ok', line=inplace[0].lineno if inplace else None)
    # (b) __init__: backup copied from the parameter before initialize() may transform it, or parameter never written
    backup = [n for n in walk_own(init.node) if isinstance(n, ast.Assign) and any(self_field(t) == 'original_screw_list' for t in n.targets)]
    calls_init = [n for n in walk_own(init.node) if isinstance(n, ast.Call) and isinstance(n.func, ast.Attribute) and n.func.attr == 'initialize']
    ok = bool(backup)
    msg = 'no backup of the original screws is taken'
    if backup and calls_init:
        b, c = backup[0], calls_init[0]
        from_param = any(isinstance(x, ast.Name) and x.id == p for x in ast.walk(b.value))
        copied = isinstance(b.value, ast.Call) and ((isinstance(b.value.func, ast.Attribute) and b.value.func.attr == 'copy')
                                                    or src(b.value.func) in ('np.copy', 'np.array'))
        if not (from_param and copied):
            ok, msg = False, 'backup is not a copy of the constructor parameter: %s' % src(b)
        elif b.lineno > c.lineno and inplace:
            ok, msg = False, ('backup `%s` (line %d) is taken after initialize() (line %d) has overwritten the parameter in place: '
                              'move() then re-applies the base transform to already transformed screws' % (src(b)[:60], b.lineno, c.lineno))
        else:
            ok, msg = True, 'ok'
    rep.ob('R05.2', init, 'original_screw_list backed up from the untransformed parameter', ok, msg, line=backup[0].lineno if backup else None)



from .common_ops import flat_method


def fk_core(rep, rule, fk):
    """Arm.FK on every path: FKinSpace(home tool pose, space screws, v) with v the argument itself (only under protect) or thetaProtector(argument);
    the stored joint vector is made from that same v; the stored tool pose is the kernel's result.  Shared by C05 (R05.3), C07 and C13
    (their clauses about the state after a solve / the pose for in-limit joints rest on it)."""
    theta = fk.params[1]
    # path summaries of FK (conditional expressions lowered to statements, locals substituted): what reaches the kernel, under which facts
    from ..engine import peval as _pe
    from ..engine.paths import paths_of
    # private helpers of the class (a clamp guard moved into a helper) read in place, conditional expressions lowered
    flat = _pe.flatten({n_: f_.node for n_, f_ in fk.cls.methods.items()} if fk.cls is not None else {}, fk.node, depth=2,
                       stop=('thetaProtector',), impure=True)
    prot = fk.params[2] if len(fk.params) > 2 else 'protect'
    HOME = ('self._end_effector_home.gTM()', 'self._end_effector_home.TM')
    n_calls = 0
    shape_ok, clamp_ok, theta_ok, pose_ok = True, True, True, True
    got_args, line_c = '', fk.node.lineno
    for pth in paths_of(flat, fk.params):
        kc = [e for e in pth.events if e[0] == 'call' and e[1].split('.')[-1] == 'FKinSpace']
        if not kc:
            continue                      # the `theta is None` early return
        if len(kc) != 1:
            raise AnalysisError('Arm.FK: expected one FKinSpace call per path, found %d' % len(kc))
        n_calls += 1
        _k, callee, args, line_c = kc[0][:4]
        got_args = ', '.join(args)
        vec = args[2] if len(args) == 3 else ''
        shape_ok = shape_ok and len(args) == 3 and args[0] in HOME and args[1] == 'self.screw_list' and vec in (theta, 'self.thetaProtector(%s)' % theta)
        protected = pth.facts.get(prot) is True or pth.facts.get('not' + prot) is False
        clamp_ok = clamp_ok and (vec == 'self.thetaProtector(%s)' % theta or (vec == theta and protected))
        st_t = [e for e in pth.events if e[0] == 'store' and e[1] == 'self._theta' and len(e) > 3]
        theta_ok = theta_ok and len(st_t) == 1 and norm_text(vec) in norm_text(st_t[0][3])
        st_p = [e for e in pth.events if e[0] == 'store' and e[1] == 'self.' + POSE and len(e) > 3]
        kernel = '%s(%s)' % (callee, ','.join(args))
        pose_ok = pose_ok and len(st_p) == 1 and norm_text(st_p[0][3]) in ('tm(%s)' % kernel, kernel, 'tm(%s).copy()' % kernel)
    if not n_calls:
        raise AnalysisError('Arm.FK: no path reaches an FKinSpace call')
    rep.ob(rule, fk, 'FKinSpace(home tool pose, space screws, theta)', shape_ok,
           'FK must evaluate FKinSpace(home tool pose, space screws, theta); got (%s)' % got_args, line=line_c)
    rep.ob(rule, fk, 'clamp dominates the kernel call unless protect', clamp_ok,
           'on some path FKinSpace receives joints that were not clamped by thetaProtector although protect is false', line=line_c)
    rep.ob(rule, fk, 'self._theta stored from the evaluated vector', theta_ok, 'FK does not store the joint vector it evaluated')
    rep.ob(rule, fk, 'stored tool pose is the FKinSpace result', pose_ok, 'the pose FK stores is not the product-of-exponentials result')
    clamp_rule(rep, rule, fk.cls)


def clamp_rule(rep, rule, arm):
    """Arm.thetaProtector is the clamp to the stored limits and nothing else: decided by exhaustive case analysis over the order cells of
    (joint value, lower limit, upper limit, constants in the code) - see sa/rules/clampcase.py.  -> result dict of the analysis"""
    from .clampcase import analyse
    tp = arm.methods.get('thetaProtector') if arm is not None else None
    if tp is None:
        raise AnalysisError('anchor vanished: Arm.thetaProtector')
    flat = flat_method(arm, 'thetaProtector')
    res = analyse(flat.node, tp.params[1])
    if res['unknown'] is not None and not res['wrong']:
        rep.ob(rule, tp, 'thetaProtector is an order-based clamp (comparisons, masks, np.clip / minimum / maximum)', False,
               'construct outside the clamp fragment: %s' % res['unknown'], shape=True)
        return res
    wrong = res['wrong']
    rep.ob(rule, tp, 'thetaProtector(theta) = theta where inside the stored limits, the violated limit elsewhere (all %d order cells)' % res['cells'], not res['wrong'],
           'thetaProtector is not the clamp to [joint_mins, joint_maxs]: %s - FK (which clamps unless protect) then evaluates, and stores, another configuration than '
           'the in-limit one it was given, or lets an out-of-limit one through' % (wrong[0] if wrong else ''))
    return res

def r053(model, rep, ck):
    rep.rule('R05.3', 'FK: clamp dominates use on the non-protect path; FKinSpace(home, screws, theta); stored joints and stored '
                      'pose from the same vector; FKJoint/FKLink prefix slices')
    arm = ck.arm
    fk = arm.methods.get('FK')
    if fk is None:
        raise AnalysisError('anchor vanished: Arm.FK')
    theta = fk.params[1]
    fk_core(rep, 'R05.3', fk)
    # the clamp itself is decided inside fk_core (clamp_rule: case analysis over order cells)
    for name in ('FKJoint', 'FKLink'):
        fi = arm.methods.get(name)
        if fi is None:
            continue
        # the method with the class's private helpers inlined (the prefix slices may be produced by a helper)
        from ..engine import peval as _pe
        fnode = _pe.flatten({n_: f_.node for n_, f_ in arm.methods.items()}, fi.node, depth=2, stop=('thetaProtector',), impure=True)
        defs = {}
        for n in walk_own(fnode):
            if isinstance(n, ast.Assign) and len(n.targets) == 1 and isinstance(n.targets[0], ast.Name):
                defs.setdefault(n.targets[0].id, []).append(n.value)

        def sliced_from(e, depth=0):
            """Text of the value `e` is a slice / copy of (through local names); None when it is computed otherwise."""
            while True:
                if isinstance(e, ast.Subscript):
                    e = e.value
                elif isinstance(e, ast.Call) and isinstance(e.func, ast.Attribute) and e.func.attr == 'copy' and not e.args:
                    e = e.func.value
                else:
                    break
            if isinstance(e, ast.Name) and e.id in defs and depth < 6:
                b = {sliced_from(d, depth + 1) for d in defs[e.id] if not (isinstance(d, ast.Call) and src(d.func) == 'self.thetaProtector')}
                if len(b) == 1:
                    return b.pop()
                return None if b else e.id
            if isinstance(e, (ast.Name, ast.Attribute)):
                return src(e)
            return None
        for cc in [x for x in walk_own(fnode) if isinstance(x, ast.Call) and isinstance(x.func, ast.Attribute) and x.func.attr == 'FKinSpace']:
            if len(cc.args) != 3:
                rep.ob('R05.3', fi, src(cc)[:100], False, 'FKinSpace takes (home, screws, theta)', line=cc.lineno)
                continue
            b1, b2 = sliced_from(cc.args[1]), sliced_from(cc.args[2])
            if b1 is None or b2 is None:
                rep.unresolved_item('R05.3', '%s:%d' % (fi.module.relpath, cc.lineno), 'screw / joint arguments of %s are not slices of named values' % src(cc)[:80])
                continue
            ok = b1 == 'self.screw_list' and b2 == fi.params[1]
            rep.ob('R05.3', fi, src(cc)[:100], ok, 'link/joint FK must use slices of the space screws (self.screw_list) and of the joint vector it was given; '
                   'got slices of %s and %s' % (b1, b2), line=cc.lineno)


def r054(model, rep, ck):
    rep.rule('R05.4', 'a joint argument defaulting to None is replaced by the stored joint vector before it reaches a kernel / an index')
    arm = ck.arm
    n = 0
    for name, fi in sorted(arm.methods.items()):
        for p, d in fi.defaults.items():
            if not (isinstance(d, ast.Constant) and d.value is None and p in ('theta', 'theta_init')):
                continue
            n += 1
            uses = {}

            class D(FactDomain):
                def user_store(s, target, value, stmt, facts, user):
                    if isinstance(target, ast.Name) and target.id == p:
                        return 'resolved'
                    return user

                def _use(s, node, facts, user):
                    ok = user == 'resolved' or FactDomain.has(facts, False, '%s is None' % p) or FactDomain.has(facts, False, '%s == None' % p)
                    k = src(node)[:90]
                    uses[k] = (uses.get(k, (True,))[0] and ok, node.lineno)

                def user_call(s, call, facts, user):
                    f = call.func
                    is_kernel = isinstance(f, ast.Attribute) and isinstance(f.value, ast.Name) and f.value.id in ('fmr', 'mr')
                    if is_kernel and any(isinstance(a, ast.Name) and a.id == p for a in call.args):
                        s._use(call, facts, user)
                    for a in ast.walk(call):
                        if isinstance(a, ast.Subscript) and isinstance(a.value, ast.Name) and a.value.id == p:
                            s._use(a, facts, user)
                    if isinstance(f, ast.Name) and f.id == 'len' and call.args and isinstance(call.args[0], ast.Name) and call.args[0].id == p:
                        s._use(call, facts, user)
                    return user
            Flow(D()).run(fi.body(), {((frozenset(), None), frozenset())})
            for k, (ok, line) in sorted(uses.items()):
                rep.ob('R05.4', fi, k, ok, '`%s` may still be None here: the default is not replaced by the stored joint vector first' % p, line=line)
    rep.count('defaulted joint parameters examined', n)


VALUE_PRESERVING_METHODS = {'copy', 'reshape', 'flatten', 'ravel', 'squeeze', 'astype', 'view'}
VALUE_PRESERVING_FUNCS = {'np.copy', 'np.array', 'np.asarray', 'np.squeeze', 'np.ravel', 'np.reshape', 'numpy.copy', 'numpy.array', 'numpy.asarray',
                          'copy.copy', 'copy.deepcopy', 'fsr.angleMod', 'angleMod', 'fmr.AngleMod', 'mr.AngleMod'}


def _strip_value_preserving(e):
    """-> (innermost expression, [wrappers that are not value preserving])"""
    bad = []
    while True:
        if isinstance(e, ast.Call) and isinstance(e.func, ast.Attribute) and e.func.attr in VALUE_PRESERVING_METHODS:
            e = e.func.value
        elif isinstance(e, ast.Call) and src(e.func).replace(' ', '') in VALUE_PRESERVING_FUNCS and e.args:
            e = e.args[0]
        elif isinstance(e, ast.Call) and e.args and any(isinstance(x, ast.Attribute) and src(x) == 'self._theta' for a in e.args for x in ast.walk(a)):
            bad.append(src(e.func))
            e = next(a for a in e.args if any(isinstance(x, ast.Attribute) and src(x) == 'self._theta' for x in ast.walk(a)))
        else:
            return e, bad


def r0516(model, rep, ck):
    """`queries with defaulted joint arguments refer to that state`: wherever a parameter that defaults to None is replaced by something read
    from the stored joint vector, what replaces it IS that vector (copies, reshapes and angle wrapping aside) - not a clamped, scaled or
    otherwise transformed version of it.  Resolution through a one-argument helper of the class is followed into the helper."""
    rep.rule('R05.16', 'a joint argument defaulting to None is replaced by the stored joint vector itself (copy / reshape / angle wrap only), '
                       'directly or through the resolving helper')
    arm = ck.arm
    n = 0

    def none_test(t, p):
        txt = src(t).replace(' ', '')
        return txt in ('%sisNone' % p, '%s==None' % p, 'Noneis%s' % p, 'None==%s' % p)

    def none_branch_values(fn_node, p, returns):
        out = []
        for st in ast.walk(fn_node):
            if isinstance(st, ast.If) and none_test(st.test, p):
                for b in st.body:
                    if returns and isinstance(b, ast.Return) and b.value is not None:
                        out.append((b.value, b.lineno))
                    if not returns and isinstance(b, ast.Assign) and any(isinstance(t, ast.Name) and t.id == p for t in b.targets):
                        out.append((b.value, b.lineno))
            # a conditional expression counts when its value is what replaces the parameter (assigned to it / returned by the helper)
            holder = st.value if (isinstance(st, ast.Return) and returns) or (not returns and isinstance(st, ast.Assign) and any(
                isinstance(t, ast.Name) and t.id == p for t in st.targets)) else None
            if isinstance(holder, ast.IfExp) and none_test(holder.test, p):
                out.append((holder.body, holder.lineno))
            elif isinstance(holder, ast.IfExp) and isinstance(holder.test, ast.Compare) and len(holder.test.ops) == 1 and \
                    isinstance(holder.test.ops[0], (ast.IsNot, ast.NotEq)) and none_test(ast.Compare(left=holder.test.left, ops=[ast.Is()],
                                                                                                   comparators=holder.test.comparators), p):
                out.append((holder.orelse, holder.lineno))
        return out

    for name, fi in sorted(arm.methods.items()):
        for p, d in fi.defaults.items():
            if not (isinstance(d, ast.Constant) and d.value is None):
                continue
            vals = [(v, ln, fi) for (v, ln) in none_branch_values(fi.node, p, False)]
            seen_h = set()
            for c in ast.walk(fi.node):
                if isinstance(c, ast.Call) and isinstance(c.func, ast.Attribute) and isinstance(c.func.value, ast.Name) and c.func.value.id == 'self' \
                        and len(c.args) == 1 and not c.keywords and isinstance(c.args[0], ast.Name) and c.args[0].id == p and c.func.attr not in seen_h:
                    h = arm.methods.get(c.func.attr)
                    # a resolving helper hands its argument back when it is given one
                    def hands_back(h_):
                        q = h_.params[1]
                        for r_ in walk_own(h_.node):
                            if isinstance(r_, ast.Return) and r_.value is not None:
                                v_ = r_.value
                                if (isinstance(v_, ast.Name) and v_.id == q) or (isinstance(v_, ast.IfExp) and any(
                                        isinstance(a_, ast.Name) and a_.id == q for a_ in (v_.body, v_.orelse))):
                                    return True
                        return False
                    if h is not None and len(h.params) == 2 and hands_back(h):
                        seen_h.add(c.func.attr)
                        vals += [(v, ln, h) for (v, ln) in none_branch_values(h.node, h.params[1], True)]
            for v, ln, where in vals:
                if not any(isinstance(x, ast.Attribute) and src(x) == 'self._theta' for x in ast.walk(v)):
                    continue
                n += 1
                inner, bad = _strip_value_preserving(v)
                if bad:
                    rep.ob('R05.16', fi, '%s defaults to %s' % (p, src(v)[:70]), False,
                           'the defaulted `%s` of %s is replaced by %s: the stored joint vector passed through %s, so the query is answered for a '
                           'configuration that is not the arm\'s state' % (p, fi.name, src(v)[:80], ', '.join(bad)), line=ln)
                elif src(inner) != 'self._theta':
                    rep.ob('R05.16', fi, '%s defaults to %s' % (p, src(v)[:70]), False, 'replacement not recognised as the stored joint vector: %s'
                           % src(inner)[:80], shape=True, line=ln)
                else:
                    rep.ob('R05.16', fi, '%s defaults to %s' % (p, src(v)[:70]), True, 'the stored joint vector')
    rep.floor('R05.16', 'defaulted joint arguments resolved from the stored vector', n, 4)


def r0517(model, rep, ck):
    """Who may read the backup: `_original_end_effector_home` exists so that restoreOriginalEE can undo a tool change.  A pose query that computes
    with it (instead of the current home tool pose) answers for the ORIGINAL tool after setArbitraryHome - joint-frame poses and the reported tool
    pose then disagree until the tool is restored.  Reads inside print / disp calls (state dumps) and comparisons are not computations."""
    rep.rule('R05.17', 'the backup home tool pose (_original_end_effector_home) is read only to restore it: no other Arm method computes with it')
    n = 0
    fld = '_original_end_effector_home'
    for name, fi in sorted(ck.arm.methods.items()):
        for a in ast.walk(fi.node):
            if not (isinstance(a, ast.Attribute) and a.attr == fld and isinstance(a.ctx, ast.Load) and isinstance(a.value, ast.Name) and a.value.id == 'self'):
                continue
            n += 1
            par = fi.module.parents.get(a)
            inert = False
            p_ = a
            while par is not None and not isinstance(par, ast.stmt):
                if isinstance(par, ast.Call) and src(par.func).split('.')[-1] in ('print', 'disp', 'dispa', 'printTFlist') and p_ is not par.func:
                    inert = True
                if isinstance(par, ast.Compare):
                    inert = True
                p_, par = par, fi.module.parents.get(par)
            ok = inert or name == 'restoreOriginalEE'
            rep.ob('R05.17', fi, '%s reads self.%s' % (name, fld), ok,
                   '%s computes with the backup of the home tool pose: after setArbitraryHome its result describes the ORIGINAL tool, while FK / getEEPos use the '
                   'current one - the poses the arm reports no longer agree' % name, line=a.lineno)
    rep.floor('R05.17', 'reads of the backup home tool pose', n, 1)


def r055(model, rep, ck):
    rep.rule('R05.5', 'move(): initialize(new base, copy of the ORIGINAL screws, LOCAL home pose, ...), then FK(stored joints) or IK(previous pose)')
    mv = ck.arm.methods.get('move')
    if mv is None:
        raise AnalysisError('anchor vanished: Arm.move')
    from .common_ops import flat_method as _fm55
    mv_params = mv.params
    mv = _fm55(ck.arm, 'move')                    # a private re-base helper is read in place
    calls = [c for c in walk_own(mv.node) if isinstance(c, ast.Call) and isinstance(c.func, ast.Attribute) and c.func.attr == 'initialize']
    ok = len(calls) == 1 and len(calls[0].args) >= 3
    if ok:
        il = Inliner(mv)
        a = [il.text(x) for x in calls[0].args]
        ok = a[0] == mv_params[1] and a[1] in ('self.original_screw_list.copy()', 'np.copy(self.original_screw_list)') \
            and a[2] == 'self._end_effector_home_local'
        rep.ob('R05.5', mv, src(calls[0])[:110], ok,
               'move must re-initialise from (new base, a COPY of the stored original screws, the LOCAL home pose); got (%s)' % ', '.join(a[:3]),
               line=calls[0].lineno)
    else:
        rep.ob('R05.5', mv, 'initialize call', False, 'move does not re-initialise the model exactly once')
    # saved pose/joints are taken before initialize
    if calls:
        saves = [n for n in walk_own(mv.node) if isinstance(n, ast.Assign) and n.lineno < calls[0].lineno]
        pose_saved = any('_end_effector_pos_global' in src(n.value) and 'copy' in src(n.value) for n in saves)
        rep.ob('R05.5', mv, 'previous tool pose saved (copied) before re-initialising', pose_saved,
               'the stationary branch needs the old tool pose, which initialize() overwrites')


def r056(model, rep, ck):
    rep.rule('R05.6', 'pose objects held as arm state are not mutated through an alias')
    arm = ck.arm
    # methods whose return value may alias a state pose
    aliasing = {}
    for name, fi in arm.methods.items():
        stored = {}
        for n in walk_own(fi.node):
            if isinstance(n, ast.Assign) and isinstance(n.value, ast.Name):
                for t in n.targets:
                    if self_field(t) in STATE_POSES and isinstance(t, ast.Attribute):
                        stored[n.value.id] = self_field(t)
        for n in walk_own(fi.node):
            if isinstance(n, ast.Return) and n.value is not None:
                v = n.value
                if isinstance(v, ast.Name) and v.id in stored:
                    aliasing[name] = stored[v.id]
                f = self_field(v) if isinstance(v, ast.Attribute) else None
                if f in STATE_POSES:
                    aliasing[name] = f
    rep.count('Arm methods returning a state pose object itself', len(aliasing))
    n_sites = 0
    for fi in model.all_funcs:
        if fi.module.name != ARM:
            continue
        # locals bound to an aliasing call or directly to a state pose
        bound = {}
        for n in walk_own(fi.node):
            if isinstance(n, ast.Assign) and len(n.targets) == 1 and isinstance(n.targets[0], ast.Name):
                v = n.value
                if isinstance(v, ast.Call) and isinstance(v.func, ast.Attribute) and isinstance(v.func.value, ast.Name) \
                        and v.func.value.id == 'self' and v.func.attr in aliasing:
                    bound[n.targets[0].id] = ('self.%s()' % v.func.attr, aliasing[v.func.attr])
                elif isinstance(v, ast.Attribute) and self_field(v) in STATE_POSES:
                    bound[n.targets[0].id] = ('self.' + v.attr, v.attr)
        if not bound:
            continue
        for n in walk_own(fi.node):
            hit = None
            if isinstance(n, (ast.Assign, ast.AugAssign)):
                for t in (n.targets if isinstance(n, ast.Assign) else [n.target]):
                    if isinstance(t, ast.Subscript) and isinstance(t.value, ast.Name) and t.value.id in bound:
                        hit = (t.value.id, src(n))
            elif isinstance(n, ast.Call) and isinstance(n.func, ast.Attribute) and isinstance(n.func.value, ast.Name) \
                    and n.func.value.id in bound and n.func.attr in TM_MUTATORS:
                hit = (n.func.value.id, src(n))
            if hit:
                n_sites += 1
                via, field = bound[hit[0]]
                rep.ob('R05.6', fi, hit[1][:100], False,
                       '`%s` is the very object stored as self.%s (obtained from %s); mutating it corrupts the arm state '
                       '(getEEPos() no longer equals FK of the stored joints)' % (hit[0], field, via), line=n.lineno)
    rep.ob('R05.6', arm.module.relpath, 'alias-mutation scan of arm_model', True, '%d mutation sites through state aliases' % n_sites,
           qualname='*', line=0)


def r057(model, rep, ck):
    rep.rule('R05.7', 'whenever the home tool pose is re-expressed for a new base, the backup used by restoreOriginalEE is re-derived from it '
                      '(a restore after a move must not bring back a pose of the old base)')
    res, _w = ck.exit_marks('orig')
    n = 0
    for fi, (bad, n_exits, own) in sorted(res.items(), key=lambda kv: kv[0].name):
        reaches = fi.name in ('__init__', 'move') or bad
        if not reaches:
            continue
        n += 1
        if bad:
            for text, (line, ex) in sorted(bad.items()):
                rep.ob('R05.7', fi, text, False,
                       'the home tool pose is rewritten for a new base (line %s) and %s is reached without refreshing '
                       '_original_end_effector_home: restoreOriginalEE() afterwards installs a tool pose expressed in the old base while the '
                       'screws belong to the new one' % (line, ex), line=line)
        else:
            rep.ob('R05.7', fi, 'restore backup follows the base in ' + fi.name, True, '%d exits' % n_exits)
    rep.floor('R05.7', 'methods that re-express the home pose for a base', n, 2)
    ro = ck.arm.methods.get('restoreOriginalEE')
    from ..engine.inline import stores_through_helpers, norm_text
    st = stores_through_helpers({n_: f_.node for n_, f_ in ck.arm.methods.items()}, ro.node, '_end_effector_home')
    vals = sorted({norm_text(v) for v, _w in st})
    ok = bool(vals) and all(v in ('self._original_end_effector_home', 'self._original_end_effector_home.copy()') for v in vals)
    rep.ob('R05.7', ro, 'restoreOriginalEE installs the backup', ok, 'restore assigns %s' % (vals or '?'))


def check(model, rep):
    rep.extra['explanation'] = (
        'Typestate over all paths of every public Arm method (self-calls analysed inline): writes of the joint vector, home '
        'pose, space screws or tool pose must be followed by the FK re-derivation before a normal exit; plus ownership/order '
        'rules for the constructor backup, call-shape and clamp-dominance rules for FK, None-default resolution, move() '
        're-initialisation arguments, alias-mutation scan, and resolvability of NumPy attributes.')
    rep.assumptions.append('FKinSpace computes the product of exponentials (decided under C02); num_dof >= 1')
    ck = ArmChecker(model)
    r050(model, rep)
    r051(model, rep, ck)
    r052(model, rep, ck)
    r053(model, rep, ck)
    r054(model, rep, ck)
    r0516(model, rep, ck)
    r0517(model, rep, ck)
    r0518(model, rep, ck)
    r055(model, rep, ck)
    r056(model, rep, ck)
    r057(model, rep, ck)
    r0510(model, rep, ck)
    r0511(model, rep, ck)
    r0512(model, rep, ck)
    from .common_ops import shared_field_objects
    rep.rule('R05.13', 'no mutable object (array, pose, list) is bound to two fields of the arm in one method without a copy (the fields would change together)')
    n13 = shared_field_objects(rep, 'R05.13', ck.arm, allowed={('restoreOriginalEE', frozenset(('_original_end_effector_home', '_end_effector_home')))},
                               what='the arm\'s state')     # restoreOriginalEE: decided by R05.11 (neither pose is ever mutated in place)
    rep.floor('R05.13', 'field stores of Arm examined', n13, 40)
    from . import frames
    rep.rule('R05.9', 'kinematics methods of Arm: every relative transform inv(A) @ B / globalToLocal(A, B) is taken between poses expressed in the same frame (world vs base)')
    kin = [fi for name, fi in sorted(ck.arm.methods.items()) if not ('ynamics' in name or name in ('massMatrix', 'coriolisGravity'))]
    n_fr = frames.check_methods(rep, 'R05.9', kin)
    rep.count('R05.9 relative transforms with both frames known', n_fr)
    from .c02 import closure_obligations
    n = closure_obligations(model, rep, 'R05.8', [ck.arm.methods[m] for m in ('FK', 'FKJoint', 'FKLink', 'initialize', 'move') if m in ck.arm.methods],
                            'Arm forward kinematics (FKinSpace and the adjoint used on base changes)')
    rep.floor('R05.8', 'shared primitives under arm FK', len(n), 6)



def r0511(model, rep, ck):
    """Pose fields that share their object with a backup are only ever re-bound.  If some method binds one pose field of the arm to
    the object held by another (`self._end_effector_home = self._original_end_effector_home`, no copy), then writing INTO either of
    them (element store, augmented assignment, a mutating method of tm) changes both: the backup is lost for good."""
    rep.rule('R05.11', 'pose fields of the arm that can share their object (a restore without copy) are never mutated in place')
    arm = ck.arm
    tmcls = model.cls('basic_robotics.general.faser_transform', 'tm')
    # mutating methods of tm: those that store to self.TM / self.TAA (directly or through another such method)
    writes = set()
    changed = True
    while changed:
        changed = False
        for name, f_ in tmcls.methods.items():
            if name in writes or name.startswith('from') or name == '__init__':
                continue
            for n in walk_own(f_.node):
                tg = n.targets if isinstance(n, ast.Assign) else ([n.target] if isinstance(n, ast.AugAssign) else [])
                hit = False
                for t in tg:
                    b = t
                    while isinstance(b, ast.Subscript):
                        b = b.value
                    if isinstance(b, ast.Attribute) and isinstance(b.value, ast.Name) and b.value.id == 'self' and b.attr in ('TM', 'TAA'):
                        hit = True
                if isinstance(n, ast.Call) and isinstance(n.func, ast.Attribute) and isinstance(n.func.value, ast.Name) and n.func.value.id == 'self' \
                        and n.func.attr in writes:
                    hit = True
                if hit and not name.startswith('__') or (hit and name in ('__setitem__', '__iadd__', '__isub__', '__imul__', '__imatmul__')):
                    writes.add(name)
                    changed = True
                    break
    pure_like = {'copy', 'inv', 'gTM', 'gTAA', 'getQuat', 'adjoint', 'exp6', 'tripleUnit', 'quatPos', 'spaceFrame', 'flatten', 'gPos', 'gRot'}
    mutators = {m for m in writes if m not in pure_like and not m.startswith('TAAtoTM') and not m.startswith('TMtoTAA')} | {'TAAtoTM', 'TMtoTAA'} & set(tmcls.methods)
    # sharing edges: self.A = self.B (no copy) in any method of Arm
    shared = set()
    for f_ in arm.methods.values():
        for n in walk_own(f_.node):
            if isinstance(n, ast.Assign) and len(n.targets) == 1 and isinstance(n.targets[0], ast.Attribute) and src(n.targets[0].value) == 'self' \
                    and isinstance(n.value, ast.Attribute) and src(n.value.value) == 'self':
                shared |= {n.targets[0].attr, n.value.attr}
    rep.note('pose fields that may share one object: %s; mutating methods of tm: %s' % (sorted(shared), sorted(mutators)))
    n_sites = 0
    for f_ in arm.methods.values():
        for n in walk_own(f_.node):
            fld, how = None, None
            if isinstance(n, (ast.Assign, ast.AugAssign)):
                for t in (n.targets if isinstance(n, ast.Assign) else [n.target]):
                    if isinstance(t, ast.Subscript):
                        b = t
                        while isinstance(b, ast.Subscript):
                            b = b.value
                        if isinstance(b, ast.Attribute) and src(b.value) == 'self':
                            fld, how = b.attr, 'element store'
                    if isinstance(n, ast.AugAssign) and isinstance(t, ast.Attribute) and src(t.value) == 'self':
                        fld, how = t.attr, 'augmented assignment'
            if isinstance(n, ast.Call) and isinstance(n.func, ast.Attribute) and n.func.attr in mutators and isinstance(n.func.value, ast.Attribute) \
                    and src(n.func.value.value) == 'self':
                fld, how = n.func.value.attr, '.%s(...)' % n.func.attr
            if fld is not None and fld in shared:
                n_sites += 1
                rep.ob('R05.11', f_, src(n)[:80], False,
                       'self.%s is changed in place (%s) although it can be the very object another pose field of the arm holds (%s are bound to each '
                       'other without a copy): the change also rewrites the other one, e.g. the saved original tool pose after a restore'
                       % (fld, how, sorted(shared)), line=n.lineno)
    if n_sites == 0:
        rep.ob('R05.11', arm.methods['restoreOriginalEE'] if 'restoreOriginalEE' in arm.methods else arm.module.relpath,
               'no in-place change of a shareable pose field (%s)' % ', '.join(sorted(shared)), True)
    rep.count('R05.11 shareable pose fields', len(shared))



def r0512(model, rep, ck):
    """No function the arm hands (a view of) its stored joint vector to writes into that argument.  `fsr.angleMod(x)` hands x back when
    nothing is wrapped and `reshape` is a view, so `theta_init = fsr.angleMod(self._theta.reshape(n))` IS the arm's state; a solver
    that iterates in its argument moves the joints while the reported tool pose stays."""
    rep.rule('R05.12', 'no kernel / helper that an Arm method hands a view of the stored joint vector to writes its storage '
                       '(the joints would change without the tool pose being re-derived)')
    from ..engine.effects import Effects
    fx = Effects(model)
    COPIES = ('copy', 'array', 'zeros', 'zeros_like', 'ones', 'deepcopy', 'tolist', 'astype')
    n = 0

    def is_view(e, views):
        """may `e` evaluate to (a view of) the stored joint vector?"""
        if isinstance(e, ast.Attribute) and self_field(e) == '_theta':
            return True
        if isinstance(e, ast.Name):
            return e.id in views
        if isinstance(e, ast.Subscript):
            return is_view(e.value, views) and isinstance(e.slice, (ast.Slice, ast.Tuple))
        if isinstance(e, ast.Call):
            f_ = e.func
            tail = f_.attr if isinstance(f_, ast.Attribute) else (f_.id if isinstance(f_, ast.Name) else '')
            if tail in COPIES:
                return False
            if isinstance(f_, ast.Attribute) and tail in ('reshape', 'flatten', 'ravel', 'squeeze', 'view', 'T'):
                return tail != 'flatten' and is_view(f_.value, views)
            if tail in ('angleMod', 'asarray', 'ascontiguousarray', 'reshape', 'squeeze', 'ravel', 'atleast_1d'):
                return any(is_view(a_, views) for a_ in e.args)
        return False

    from ..engine import peval as _pe12
    arm_meths = {n_: f_.node for n_, f_ in ck.arm.methods.items()}
    for name, fi in sorted(ck.arm.methods.items()):
        if name.startswith('_') and not name.startswith('__'):
            continue                      # private helpers are read where they are called (inlined below)
        node12 = _pe12.flatten(arm_meths, fi.node, depth=2, impure=True)
        views = set()
        for _ in range(2):
            for st in walk_own(node12):
                if isinstance(st, ast.Assign) and len(st.targets) == 1 and isinstance(st.targets[0], ast.Name) and is_view(st.value, views):
                    views.add(st.targets[0].id)
        # the method itself writing INTO such a view (element / slice store, augmented assignment)
        for st in walk_own(node12):
            tg = st.targets if isinstance(st, ast.Assign) else ([st.target] if isinstance(st, ast.AugAssign) else [])
            for t in tg:
                base = t
                while isinstance(base, ast.Subscript):
                    base = base.value
                if base is not t and isinstance(base, ast.Name) and base.id in views:
                    n += 1
                    rep.ob('R05.12', fi, '%s: no store into `%s`, a view of the stored joints' % (name, base.id), False,
                           '`%s` writes into `%s`, which is (a view of) the arm\'s stored joint vector (%s): the joints change while the reported tool pose, '
                           'the joint frames and default-argument queries still describe the old configuration - e.g. restart seeds written there '
                           'remain after a solve that fails' % (src(st)[:60], base.id, name), line=st.lineno)
                elif isinstance(st, ast.AugAssign) and isinstance(t, ast.Name) and t.id in views:
                    n += 1
                    rep.ob('R05.12', fi, '%s: no in-place update of `%s`, a view of the stored joints' % (name, t.id), False,
                           '`%s` updates `%s` in place, which is (a view of) the arm\'s stored joint vector' % (src(st)[:60], t.id), line=st.lineno)
        for c in walk_own(node12):
            if not isinstance(c, ast.Call):
                continue
            hot = [(k, a_) for k, a_ in enumerate(c.args) if is_view(a_, views)]
            if not hot:
                continue
            r = model.resolve_call(fi, c)
            if not r or r[0] != 'func' or r[1].cls is not None:
                continue
            callee = r[1]
            if callee.name == 'angleMod':
                # the one accepted writer: it wraps entries beyond one turn, and the stored vector is already wrapped (FK stores
                # angleMod(theta)), so on the arm's own state it is the identity; what it hands back is the view itself (is_view above)
                continue
            summ = fx.summary(callee)
            for k, a_ in hot:
                if k >= len(callee.params):
                    continue
                pname = callee.params[k]
                n += 1
                sites = [(n_, how) for (p_, k_), lst in summ.writes.items() if p_ == pname and k_ != 'meta' for (n_, how) in lst]
                rep.ob('R05.12', fi, '%s(... %s ...) leaves the stored joints unwritten' % (callee.name, src(a_)[:40]), not sites,
                       ('%s writes its parameter `%s` (%s, line %d) and %s passes it %s, a view of the arm\'s stored joint vector: the joints '
                        'change while the reported tool pose, the joint frames and default-argument queries still describe the old configuration'
                        % (callee.name, pname, sites[0][1], sites[0][0].lineno, name, src(a_)[:60])) if sites else 'not written', line=c.lineno)
    rep.count('R05.12 calls receiving a view of the stored joints', n)
    rep.floor('R05.12', 'calls receiving a view of the stored joints', n, 1)

def r0510(model, rep, ck):
    """Refresh helpers assign what they refresh on every path (a helper that only SETS a derived field when a condition holds
    leaves the value computed for an earlier configuration in place when the condition stops holding)."""
    rep.rule('R05.10', 'every `_helper_*` method of Arm that derives a field from other fields assigns that field on every path to its exit '
                       '(set or reset - never left as computed for an earlier tool / base)')
    n = 0
    for name, fi in sorted(ck.arm.methods.items()):
        if not name.startswith('_helper_'):
            continue
        derived = {}
        for st in walk_own(fi.node):
            if isinstance(st, ast.Assign):
                for t in st.targets:
                    if isinstance(t, ast.Attribute) and isinstance(t.value, ast.Name) and t.value.id == 'self':
                        reads = {x.attr for x in ast.walk(st.value) if isinstance(x, ast.Attribute) and isinstance(x.value, ast.Name) and x.value.id == 'self'}
                        if reads - {t.attr}:
                            derived.setdefault(t.attr, st.lineno)
        if not derived:
            continue

        class Must(EventDomain):
            def on_store(s, target, value, stmt, state):
                got, consts = state
                if isinstance(target, ast.Attribute) and isinstance(target.value, ast.Name) and target.value.id == 'self':
                    got = got | {target.attr}
                return ((got, consts),)
        exits = Flow(Must()).run(fi.body(), {(frozenset(), frozenset())})
        normal = [e for e in exits if e.kind in ('fall', 'return')]
        for fld, line in sorted(derived.items()):
            n += 1
            ok = bool(normal) and all(fld in e.state[0] for e in normal)
            rep.ob('R05.10', fi, 'self.%s assigned on every path' % fld, ok,
                   'self.%s is computed from other fields of the arm on one path and left untouched on another: after the tool (or base) changes '
                   'back, the value derived for the earlier configuration stays (e.g. setArbitraryHome then restoreOriginalEE leaves a spurious '
                   'tool-to-joint frame in getJointTransforms())' % fld, line=line)
    rep.count('R05.10 derived fields of refresh helpers', n)
    rep.floor('R05.10', 'derived fields of refresh helpers', n, 1)
    # ---------------------------------------------------------------- R05.14
    # queries with defaulted joints refer to the stored configuration AND the current kinematic model: the body screws that jacobianBody()
    # reads are re-derived after every write of the home tool pose / space screws (same typestate as C06 R06.1)
    from .c06 import body_screw_freshness
    body_screw_freshness(model, rep, 'R05.14')
    rep.rules['R05.14'] = ('body screw list re-derived from the CURRENT home pose and space screws after the last write of either, on every path of every public '
                           'method (jacobianBody() and the body-frame statics describe the tool the arm reports)')
    # ---------------------------------------------------------------- R05.15
    # restoreOriginalEE puts the ORIGINAL tool back whatever the current tool is: no path leaves the home pose as it is unless the two
    # poses are known to be equal as a whole (a position-only or tolerance test is not such knowledge: a re-oriented tool has the same origin)
    from ..engine.paths import paths_of as _paths515
    rep.rule('R05.15', 'restoreOriginalEE stores the original home tool pose on every path (a path that skips it is taken only when the two poses are equal as '
                       'whole transforms)')
    arm15 = model.cls(ARM, 'Arm')
    if 'restoreOriginalEE' not in arm15.methods:
        raise AnalysisError('anchor vanished: Arm.restoreOriginalEE')
    ro = flat_method(arm15, 'restoreOriginalEE')
    n15 = 0
    for pth in _paths515(ro.node, ro.params):
        if pth.kind not in ('return', 'fall'):
            continue
        n15 += 1
        st15 = [e for e in pth.events if e[0] == 'store' and e[1] == 'self._end_effector_home' and len(e) > 3]
        restored = any(norm_text(e[3]) in ('self._original_end_effector_home', 'self._original_end_effector_home.copy()', 'tm(self._original_end_effector_home)') for e in st15)
        whole_eq = any(v_ and k_.replace(' ', '') in ('self._end_effector_home==self._original_end_effector_home', 'self._original_end_effector_home==self._end_effector_home',
                                                        'self._end_effector_homeisself._original_end_effector_home', 'self._original_end_effector_homeisself._end_effector_home')
                       for k_, v_ in pth.facts.items())
        conds = ['%s is %s' % (pth.fact_src.get(k_, k_)[:70], v_) for k_, v_ in sorted(pth.facts.items())][:2]
        rep.ob('R05.15', ro, 'original tool restored on the path ending at line %s' % (pth.ret_line or 'end'), restored or whole_eq,
               'a path through restoreOriginalEE (taken when %s) returns without storing the original home pose: a tool that was changed in a way this test does not see '
               '(re-oriented about its own origin) stays in place - FK, getEEPos and the body Jacobian keep describing the custom tool after the restore'
               % (' and '.join(conds) or 'no condition'), line=pth.ret_line)
    rep.floor('R05.15', 'paths of restoreOriginalEE', n15, 1)


def r0518(model, rep, ck):
    """Memo coherence over the forward-kinematics queries of the arm (rule function shared with R08.7 / R06.8 / R11.9)."""
    from . import memocoh
    rep.rule('R05.18', 'FK / FKLink / FKJoint / getEEPos / getJointTransforms keep nothing between calls that a configuration setter can outdate: every method that '
             'writes a field a kept value was computed from also discards the kept value')
    allm = memocoh.all_methods(ck.arm)
    q = [fi for n, fi in sorted(allm.items()) if n in ('FK', 'FKLink', 'FKJoint', 'getEEPos', 'getJointTransforms')]
    memocoh.check(rep, 'R05.18', ck.arm, q, 'poses of an arm whose screws, home pose or base were changed since')
    rep.floor('R05.18', 'forward-kinematics queries scanned', len(q), 4)
