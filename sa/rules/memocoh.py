"""Memo coherence of query methods (shared rule function; first user: C08 R08.7).

A query method Q of a class (here: the dynamics methods of Arm) may keep a result between calls in a field X of the object only if every
method that changes what X was computed from also discards X.  The rule is a closed def-use argument over the class:

  memo field      a field `self.X` that Q stores (`self.X = e`, `self.X[k] = e`, augmented stores) and reads at a point that is not preceded,
                  in the method's statement sequence, by an unconditional whole-field store (such a read can see an earlier call's value)
  sources of X    the fields `self.F` read by the stored expression e, followed backwards through the locals of Q (every statement of Q
                  that binds or fills a local e reads, transitively) and through `self.m(...)` calls (fields read by m, transitively)
                  sources that reach the stored value only through locals that a test guarding the store compares with the kept field
                  (the key of a keyed memo) are re-validated on every call and are not sources
  writers of F    every method of the class and its bases that stores F or an element of F, or stores through a call of such a method
  obligation      each writer of a source F also stores X (itself or through a self-call, transitively)

A class without memo fields in its query methods has no obligations (the count is recorded).  The rule says nothing about memo fields that
every writer resets - it asks for no more than coherence - and it does not look at stores from outside the class.
"""
import ast


def _self_name(fn):
    a = fn.args.posonlyargs + fn.args.args
    return a[0].arg if a else None


def _field_of(node, me):
    """`self.X`, `self.X[...]`, `self.X[...][...]`, `self.X.attr` -> 'X'."""
    while isinstance(node, (ast.Subscript, ast.Starred)):
        node = node.value
    if isinstance(node, ast.Attribute) and isinstance(node.value, ast.Name) and node.value.id == me:
        return node.attr
    return None


def _own_nodes(fn):
    """Nodes of a function body, nested function bodies included (closures run on behalf of the method)."""
    return ast.walk(fn)


def stores(fn):
    """{field: [line, ...]} stored by the function itself (whole field or element; `del` counts as a discard = store)."""
    me = _self_name(fn)
    out = {}
    if me is None:
        return out
    for n in _own_nodes(fn):
        tgts = []
        if isinstance(n, ast.Assign):
            tgts = n.targets
        elif isinstance(n, (ast.AugAssign, ast.AnnAssign)):
            tgts = [n.target]
        elif isinstance(n, ast.Delete):
            tgts = n.targets
        elif isinstance(n, (ast.For, ast.AsyncFor)):
            tgts = [n.target]
        elif isinstance(n, ast.Call) and isinstance(n.func, ast.Attribute) and n.func.attr in (
                'clear', 'pop', 'update', 'append', 'extend', 'fill', 'setdefault', 'popitem', 'insert', 'remove'):
            f = _field_of(n.func.value, me)
            if f:
                out.setdefault(f, []).append(n.lineno)
        elif isinstance(n, ast.Call) and isinstance(n.func, ast.Name) and n.func.id in ('setattr', 'delattr') and len(n.args) >= 2 \
                and isinstance(n.args[0], ast.Name) and n.args[0].id == me and isinstance(n.args[1], ast.Constant):
            out.setdefault(str(n.args[1].value), []).append(n.lineno)
        flat = []
        for t in tgts:
            flat.extend(t.elts if isinstance(t, (ast.Tuple, ast.List)) else [t])
        for t in flat:
            f = _field_of(t, me)
            if f:
                out.setdefault(f, []).append(n.lineno)
    return out


def _self_calls(node, me):
    for n in ast.walk(node):
        if isinstance(n, ast.Call) and isinstance(n.func, ast.Attribute) and isinstance(n.func.value, ast.Name) and n.func.value.id == me:
            yield n.func.attr


def _loads(node, me):
    """fields read (Load context) and local names read under `node`."""
    fields, names = set(), set()
    for n in ast.walk(node):
        if isinstance(n, ast.Attribute) and isinstance(n.ctx, ast.Load) and isinstance(n.value, ast.Name) and n.value.id == me:
            fields.add(n.attr)
        elif isinstance(n, ast.Name) and isinstance(n.ctx, ast.Load) and n.id != me:
            names.add(n.id)
    return fields, names


def all_methods(cls):
    """name -> FuncInfo over the class and its resolved bases (the class's own definition wins)."""
    out = {}
    seen = set()
    stack = [cls]
    while stack:
        c = stack.pop(0)
        if id(c) in seen:
            continue
        seen.add(id(c))
        for k, v in c.methods.items():
            out.setdefault(k, v)
        stack.extend(getattr(c, 'bases', []) or [])
    return out


def _closure(methods, start_names, per):
    """union of per(method) over the self-call closure of the named methods."""
    seen, todo, acc = set(), list(start_names), set()
    while todo:
        nm = todo.pop()
        if nm in seen or nm not in methods:
            continue
        seen.add(nm)
        fn = methods[nm].node
        acc |= per(fn)
        todo.extend(_self_calls(fn, _self_name(fn)))
    return acc


def sources_of(fn, stored_exprs, methods, validated=frozenset()):
    """Fields the stored expressions depend on: backwards through the locals of fn and through self-calls."""
    me = _self_name(fn)
    # local name -> nodes that bind / fill it (value side plus, for element stores, the index side; loop iterables for loop targets)
    binds = {}
    for n in ast.walk(fn):
        if isinstance(n, ast.Assign):
            for t in n.targets:
                for e in (t.elts if isinstance(t, (ast.Tuple, ast.List)) else [t]):
                    b = e
                    while isinstance(b, (ast.Subscript, ast.Attribute, ast.Starred)):
                        b = b.value
                    if isinstance(b, ast.Name) and b.id != me:
                        binds.setdefault(b.id, []).append(n)
        elif isinstance(n, (ast.AugAssign, ast.AnnAssign)) and n.value is not None:
            b = n.target
            while isinstance(b, (ast.Subscript, ast.Attribute)):
                b = b.value
            if isinstance(b, ast.Name) and b.id != me:
                binds.setdefault(b.id, []).append(n)
        elif isinstance(n, (ast.For, ast.comprehension)):
            for e in ast.walk(n.target):
                if isinstance(e, ast.Name):
                    binds.setdefault(e.id, []).append(n.iter)
        elif isinstance(n, ast.NamedExpr) and isinstance(n.target, ast.Name):
            binds.setdefault(n.target.id, []).append(n.value)
        elif isinstance(n, ast.withitem) and n.optional_vars is not None:
            for e in ast.walk(n.optional_vars):
                if isinstance(e, ast.Name):
                    binds.setdefault(e.id, []).append(n.context_expr)
    fields, seen_names, todo = set(), set(validated), list(stored_exprs)
    called = set()
    while todo:
        e = todo.pop()
        f, names = _loads(e, me)
        fields |= f
        called |= set(_self_calls(e, me))
        for nm in names - seen_names:
            seen_names.add(nm)
            todo.extend(binds.get(nm, []))
    fields |= _closure(methods, called, lambda g: _loads(g, _self_name(g))[0])
    return fields - called


def guard_names(fn, x):
    """Locals the tests guarding the stores of self.x depend on (transitively through their bindings): what the kept value is
    re-validated against on every call (the key of a keyed memo).  A source that reaches the kept value only through these is covered
    by the comparison and needs no discarding."""
    me = _self_name(fn)
    parents = {}
    for n in ast.walk(fn):
        for c in ast.iter_child_nodes(n):
            parents[c] = n
    binds = {}
    for n in ast.walk(fn):
        if isinstance(n, ast.Assign):
            for t in n.targets:
                for e in (t.elts if isinstance(t, (ast.Tuple, ast.List)) else [t]):
                    if isinstance(e, ast.Name):
                        binds.setdefault(e.id, []).append(n.value)
    names = set()
    for n in ast.walk(fn):
        if isinstance(n, (ast.Assign, ast.AugAssign, ast.AnnAssign)):
            tg = n.targets if isinstance(n, ast.Assign) else [n.target]
            flat = []
            for t in tg:
                flat.extend(t.elts if isinstance(t, (ast.Tuple, ast.List)) else [t])
            if not any(_field_of(t, me) == x for t in flat):
                continue
            a = n
            while a in parents and a is not fn:
                pa = parents[a]
                if isinstance(pa, (ast.If, ast.While)) and a is not pa.test:
                    # only tests that also read the kept field compare it with something
                    if x in _loads(pa.test, me)[0]:
                        names |= _loads(pa.test, me)[1]
                a = pa
    todo = list(names)
    while todo:
        nm = todo.pop()
        for v in binds.get(nm, []):
            for k in _loads(v, me)[1]:
                if k not in names:
                    names.add(k)
                    todo.append(k)
    return names


def check(rep, rule, cls, queries, what):
    """queries: FuncInfo list.  Returns the number of memo fields found."""
    methods = all_methods(cls)
    n_memo = 0
    rep.count('%s query methods scanned for fields kept between calls' % rule, len(queries))
    for q in queries:
        fn = q.node
        me = _self_name(fn)
        if me is None:
            continue
        st = stores(fn)
        # reads that can see what an EARLIER call left: not preceded, in the statement sequence of the method, by an unconditional whole-field store
        definite, rd = set(), set()
        for stmt in fn.body:
            rd |= _loads(stmt, me)[0] - definite
            if isinstance(stmt, ast.Assign):
                for t in stmt.targets:
                    for e in (t.elts if isinstance(t, (ast.Tuple, ast.List)) else [t]):
                        if isinstance(e, ast.Attribute) and isinstance(e.value, ast.Name) and e.value.id == me:
                            definite.add(e.attr)
            elif isinstance(stmt, ast.AnnAssign) and stmt.value is not None and isinstance(stmt.target, ast.Attribute) \
                    and isinstance(stmt.target.value, ast.Name) and stmt.target.value.id == me:
                definite.add(stmt.target.attr)
        for x in sorted(set(st) & rd):
            n_memo += 1
            exprs = []
            for n in ast.walk(fn):
                if isinstance(n, (ast.Assign, ast.AugAssign, ast.AnnAssign)) and getattr(n, 'value', None) is not None:
                    tg = n.targets if isinstance(n, ast.Assign) else [n.target]
                    flat = []
                    for t in tg:
                        flat.extend(t.elts if isinstance(t, (ast.Tuple, ast.List)) else [t])
                    if any(_field_of(t, me) == x for t in flat):
                        exprs.append(n.value)
            src = sources_of(fn, exprs, methods, frozenset(guard_names(fn, x))) - {x}
            src = {f_ for f_ in src if f_ not in methods}
            rep.count('%s memo fields' % rule)
            for other_name, m in sorted(methods.items()):
                if m.node is fn:
                    continue
                own = stores(m.node)
                hit = sorted(set(own) & src)
                if not hit:
                    continue
                resets = x in _closure(methods, [other_name], lambda g: set(stores(g)))
                rep.ob(rule, m, '%s writes %s: discards %s.%s' % (m.qualname, ', '.join('self.' + h for h in hit), q.name, x), resets,
                       '%s keeps self.%s between calls (stored line %d), computed from %s; %s changes %s and leaves the kept value in place: '
                       'the next %s call answers for the previous configuration (%s)'
                       % (q.qualname, x, st[x][0], ', '.join('self.' + s for s in sorted(src)) or 'no field', m.qualname,
                          ', '.join('self.' + h for h in hit), q.name, what), line=own[hit[0]][0])
    rep.ob(rule, cls.module.relpath, 'fields kept between calls by the query methods', True,
           '%d query methods, %d fields kept between calls' % (len(queries), n_memo), qualname=cls.name, line=cls.node.lineno, nontrivial=False)
    return n_memo
