"""C12 - wrenches and screws change frame as a group action and add as vectors.

Decided statically:
  R12.1 dunder <-> operator agreement for Screw and Wrench: every return branch of
        __add__/__radd__/__sub__/__rsub__/__mul__/__rmul__/__truediv__/__rtruediv__ applies the
        operator of that dunder to (projections of) self and other in the implied order; the
        documented non-standard branches are an explicit table.
  R12.2 frame-change duality: Screw.changeFrame uses Ad(globalToLocal(new, old)) @ data,
        Wrench.changeFrame uses Ad(globalToLocal(old, new)).T @ data; the default old frame is
        read before the frame is re-recorded; every path that rewrites data records the new frame;
        same-frame early return leaves data untouched.
  R12.3 moment construction: Wrench built from a 3-vector force computes cross(position, force),
        stores it in [0:3] and the force in [3:6], consistently with getMoment/getForce;
        makeWrench passes (direction*magnitude, position, frame) in parameter order.
  R12.4 mixed-frame arithmetic converts a COPY of the right operand into the LEFT operand's frame
        and the result is expressed in that frame.
Not decided: functoriality / power invariance as numbers (consequences of R12.2 and SE(3) algebra).
"""
import ast

from ..engine.model import AnalysisError, src, walk_own
from ..engine.flow import Flow
from ..engine.inline import Inliner, cmp_parts
from ..engine.typestate import EventDomain
from .common_ops import check_dunders, single_assignments, unwrap

SCREW = 'basic_robotics.general.faser_screw'
WRENCH = 'basic_robotics.general.faser_wrench'
FSR = 'basic_robotics.general.faser_general'
ARITH = ['__add__', '__radd__', '__sub__', '__rsub__', '__mul__', '__rmul__', '__truediv__', '__rtruediv__']
WRAPPERS = {'Screw', 'Wrench', 'Twist', '_wrenchConverter'}
EXCEPTIONS = {
    ('__mul__', 'self.cross('): 'Screw * Screw is documented as the screw cross product',
    ('__mul__', 'self.dualScalarMultiply('): 'Screw * [a, b] is documented as dual-scalar multiplication',
}


def _resolve(expr, assigns, depth=0):
    while isinstance(expr, ast.Name) and expr.id in assigns and len(assigns[expr.id]) == 1 and depth < 6:
        expr = assigns[expr.id][0]
        depth += 1
    return expr


class Checker:
    def __init__(self, model, rep):
        self.model = model
        self.rep = rep
        self.screw = model.cls(SCREW, 'Screw')
        self.wrench = model.cls(WRENCH, 'Wrench')

    def r121(self):
        rep = self.rep
        rep.rule('R12.1', 'each return branch of the arithmetic dunders of Screw/Wrench applies that dunder\'s operator to '
                          '(self, other) in the implied order')
        n = check_dunders(rep, 'R12.1', self.model, self.screw, ARITH, WRAPPERS, EXCEPTIONS)
        n += check_dunders(rep, 'R12.1', self.model, self.wrench, ARITH, WRAPPERS, EXCEPTIONS)
        rep.floor('R12.1', 'return branches of arithmetic dunders', n, 20)

    # ------------------------------------------------------------------ R12.2
    def r122(self):
        rep = self.rep
        rep.rule('R12.2', 'Screw: data = Ad(globalToLocal(new, old)) @ data; Wrench: data = Ad(globalToLocal(old, new)).T @ data; '
                          'default old frame read before _setFrame; new frame recorded on every rewriting path')
        for ci, order, transposed in ((self.screw, ('new', 'old'), False), (self.wrench, ('old', 'new'), True)):
            fi = ci.methods.get('changeFrame')
            if fi is None:
                raise AnalysisError('anchor vanished: %s.changeFrame' % ci.name)
            if len(fi.params) < 3:
                raise AnalysisError('%s.changeFrame lost its (new_frame, old_frame) parameters' % ci.name)
            new_p, old_p = fi.params[1], fi.params[2]
            role = {'new': new_p, 'old': old_p}
            assigns = single_assignments(fi.node)
            stores = [n for n in walk_own(fi.node) if isinstance(n, ast.Assign) and any(
                isinstance(t, ast.Attribute) and t.attr == 'data' and isinstance(t.value, ast.Name) and t.value.id == 'self'
                for t in n.targets)]
            if not stores:
                raise AnalysisError('%s.changeFrame no longer assigns self.data' % ci.name)
            for st in stores:
                ok, msg = self._adjoint_form(st.value, assigns, role, order, transposed)
                rep.ob('R12.2', fi, src(st), ok, msg, line=st.lineno)
            # ordering / recording typestate
            self._frame_typestate(fi, new_p, old_p)
        sf = self.screw.methods.get('_setFrame')
        if sf is None:
            raise AnalysisError('anchor vanished: Screw._setFrame')
        ok = False
        for n in walk_own(sf.node):
            if isinstance(n, ast.Assign) and any(isinstance(t, ast.Attribute) and t.attr == 'frame_applied' for t in n.targets):
                v = n.value
                if isinstance(v, ast.Call) and isinstance(v.func, ast.Attribute) and v.func.attr == 'copy':
                    v = v.func.value
                ok = isinstance(v, ast.Name) and v.id == sf.params[1]
        rep.ob('R12.2', sf, 'self.frame_applied = <new frame>', ok, '_setFrame does not record its argument as the frame')

    def _adjoint_form(self, value, assigns, role, order, transposed):
        v = value
        if not (isinstance(v, ast.BinOp) and isinstance(v.op, ast.MatMult)):
            return False, 'self.data is not assigned <adjoint> @ self.data'
        if src(v.right) != 'self.data':
            return False, 'right factor is %s, not self.data' % src(v.right)
        L = _resolve(v.left, assigns)
        has_T = False
        if isinstance(L, ast.Attribute) and L.attr == 'T':
            has_T = True
            L = _resolve(L.value, assigns)
        elif isinstance(L, ast.Call) and isinstance(L.func, ast.Attribute) and L.func.attr == 'transpose' \
                and not isinstance(L.func.value, ast.Name):
            has_T = True
            L = _resolve(L.func.value, assigns)
        elif isinstance(L, ast.Call) and isinstance(L.func, ast.Attribute) and L.func.attr == 'transpose' \
                and isinstance(L.func.value, ast.Name) and L.func.value.id in ('np', 'numpy') and L.args:
            has_T = True
            L = _resolve(L.args[0], assigns)
        if has_T != transposed:
            return False, ('wrenches transform with the TRANSPOSED adjoint, twist-like screws with the plain adjoint; '
                           'found %s' % ('a transpose' if has_T else 'no transpose'))
        # adjoint of a transform object or mr.Adjoint(x.gTM()/x.TM)
        if isinstance(L, ast.Call) and isinstance(L.func, ast.Attribute) and L.func.attr == 'adjoint':
            T = _resolve(L.func.value, assigns)
        elif isinstance(L, ast.Call) and isinstance(L.func, ast.Attribute) and L.func.attr == 'Adjoint' and L.args:
            T = L.args[0]
            if isinstance(T, ast.Call) and isinstance(T.func, ast.Attribute) and T.func.attr == 'gTM':
                T = T.func.value
            elif isinstance(T, ast.Attribute) and T.attr == 'TM':
                T = T.value
            T = _resolve(T, assigns)
        else:
            return False, 'left factor is not an adjoint of the frame transition (%s)' % src(L)[:60]
        if not (isinstance(T, ast.Call) and len(T.args) == 2):
            return False, 'frame transition is not globalToLocal(a, b): %s' % src(T)[:60]
        fn = T.func.attr if isinstance(T.func, ast.Attribute) else (T.func.id if isinstance(T.func, ast.Name) else None)
        a, b = src(T.args[0]), src(T.args[1])
        want = (role[order[0]], role[order[1]])
        if fn == 'globalToLocal':
            got = (a, b)
        else:
            return False, 'frame transition computed by %s, expected globalToLocal' % fn
        if got != want:
            return False, ('frame transition is globalToLocal(%s, %s); for this class it must be globalToLocal(%s, %s) '
                           '(T_%s<-%s)' % (a, b, want[0], want[1], order[0], order[1]))
        return True, 'ok'

    def _frame_typestate(self, fi, new_p, old_p):
        rep = self.rep
        # marks: (frame_recorded: bool, data_written: bool, read_after_record: bool)

        class D(EventDomain):
            def on_call(s, call, state):
                (rec, wr, bad, badarg), consts = state
                f = call.func
                if isinstance(f, ast.Attribute) and f.attr == '_setFrame' and isinstance(f.value, ast.Name) and f.value.id == 'self':
                    if not (call.args and src(call.args[0]) == new_p):
                        badarg = True
                    rec = True
                return (((rec, wr, bad, badarg), consts),)

            def on_store(s, target, value, stmt, state):
                (rec, wr, bad, badarg), consts = state
                if value is not None and rec:
                    for n in ast.walk(value):
                        if isinstance(n, ast.Attribute) and n.attr == 'frame_applied' and isinstance(n.value, ast.Name) and n.value.id == 'self':
                            bad = True
                if isinstance(target, ast.Attribute) and target.attr == 'data' and isinstance(target.value, ast.Name) and target.value.id == 'self':
                    wr = True
                if isinstance(target, ast.Attribute) and target.attr == 'frame_applied' and isinstance(target.value, ast.Name) and target.value.id == 'self':
                    rec = True
                return (((rec, wr, bad, badarg), consts),)
        exits = Flow(D()).run(fi.body(), {((False, False, False, False), frozenset())})
        norm = [e for e in exits if e.kind in ('return', 'fall')]
        ok_rec = all((not e.state[0][1]) or e.state[0][0] for e in norm)
        rep.ob('R12.2', fi, 'frame recorded on every path that rewrites data', ok_rec,
               'a path rewrites self.data without recording the new frame (_setFrame)')
        ok_unrec = all(e.state[0][1] or not e.state[0][0] for e in norm)
        rep.ob('R12.2', fi, 'frame not re-recorded on paths that leave data untouched', ok_unrec,
               'a path records the new frame but leaves self.data in the old frame')
        rep.ob('R12.2', fi, 'default old frame read before the frame is re-recorded', not any(e.state[0][2] for e in norm),
               'self.frame_applied is read after _setFrame(new): old == new and the transformation degenerates to identity')
        rep.ob('R12.2', fi, '_setFrame receives the new frame', not any(e.state[0][3] for e in norm),
               '_setFrame is not called with the new_frame parameter')
        # same-frame early return: a return guarded by old == new precedes any write
        guard = [n for n in walk_own(fi.node) if isinstance(n, ast.If) and isinstance(n.test, ast.Compare)
                 and {src(n.test.left), src(n.test.comparators[0])} == {new_p, old_p} and isinstance(n.test.ops[0], ast.Eq)]
        ok = bool(guard) and all(any(isinstance(s, ast.Return) for s in g.body) for g in guard)
        rep.ob('R12.2', fi, 'same-frame early return', ok, 'no `if old == new: return self` shortcut (A->A must be the identity exactly)')

    # ------------------------------------------------------------------ R12.3
    def r123(self):
        rep = self.rep
        rep.rule('R12.3', 'force at a point: moment = cross(position, force) in [0:3], force in [3:6]; accessors agree; '
                          'makeWrench argument roles')
        init = self.wrench.methods.get('__init__')
        if init is None:
            raise AnalysisError('anchor vanished: Wrench.__init__')
        assigns = single_assignments(init.node)
        force_p, pos_p = init.params[1], init.params[2]
        found = 0
        for n in ast.walk(init.node):
            if isinstance(n, ast.If) and 'len(%s) == 3' % force_p in src(n.test):
                calls = [c for s in n.body for c in ast.walk(s) if isinstance(c, ast.Call) and isinstance(c.func, ast.Attribute)
                         and c.func.attr == '__init__']
                for c in calls:
                    found += 1
                    arr = c.args[0] if c.args else None
                    elems = None
                    for sub in ast.walk(arr) if arr is not None else []:
                        if isinstance(sub, ast.List) and len(sub.elts) == 6:
                            elems = sub.elts
                            break
                    if elems is None:
                        rep.ob('R12.3', init, src(c)[:80], False, '6-element wrench literal not found in the 3-vector branch', line=c.lineno)
                        continue
                    ok = True
                    msgs = []
                    mom_src = set()
                    for k in range(3):
                        e = elems[k]
                        if isinstance(e, ast.Subscript) and isinstance(e.slice, ast.Constant) and e.slice.value == k:
                            mom_src.add(src(e.value))
                        else:
                            ok = False
                            msgs.append('slot %d is %s' % (k, src(e)))
                        f = elems[3 + k]
                        if not (isinstance(f, ast.Subscript) and src(f.value) == force_p and isinstance(f.slice, ast.Constant) and f.slice.value == k):
                            ok = False
                            msgs.append('slot %d is %s, expected %s[%d]' % (3 + k, src(f), force_p, k))
                    if ok and len(mom_src) == 1:
                        m = _resolve(ast.parse(mom_src.pop(), mode='eval').body, assigns)
                        if isinstance(m, ast.Call) and isinstance(m.func, ast.Attribute) and m.func.attr == 'cross' and len(m.args) == 2:
                            a0, a1 = m.args
                            il = Inliner(init)
                            if not (pos_p in il.text(a0) and force_p not in il.text(a0) and il.text(a1) == force_p):
                                ok = False
                                msgs.append('moment is cross(%s, %s); must be cross(position, force)' % (src(a0), src(a1)))
                        else:
                            ok = False
                            msgs.append('moment is not a cross product: %s' % src(m))
                    elif ok:
                        ok = False
                        msgs.append('moment slots come from different vectors')
                    rep.ob('R12.3', init, 'force-at-point wrench literal', ok, '; '.join(msgs) or 'ok', line=c.lineno)
        if not found:
            raise AnalysisError('R12.3: the 3-vector branch of Wrench.__init__ was not recognised')
        for meth, lo, hi in (('getMoment', 0, 3), ('getForce', 3, 6)):
            fi = self.wrench.methods.get(meth)
            if fi is None:
                raise AnalysisError('anchor vanished: Wrench.' + meth)
            rets = [n for n in walk_own(fi.node) if isinstance(n, ast.Return)]
            ok = False
            for r in rets:
                for sub in ast.walk(r):
                    if isinstance(sub, ast.Subscript) and src(sub.value) == 'self.data' and isinstance(sub.slice, ast.Slice):
                        try:
                            ok = (sub.slice.lower.value, sub.slice.upper.value) == (lo, hi)
                        except AttributeError:
                            ok = False
            rep.ob('R12.3', fi, 'returns self.data[%d:%d]' % (lo, hi), ok, '%s does not read rows %d:%d of the payload' % (meth, lo, hi))
        mk = self.model.func(FSR, 'makeWrench')
        rets = sorted((n for n in walk_own(mk.node) if isinstance(n, ast.Return)), key=lambda n: n.lineno)
        first = rets[0] if rets else None     # statements after the first top-level return are dead code
        ok, msg = False, 'makeWrench does not return Wrench(force_vector, position, frame)'
        if first is not None and isinstance(first.value, ast.Call) and src(first.value.func) == 'Wrench' and len(first.value.args) == 3:
            assigns = single_assignments(mk.node)
            a0 = _resolve(first.value.args[0], assigns)
            ppos, pforce, pdir, pframe = mk.params[:4]
            fv_ok = isinstance(a0, ast.BinOp) and isinstance(a0.op, ast.Mult) and {pforce} <= {x.id for x in ast.walk(a0) if isinstance(x, ast.Name)} \
                and pdir in {x.id for x in ast.walk(a0) if isinstance(x, ast.Name)}
            ok = fv_ok and src(first.value.args[1]) == ppos and src(first.value.args[2]) == pframe
            msg = 'Wrench(%s) does not bind (direction*magnitude, position, frame) in that order' % ', '.join(src(a) for a in first.value.args)
        rep.ob('R12.3', mk, 'return Wrench(direction*force, position, frame)', ok, msg)

    # ------------------------------------------------------------------ R12.4
    def r124(self):
        rep = self.rep
        rep.rule('R12.4', 'mixed-frame operations re-express a COPY of the right operand in the LEFT operand\'s frame')
        n = 0
        for meth in ('__add__', '__sub__', 'cross', 'dot'):
            fi = self.screw.methods.get(meth)
            if fi is None:
                continue
            other = fi.params[1]
            for c in [x for x in walk_own(fi.node) if isinstance(x, ast.Call) and isinstance(x.func, ast.Attribute) and x.func.attr == 'changeFrame']:
                n += 1
                recv = c.func.value
                is_copy = isinstance(recv, ast.Call) and isinstance(recv.func, ast.Attribute) and recv.func.attr == 'copy' \
                    and src(recv.func.value) == other
                tgt_ok = bool(c.args) and src(c.args[0]) == 'self.frame_applied'
                rep.ob('R12.4', fi, src(c), is_copy and tgt_ok,
                       ('changeFrame is applied to %s itself (operand mutated)' % src(recv) if not is_copy else
                        'right operand converted into %s, not into the left operand\'s frame' % (src(c.args[0]) if c.args else '?')),
                       line=c.lineno)
            # in the different-frame branch the right operand's payload is only read through the object changeFrame returned
            for ifn in [x for x in walk_own(fi.node) if isinstance(x, ast.If)]:
                t_, neg_ = ifn.test, False
                while isinstance(t_, ast.UnaryOp) and isinstance(t_.op, ast.Not):
                    t_, neg_ = t_.operand, not neg_
                cp = cmp_parts(t_, left=lambda t: t.endswith('.frame_applied'))
                if cp is None or cp[1] not in ('==', '!=') or not cp[2].endswith('.frame_applied'):
                    continue
                same_in_body = (cp[1] == '==') != neg_
                diff_branch = ifn.orelse if same_in_body else ifn.body
                raw = [x for st_ in diff_branch for x in ast.walk(st_) if isinstance(x, ast.Attribute) and x.attr == 'data'
                       and isinstance(x.value, ast.Name) and x.value.id == other]
                n += 1
                rep.ob('R12.4', fi, '%s: operands in different frames are reconciled through changeFrame' % meth, not raw,
                       'in the different-frame branch the payload `%s.data` is combined directly (line %d): the frames are reconciled inline with one '
                       'fixed rule, but Wrench inherits %s and changes frame with the dual rule (Ad^T of the inverse transition), so wrenches in '
                       'translated frames get wrong values' % (other, raw[0].lineno if raw else 0, meth), line=ifn.lineno)
            # the mixed-frame branch exists: a frame comparison guards it
            has_cmp = any(isinstance(x, ast.Compare) and 'frame_applied' in src(x) for x in walk_own(fi.node))
            rep.ob('R12.4', fi, 'frame comparison before combining payloads', has_cmp,
                   'payloads of screws in different frames are combined without frame reconciliation')
            # results carry the left operand's frame
            for r in [x for x in walk_own(fi.node) if isinstance(x, ast.Return) and isinstance(x.value, ast.Call)]:
                f = r.value.func
                if isinstance(f, ast.Name) and f.id in ('Screw', 'Wrench') and len(r.value.args) >= 2:
                    fr = Inliner(fi).text(r.value.args[1])
                    rep.ob('R12.4', fi, 'result frame of ' + src(r.value)[:60], fr in ('self.frame_applied', 'self.frame_applied.copy()'),
                           'result is labelled with frame %s, not the left operand\'s' % fr, line=r.lineno)
        rep.floor('R12.4', 'frame reconciliation sites', n, 6)
        wc = self.wrench.methods.get('_wrenchConverter')
        if wc is not None:
            for r in [x for x in walk_own(wc.node) if isinstance(x, ast.Return) and isinstance(x.value, ast.Call) and src(x.value.func) == 'Wrench']:
                # Wrench(screw, frame): second positional parameter of Wrench.__init__ is position_applied - frame comes from the screw
                rep.ob('R12.4', wc, src(r.value), src(r.value.args[0]) == wc.params[1],
                       'converter does not wrap the computed screw', line=r.lineno)


def check(model, rep):
    rep.extra['explanation'] = (
        'Structural rules on the Screw/Wrench classes: operator/dunder agreement on every return branch, exact shape of '
        'the two changeFrame formulas (argument order of the frame transition and transposition), path-sensitive '
        'ordering of frame read / record / data rewrite, the force-at-a-point literal, and copy-before-convert in '
        'mixed-frame arithmetic.')
    rep.assumptions.append('globalToLocal(a, b) = inv(a)*b and adjoint() are as decided under C01/C04')
    ck = Checker(model, rep)
    ck.r121()
    ck.r122()
    ck.r123()
    ck.r124()
    from .c02 import closure_obligations
    tmcls = model.cls('basic_robotics.general.faser_transform', 'tm')
    helpers = [f for f in model.funcs_in('basic_robotics.general.basic_helpers') if f.name in ('globalToLocal', 'localToGlobal')]
    n = closure_obligations(model, rep, 'R12.5', [tmcls.methods['adjoint'], tmcls.methods['TAAtoTM'], tmcls.methods['TMtoTAA']] + helpers,
                            'frame changes of screws / wrenches (Adjoint of globalToLocal)')
    rep.floor('R12.5', 'shared primitives under frame changes', len(n), 6)
