"""C12 - wrenches and screws change frame as a group action and add as vectors.

Decided statically:
  R12.1 dunder <-> operator agreement for Screw and Wrench: every return branch of
        __add__/__radd__/__sub__/__rsub__/__mul__/__rmul__/__truediv__/__rtruediv__ applies the
        operator of that dunder to (projections of) self and other in the implied order; the
        documented non-standard branches are an explicit table.
  R12.2 frame-change duality: Screw.changeFrame uses Ad(globalToLocal(new, old)) @ data,
        Wrench.changeFrame uses Ad(globalToLocal(old, new)).T @ data; the default old frame is
        read before the frame is re-recorded; every path that rewrites data records the new frame;
        same-frame early return leaves data untouched.
  R12.3 moment construction: Wrench built from a 3-vector force computes cross(position, force),
        stores it in [0:3] and the force in [3:6], consistently with getMoment/getForce;
        makeWrench passes (direction*magnitude, position, frame) in parameter order.
  R12.4 mixed-frame arithmetic converts a COPY of the right operand into the LEFT operand's frame
        and the result is expressed in that frame.
Not decided: functoriality / power invariance as numbers (consequences of R12.2 and SE(3) algebra).
"""
import ast

from ..engine.model import AnalysisError, const_value, src, walk_own
from ..engine.flow import Flow
from ..engine.inline import Inliner, cmp_parts, norm_text
from ..engine.typestate import EventDomain
from .common_ops import check_dunders, single_assignments, unwrap

SCREW = 'basic_robotics.general.faser_screw'
WRENCH = 'basic_robotics.general.faser_wrench'
FSR = 'basic_robotics.general.faser_general'
ARITH = ['__add__', '__radd__', '__sub__', '__rsub__', '__mul__', '__rmul__', '__truediv__', '__rtruediv__']
WRAPPERS = {'Screw', 'Wrench', 'Twist', '_wrenchConverter'}
EXCEPTIONS = {
    ('__mul__', 'self.cross('): 'Screw * Screw is documented as the screw cross product',
    ('__mul__', 'self.dualScalarMultiply('): 'Screw * [a, b] is documented as dual-scalar multiplication',
}


def _resolve(expr, assigns, depth=0):
    while isinstance(expr, ast.Name) and expr.id in assigns and len(assigns[expr.id]) == 1 and depth < 6:
        expr = assigns[expr.id][0]
        depth += 1
    return expr


class Checker:
    def __init__(self, model, rep):
        self.model = model
        self.rep = rep
        self.screw = model.cls(SCREW, 'Screw')
        self.wrench = model.cls(WRENCH, 'Wrench')

    def r121(self):
        rep = self.rep
        rep.rule('R12.1', 'each return branch of the arithmetic dunders of Screw/Wrench applies that dunder\'s operator to '
                          '(self, other) in the implied order')
        n = check_dunders(rep, 'R12.1', self.model, self.screw, ARITH, WRAPPERS, EXCEPTIONS)
        n += check_dunders(rep, 'R12.1', self.model, self.wrench, ARITH, WRAPPERS, EXCEPTIONS)
        rep.floor('R12.1', 'return branches of arithmetic dunders', n, 20)

    # ------------------------------------------------------------------ R12.2
    def r122(self):
        rep = self.rep
        rep.rule('R12.2', 'Screw: data = Ad(globalToLocal(new, old)) @ data; Wrench: data = Ad(globalToLocal(old, new)).T @ data; '
                          'default old frame read before _setFrame; new frame recorded on every rewriting path')
        for ci, order, transposed in ((self.screw, ('new', 'old'), False), (self.wrench, ('old', 'new'), True)):
            fi = ci.methods.get('changeFrame')
            if fi is None:
                raise AnalysisError('anchor vanished: %s.changeFrame' % ci.name)
            if len(fi.params) < 3:
                raise AnalysisError('%s.changeFrame lost its (new_frame, old_frame) parameters' % ci.name)
            new_p, old_p = fi.params[1], fi.params[2]
            # decided first by normal-form equality with the reference frame change of the class (any arrangement of temporaries,
            # guard clauses, np.dot / np.transpose spellings); the structural rules below only speak when that fails
            from ..engine import tv as _tv
            args = (new_p, old_p, old_p, old_p, old_p, new_p, new_p,
                    'globalToLocal(%s, %s).adjoint()%s' % ((new_p, old_p, '') if not transposed else (old_p, new_p, '.T')))
            eq, _why = _tv.fi_matches_spec(self.model, fi, """
                def changeFrame(self, %s, %s=None):
                    if %s is None:
                        %s = self.frame_applied
                    if %s == %s:
                        return self
                    self._setFrame(%s)
                    self.data = %s @ self.data
                    return self
                """ % args)
            if eq:
                rep.ob('R12.2', fi, '%s.changeFrame == reference frame change' % ci.name, True)
                continue
            role = {'new': new_p, 'old': old_p}
            assigns = single_assignments(fi.node)
            stores = [n for n in walk_own(fi.node) if isinstance(n, ast.Assign) and any(
                isinstance(t, ast.Attribute) and t.attr == 'data' and isinstance(t.value, ast.Name) and t.value.id == 'self'
                for t in n.targets)]
            if not stores:
                raise AnalysisError('%s.changeFrame no longer assigns self.data' % ci.name)
            for st in stores:
                ok, msg = self._adjoint_form(st.value, assigns, role, order, transposed)
                rep.ob('R12.2', fi, src(st), ok, msg, line=st.lineno)
            # ordering / recording typestate
            self._frame_typestate(fi, new_p, old_p)
        sf = self.screw.methods.get('_setFrame')
        if sf is None:
            raise AnalysisError('anchor vanished: Screw._setFrame')
        ok = False
        for n in walk_own(sf.node):
            if isinstance(n, ast.Assign) and any(isinstance(t, ast.Attribute) and t.attr == 'frame_applied' for t in n.targets):
                v = n.value
                if isinstance(v, ast.Call) and isinstance(v.func, ast.Attribute) and v.func.attr == 'copy':
                    v = v.func.value
                ok = isinstance(v, ast.Name) and v.id == sf.params[1]
        rep.ob('R12.2', sf, 'self.frame_applied = <new frame>', ok, '_setFrame does not record its argument as the frame')

    def _adjoint_form(self, value, assigns, role, order, transposed):
        v = value
        if not (isinstance(v, ast.BinOp) and isinstance(v.op, ast.MatMult)):
            return False, 'self.data is not assigned <adjoint> @ self.data'
        if src(v.right) != 'self.data':
            return False, 'right factor is %s, not self.data' % src(v.right)
        L = _resolve(v.left, assigns)
        has_T = False
        if isinstance(L, ast.Attribute) and L.attr == 'T':
            has_T = True
            L = _resolve(L.value, assigns)
        elif isinstance(L, ast.Call) and isinstance(L.func, ast.Attribute) and L.func.attr == 'transpose' \
                and not isinstance(L.func.value, ast.Name):
            has_T = True
            L = _resolve(L.func.value, assigns)
        elif isinstance(L, ast.Call) and isinstance(L.func, ast.Attribute) and L.func.attr == 'transpose' \
                and isinstance(L.func.value, ast.Name) and L.func.value.id in ('np', 'numpy') and L.args:
            has_T = True
            L = _resolve(L.args[0], assigns)
        if has_T != transposed:
            return False, ('wrenches transform with the TRANSPOSED adjoint, twist-like screws with the plain adjoint; '
                           'found %s' % ('a transpose' if has_T else 'no transpose'))
        # adjoint of a transform object or mr.Adjoint(x.gTM()/x.TM)
        if isinstance(L, ast.Call) and isinstance(L.func, ast.Attribute) and L.func.attr == 'adjoint':
            T = _resolve(L.func.value, assigns)
        elif isinstance(L, ast.Call) and isinstance(L.func, ast.Attribute) and L.func.attr == 'Adjoint' and L.args:
            T = L.args[0]
            if isinstance(T, ast.Call) and isinstance(T.func, ast.Attribute) and T.func.attr == 'gTM':
                T = T.func.value
            elif isinstance(T, ast.Attribute) and T.attr == 'TM':
                T = T.value
            T = _resolve(T, assigns)
        else:
            return False, 'left factor is not an adjoint of the frame transition (%s)' % src(L)[:60]
        if not (isinstance(T, ast.Call) and len(T.args) == 2):
            return False, 'frame transition is not globalToLocal(a, b): %s' % src(T)[:60]
        fn = T.func.attr if isinstance(T.func, ast.Attribute) else (T.func.id if isinstance(T.func, ast.Name) else None)
        a, b = src(T.args[0]), src(T.args[1])
        want = (role[order[0]], role[order[1]])
        if fn == 'globalToLocal':
            got = (a, b)
        else:
            return False, 'frame transition computed by %s, expected globalToLocal' % fn
        if got != want:
            return False, ('frame transition is globalToLocal(%s, %s); for this class it must be globalToLocal(%s, %s) '
                           '(T_%s<-%s)' % (a, b, want[0], want[1], order[0], order[1]))
        return True, 'ok'

    def _frame_typestate(self, fi, new_p, old_p):
        rep = self.rep
        # marks: (frame_recorded: bool, data_written: bool, read_after_record: bool)

        class D(EventDomain):
            def on_call(s, call, state):
                (rec, wr, bad, badarg), consts = state
                f = call.func
                if isinstance(f, ast.Attribute) and f.attr == '_setFrame' and isinstance(f.value, ast.Name) and f.value.id == 'self':
                    if not (call.args and src(call.args[0]) == new_p):
                        badarg = True
                    rec = True
                return (((rec, wr, bad, badarg), consts),)

            def on_store(s, target, value, stmt, state):
                (rec, wr, bad, badarg), consts = state
                if value is not None and rec:
                    for n in ast.walk(value):
                        if isinstance(n, ast.Attribute) and n.attr == 'frame_applied' and isinstance(n.value, ast.Name) and n.value.id == 'self':
                            bad = True
                if isinstance(target, ast.Attribute) and target.attr == 'data' and isinstance(target.value, ast.Name) and target.value.id == 'self':
                    wr = True
                if isinstance(target, ast.Attribute) and target.attr == 'frame_applied' and isinstance(target.value, ast.Name) and target.value.id == 'self':
                    rec = True
                return (((rec, wr, bad, badarg), consts),)
        exits = Flow(D()).run(fi.body(), {((False, False, False, False), frozenset())})
        norm = [e for e in exits if e.kind in ('return', 'fall')]
        ok_rec = all((not e.state[0][1]) or e.state[0][0] for e in norm)
        rep.ob('R12.2', fi, 'frame recorded on every path that rewrites data', ok_rec,
               'a path rewrites self.data without recording the new frame (_setFrame)')
        ok_unrec = all(e.state[0][1] or not e.state[0][0] for e in norm)
        rep.ob('R12.2', fi, 'frame not re-recorded on paths that leave data untouched', ok_unrec,
               'a path records the new frame but leaves self.data in the old frame')
        rep.ob('R12.2', fi, 'default old frame read before the frame is re-recorded', not any(e.state[0][2] for e in norm),
               'self.frame_applied is read after _setFrame(new): old == new and the transformation degenerates to identity')
        rep.ob('R12.2', fi, '_setFrame receives the new frame', not any(e.state[0][3] for e in norm),
               '_setFrame is not called with the new_frame parameter')
        # same-frame early return: a return guarded by old == new precedes any write
        guard = [n for n in walk_own(fi.node) if isinstance(n, ast.If) and isinstance(n.test, ast.Compare)
                 and {src(n.test.left), src(n.test.comparators[0])} == {new_p, old_p} and isinstance(n.test.ops[0], ast.Eq)]
        ok = bool(guard) and all(any(isinstance(s, ast.Return) for s in g.body) for g in guard)
        rep.ob('R12.2', fi, 'same-frame early return', ok, 'no `if old == new: return self` shortcut (A->A must be the identity exactly)')

    # ------------------------------------------------------------------ R12.3
    def r123(self):
        rep = self.rep
        rep.rule('R12.3', 'force at a point: moment = cross(position, force) in [0:3], force in [3:6]; accessors agree; '
                          'makeWrench argument roles')
        init = self.wrench.methods.get('__init__')
        if init is None:
            raise AnalysisError('anchor vanished: Wrench.__init__')
        force_p, pos_p = init.params[1], init.params[2]
        # the constructor with its private helpers inlined, explored path by path for a 3-element, non-Screw, non-None force:
        # the payload handed to Screw.__init__ on those paths is the force-at-a-point wrench
        from ..engine import peval as _pe
        from ..engine.paths import paths_of
        flat = _pe.flatten({n_: f_.node for n_, f_ in self.wrench.methods.items()}, init.node, depth=2, impure=True)
        ps = paths_of(flat, init.params, consts={'len(%s)' % force_p: 3, 'isinstance(%s,Screw)' % force_p: False, '%sisNone' % force_p: False,
                                                  '%s==None' % force_p: False})
        found = 0
        for pth in ps:
            for ev in pth.calls(lambda t: t.endswith('.__init__')):
                if not ev[2]:
                    continue
                found += 1
                try:
                    arr = ast.parse(ev[2][0], mode='eval').body
                except SyntaxError:
                    arr = None
                elems = None
                for sub in ast.walk(arr) if arr is not None else []:
                    if isinstance(sub, ast.List) and len(sub.elts) == 6:
                        elems = sub.elts
                        break
                if elems is None:
                    rep.ob('R12.3', init, 'payload of a 3-vector force', False, '6-element wrench literal not found on the 3-vector path: %s' % ev[2][0][:80], line=ev[3])
                    continue
                ok = True
                msgs = []
                mom_src = set()
                for k in range(3):
                    e = elems[k]
                    if isinstance(e, ast.Subscript) and isinstance(e.slice, ast.Constant) and e.slice.value == k:
                        mom_src.add(norm_text(e.value))
                    else:
                        ok = False
                        msgs.append('slot %d is %s' % (k, src(e)))
                    f = elems[3 + k]
                    if not (isinstance(f, ast.Subscript) and src(f.value) == force_p and isinstance(f.slice, ast.Constant) and f.slice.value == k):
                        ok = False
                        msgs.append('slot %d is %s, expected %s[%d]' % (3 + k, src(f), force_p, k))
                if ok and len(mom_src) == 1:
                    m = ast.parse(mom_src.pop(), mode='eval').body
                    if isinstance(m, ast.Call) and isinstance(m.func, ast.Attribute) and m.func.attr == 'cross' and len(m.args) == 2:
                        a0, a1 = norm_text(m.args[0]), norm_text(m.args[1])
                        n0 = {x.id for x in ast.walk(m.args[0]) if isinstance(x, ast.Name)} | {x.attr for x in ast.walk(m.args[0]) if isinstance(x, ast.Attribute)}
                        # the lever arm is the application point: the parameter, the stored field, or the default pose on the
                        # path where the parameter is None
                        is_default = 'tm()' in a0 and any(pth.facts.get(k_ % nm_) is True for k_ in ('%sisNone', '%s==None') for nm_ in (pos_p, pos_p + '__was'))
                        if not ((pos_p in n0 or is_default) and force_p not in n0 and a1 == force_p):
                            ok = False
                            msgs.append('moment is cross(%s, %s); must be cross(position, force)' % (a0, a1))
                    else:
                        ok = False
                        msgs.append('moment is not a cross product: %s' % src(m))
                elif ok:
                    ok = False
                    msgs.append('moment slots come from different vectors')
                rep.ob('R12.3', init, 'force-at-point wrench literal', ok, '; '.join(msgs) or 'ok', line=ev[3])
        if not found:
            raise AnalysisError('R12.3: the 3-vector branch of Wrench.__init__ was not recognised')
        for meth, lo, hi in (('getMoment', 0, 3), ('getForce', 3, 6)):
            if self.wrench.methods.get(meth) is None:
                raise AnalysisError('anchor vanished: Wrench.' + meth)
            from .common_ops import flat_method
            from ..engine.model import const_value
            fi = flat_method(self.wrench, meth)           # a shared block getter read in place
            rets = [n for n in walk_own(fi.node) if isinstance(n, ast.Return)]
            il_g = Inliner(fi)
            ok = False
            for r in rets:
                for sub in ast.walk(il_g.expand(r.value) if r.value is not None else r):
                    # a row block named at module level (`_ROWS = slice(0, 3)`) is that slice
                    if isinstance(sub, ast.Subscript) and src(sub.value) == 'self.data' and isinstance(sub.slice, ast.Name):
                        nm_ = sub.slice.id
                        for top_ in fi.module.tree.body:
                            if isinstance(top_, ast.Assign) and len(top_.targets) == 1 and isinstance(top_.targets[0], ast.Name) and top_.targets[0].id == nm_ \
                                    and isinstance(top_.value, ast.Call) and src(top_.value.func) == 'slice' and len(top_.value.args) == 2:
                                sub = ast.Subscript(value=sub.value, slice=ast.Slice(lower=top_.value.args[0], upper=top_.value.args[1], step=None), ctx=ast.Load())
                    if isinstance(sub, ast.Subscript) and src(sub.value) == 'self.data' and isinstance(sub.slice, ast.Slice):
                        try:
                            ok = (const_value(sub.slice.lower) if sub.slice.lower is not None else 0, const_value(sub.slice.upper)) == (lo, hi)
                        except (AttributeError, ValueError):
                            ok = False
            rep.ob('R12.3', fi, 'returns self.data[%d:%d]' % (lo, hi), ok, '%s does not read rows %d:%d of the payload' % (meth, lo, hi))
        mk = self.model.func(FSR, 'makeWrench')
        rets = sorted((n for n in walk_own(mk.node) if isinstance(n, ast.Return)), key=lambda n: n.lineno)
        first = rets[0] if rets else None     # statements after the first top-level return are dead code
        ok, msg = False, 'makeWrench does not return Wrench(force_vector, position, frame)'
        wargs = None
        if first is not None and isinstance(first.value, ast.Call) and src(first.value.func) == 'Wrench':
            # positional or keyword arguments, by the constructor's parameter order
            wp = self.wrench.methods['__init__'].params[1:4]
            wargs = list(first.value.args[:3]) + [None] * (3 - len(first.value.args[:3]))
            for k_ in first.value.keywords:
                if k_.arg in wp:
                    wargs[wp.index(k_.arg)] = k_.value
            if any(a_ is None for a_ in wargs):
                wargs = None
        if wargs is not None:
            first = ast.copy_location(ast.Return(value=ast.Call(func=first.value.func, args=wargs, keywords=[])), first)
        if first is not None and isinstance(first.value, ast.Call) and src(first.value.func) == 'Wrench' and len(first.value.args) == 3:
            assigns = single_assignments(mk.node)
            a0 = Inliner(mk).expand(first.value.args[0])           # every temporary resolved
            while isinstance(a0, ast.Call) and norm_text(a0.func) in ('np.array', 'np.asarray') and a0.args:
                a0 = a0.args[0]
            ppos, pforce, pdir, pframe = mk.params[:4]
            fv_ok = isinstance(a0, ast.BinOp) and isinstance(a0.op, ast.Mult) and {pforce} <= {x.id for x in ast.walk(a0) if isinstance(x, ast.Name)} \
                and pdir in {x.id for x in ast.walk(a0) if isinstance(x, ast.Name)}
            ok = fv_ok and src(first.value.args[1]) == ppos and src(first.value.args[2]) == pframe
            msg = 'Wrench(%s) does not bind (direction*magnitude, position, frame) in that order' % ', '.join(src(a) for a in first.value.args)
        rep.ob('R12.3', mk, 'return Wrench(direction*force, position, frame)', ok, msg)

    # ------------------------------------------------------------------ R12.4
    def r124(self):
        rep = self.rep
        rep.rule('R12.4', 'mixed-frame operations re-express a COPY of the right operand in the LEFT operand\'s frame')
        n = 0
        from ..engine import peval as _pe
        from ..engine.paths import paths_of
        meths = {n_: f_.node for n_, f_ in self.screw.methods.items()}
        for meth in ('__add__', '__sub__', 'cross', 'dot'):
            fi = self.screw.methods.get(meth)
            if fi is None:
                continue
            other = fi.params[1]
            # every control path of the operator (private helpers inlined) for a Screw right operand: which object's payload is
            # combined with self.data, under which frame facts, and which frame labels the result
            flat = _pe.flatten(meths, fi.node, depth=2, stop=('changeFrame', 'copy'), impure=True)
            ps = paths_of(flat, fi.params, consts={'isinstance(%s,Screw)' % other: True})
            eq_texts = ('%s.frame_applied==self.frame_applied' % other, 'self.frame_applied==%s.frame_applied' % other)
            ne_texts = ('%s.frame_applied!=self.frame_applied' % other, 'self.frame_applied!=%s.frame_applied' % other)
            raw_unguarded, mutated, wrong_target, strange, labels, reconciled, guarded = [], [], [], [], [], 0, 0
            for pth in ps:
                if pth.ret is None or pth.ret == '<none>':
                    continue
                try:
                    rt = ast.parse(pth.ret_src, mode='eval').body
                except SyntaxError:
                    continue
                same_frames = any(pth.facts.get(t) is True for t in eq_texts) or any(pth.facts.get(t) is False for t in ne_texts)
                for x in ast.walk(rt):
                    if not (isinstance(x, ast.Attribute) and x.attr == 'data' and other in {m.id for m in ast.walk(x.value) if isinstance(m, ast.Name)}):
                        continue
                    holder = norm_text(x.value)
                    if holder == other:
                        if same_frames:
                            guarded += 1
                        else:
                            raw_unguarded.append(pth.ret_line)
                    elif holder == '%s.copy().changeFrame(self.frame_applied)' % other:
                        reconciled += 1
                    elif holder == '%s.changeFrame(self.frame_applied)' % other:
                        mutated.append(pth.ret_line)
                    elif holder.startswith('%s.copy().changeFrame(' % other) or holder.startswith('%s.changeFrame(' % other):
                        wrong_target.append((pth.ret_line, holder))
                    else:
                        strange.append(holder)
                if isinstance(rt, ast.Call) and isinstance(rt.func, ast.Name) and rt.func.id in ('Screw', 'Wrench') and len(rt.args) >= 2 \
                        and any(isinstance(x, ast.Attribute) and x.attr == 'data' for x in ast.walk(rt.args[0])) and other in pth.ret:
                    labels.append((norm_text(rt.args[1]), pth.ret_line))
            n += reconciled + guarded
            rep.ob('R12.4', fi, '%s: payload shapes recognised' % meth, not strange,
                   'right operand payload read through an unrecognised expression: %s' % strange[:2], shape=True)
            rep.ob('R12.4', fi, '%s: the right operand is converted as a copy' % meth, not mutated,
                   'changeFrame is applied to %s itself (operand mutated)' % other, line=mutated[0] if mutated else None)
            rep.ob('R12.4', fi, '%s: the right operand is converted into the left operand\'s frame' % meth, not wrong_target,
                   'right operand converted by %s, not into self.frame_applied' % (wrong_target[0][1] if wrong_target else ''),
                   line=wrong_target[0][0] if wrong_target else None)
            rep.ob('R12.4', fi, '%s: operands in different frames are reconciled through changeFrame' % meth, not raw_unguarded,
                   'on a path where the frames may differ the payload `%s.data` is combined directly: payloads of screws in different frames are '
                   'combined without frame reconciliation (Wrench inherits %s and changes frame with the dual rule, so no inline rule is right '
                   'for both)' % (other, meth), line=raw_unguarded[0] if raw_unguarded else None)
            rep.ob('R12.4', fi, '%s: a converting path exists' % meth, reconciled > 0 or bool(mutated) or bool(wrong_target) or bool(raw_unguarded),
                   'no path of %s re-expresses the right operand: payloads of screws in different frames are combined without frame reconciliation' % meth)
            for fr, ln in labels:
                rep.ob('R12.4', fi, '%s: result frame' % meth, fr in ('self.frame_applied', 'self.frame_applied.copy()'),
                       'result is labelled with frame %s, not the left operand\'s' % fr, line=ln)
        rep.floor('R12.4', 'frame reconciliation sites', n, 6)
        self.r126(meths)
        self.r127(meths)

    def r127(self, meths):
        """Operator dispatch.  For `a - b` Python calls type(b).__rsub__(b, a) BEFORE type(a).__sub__(a, b) when type(b) is a proper
        subclass of type(a) that overrides the reflected method.  The Screw-operand branch of Screw.__radd__ / __rsub__ combines the raw
        payloads (it cannot be reached as long as no subclass overrides these methods: Screw.__add__ / __sub__ handle every Screw first).
        Once Wrench or Twist defines its own __radd__ / __rsub__, `Screw - Wrench` is answered by that branch: it must then reconcile
        the frames like the forward operator does - the right operand (self) re-expressed in the LEFT operand's (other's) frame."""
        from ..engine import peval as _pe
        from ..engine.paths import paths_of
        rep = self.rep
        rep.rule('R12.7', 'subclass-first dispatch: a reflected + / - that a subclass of Screw overrides answers `Screw <op> Subclass`; its '
                          'Screw-operand branch must reconcile the frames (right operand into the left operand\'s frame)')
        subs = self.model.subclasses(self.screw)
        for op in ('add', 'sub'):
            rname = '__r%s__' % op
            over = [c for c in subs if rname in c.methods and c.methods[rname].cls is c]
            base = self.screw.methods.get(rname)
            if not over:
                rep.ob('R12.7', base if base is not None else self.screw.module.relpath, '%s: not overridden below Screw' % rname, True,
                       'no subclass of Screw defines %s: for two screws the forward operator always answers' % rname, qualname='Screw')
                continue
            for c in over:
                targets = [c.methods[rname]]
                own = c.methods[rname]
                # does the override hand a Screw left operand on to the inherited implementation?
                delegates = any(e[0] == 'call' and e[1].replace(' ', '') == 'super().' + rname
                                for p_ in paths_of(own.node, own.params, consts={'isinstance(%s,Screw)' % own.params[1]: True}) for e in p_.events)
                if base is not None and delegates:
                    targets.append(base)
                raw = []
                for fi in targets:
                    other = fi.params[1]
                    flat = _pe.flatten(meths, fi.node, depth=2, stop=('changeFrame', 'copy'), impure=True)
                    ps = paths_of(flat, fi.params, consts={'isinstance(%s,Screw)' % other: True})
                    eq_texts = ('%s.frame_applied==self.frame_applied' % other, 'self.frame_applied==%s.frame_applied' % other)
                    ne_texts = ('%s.frame_applied!=self.frame_applied' % other, 'self.frame_applied!=%s.frame_applied' % other)
                    for pth in ps:
                        if pth.ret is None or pth.ret == '<none>' or pth.ret_src is None:
                            continue
                        try:
                            rt = ast.parse(pth.ret_src, mode='eval').body
                        except SyntaxError:
                            continue
                        same = any(pth.facts.get(t) is True for t in eq_texts) or any(pth.facts.get(t) is False for t in ne_texts)
                        reads_other = any(isinstance(x, ast.Attribute) and x.attr == 'data' and norm_text(x.value) == other for x in ast.walk(rt))
                        reads_self_raw = any(isinstance(x, ast.Attribute) and x.attr == 'data' and norm_text(x.value) == 'self' for x in ast.walk(rt))
                        if reads_other and reads_self_raw and not same:
                            raw.append((fi, pth.ret_line))
                rep.ob('R12.7', c.methods[rname], '%s.%s: Screw left operands are answered with frames reconciled' % (c.name, rname), not raw,
                       ('%s overrides %s, so `Screw %s %s` is dispatched to it before Screw.__%s__ (subclass-first rule); its Screw-operand branch '
                        '(%s line %s) combines `%s.data` and `self.data` directly: operands in different frames are combined without re-expressing '
                        'the right operand in the left operand\'s frame, and the result carries the wrong frame'
                        % (c.name, rname, '+' if op == 'add' else '-', c.name, op, raw[0][0].qualname, raw[0][1], raw[0][0].params[1])) if raw else 'reconciled',
                       line=raw[0][1] if raw and raw[0][0] is c.methods[rname] else None)

    def r126(self, meths):
        """A 6-element array operand is combined as a 6x1 column: on the path taken for `isinstance(other, np.ndarray)` with
        len(other) == 6 the payload is combined with other.reshape((6, 1)) - the raw (6,) array would broadcast against the 6x1 payload
        into a 6x6 matrix, and (a + b) - b = a fails for array b."""
        from ..engine import peval as _pe
        from ..engine.paths import paths_of
        rep = self.rep
        rep.rule('R12.6', '6-array operands of + / - (either side) are shaped as a column before they meet the 6x1 payload')
        n = 0
        for meth in ('__add__', '__sub__', '__rsub__'):
            fi = self.screw.methods.get(meth)
            if fi is None:
                continue
            other = fi.params[1]
            flat = _pe.flatten(meths, fi.node, depth=2, stop=('changeFrame', 'copy'), impure=True)
            ps = paths_of(flat, fi.params, consts={'isinstance(%s,Screw)' % other: False, 'isinstance(%s,np.ndarray)' % other: True,
                                                   'isinstance(%s,numpy.ndarray)' % other: True, 'len(%s)' % other: 6})
            col = ('%s.reshape((6,1))' % other, '%s.reshape(6,1)' % other, 'np.reshape(%s,(6,1))' % other, '%s[:,None]' % other,
                   '%s.reshape((-1,1))' % other, '%s.reshape(-1,1)' % other)
            for pth in ps:
                if pth.ret in (None, '<none>'):
                    continue
                try:
                    rt = ast.parse(pth.ret_src, mode='eval').body
                except SyntaxError:
                    continue
                uses = [x for x in ast.walk(rt) if isinstance(x, ast.Name) and x.id == other]
                if not uses:
                    continue
                n += 1
                # every occurrence of the operand inside the returned expression is inside one of the column forms
                txt = norm_text(rt)
                rest = txt
                for c_ in col:
                    rest = rest.replace(c_, 'COL__')
                raw = other in {m.id for m in ast.walk(ast.parse(rest, mode='eval')) if isinstance(m, ast.Name)} if _parses(rest) else True
                wrapped = isinstance(rt, ast.Call) and isinstance(rt.func, ast.Name) and rt.func.id in ('Screw', 'Wrench')
                rep.ob('R12.6', fi, '%s: 6-array operand combined as a column, result wrapped' % meth, (not raw) and wrapped,
                       'for a 6-element array operand %s returns %s: the array is %s' % (
                           meth, txt[:90], 'combined without .reshape((6, 1)) (6x1 against (6,) broadcasts to 6x6)' if raw else 'not wrapped back into a Screw'),
                       line=pth.ret_line)
        rep.floor('R12.6', 'array-operand return paths', n, 3)
        wc = self.wrench.methods.get('_wrenchConverter')
        if wc is not None:
            for r in [x for x in walk_own(wc.node) if isinstance(x, ast.Return) and isinstance(x.value, ast.Call) and src(x.value.func) == 'Wrench']:
                # Wrench(screw, frame): second positional parameter of Wrench.__init__ is position_applied - frame comes from the screw
                a0_ = r.value.args[0] if r.value.args else next((k_.value for k_ in r.value.keywords if k_.arg == 'force'), None)
                rep.ob('R12.4', wc, src(r.value), a0_ is not None and src(a0_) == wc.params[1],
                       'converter does not wrap the computed screw', line=r.lineno)


    def r128(self):
        """Screw / Wrench short-circuit on `frame == frame` (changeFrame returns self; + / - add raw payloads).  The equality is tm.__eq__:
        when it calls two frames equal that differ by eps, the frame change is skipped and the result is off by about eps (relative), so its
        closeness threshold must not exceed the property's bound of 1e-8 - absolute, with no relative part above it."""
        from ..engine.paths import paths_of
        rep = self.rep
        BOUND = 1e-8
        rep.rule('R12.8', 'the frame equality behind the short circuits of changeFrame / + / - (tm.__eq__) calls two frames equal only when they agree '
                          'to the property\'s bound: closeness threshold <= 1e-8 absolute, relative part <= 1e-8')
        sites = []
        for c in (self.screw, self.wrench):
            for fi in c.methods.values():
                for n in walk_own(fi.node):
                    if isinstance(n, ast.Compare) and len(n.ops) == 1 and isinstance(n.ops[0], (ast.Eq, ast.NotEq)) \
                            and 'frame' in norm_text(n.left) and 'frame' in norm_text(n.comparators[0]):
                        sites.append((fi, n.lineno))
        rep.count('R12.8 frame-equality short circuits in Screw / Wrench', len(sites))
        if not sites:
            rep.note('R12.8: no frame-equality short circuit left in Screw / Wrench: the threshold of tm.__eq__ is not relied on')
            return
        tmc = self.model.cls('basic_robotics.general.faser_transform', 'tm')
        eq = tmc.methods.get('__eq__')
        if eq is None:
            rep.ob('R12.8', sites[0][0], 'tm defines __eq__', False, 'class tm has no __eq__: `frame == frame` is object identity, and equal frames held in two '
                   'objects are re-expressed through log / exp instead of being recognised (harmless), but a NotEq site would misfire', shape=True)
            return
        other = eq.params[1]
        ps = paths_of(eq.node, eq.params, consts={'isinstance(%s,tm)' % other: True, 'type(%s)==tm' % other: True, 'type(%s)istm' % other: True})
        n = 0
        for pth in ps:
            if pth.ret in (None, '<none>'):
                continue
            try:
                rt = ast.parse(pth.ret_src, mode='eval').body
            except SyntaxError:
                rep.ob('R12.8', eq, 'closeness form of tm.__eq__', False, 'returned expression not parsed: %s' % pth.ret[:80], shape=True, line=pth.ret_line)
                continue
            if isinstance(rt, ast.Constant) and rt.value is False:
                continue
            form = _close_form(rt)
            n += 1
            if form is None:
                rep.ob('R12.8', eq, 'closeness form of tm.__eq__', False, 'the returned comparison %s is not one of: allclose / isclose(...).all() with constant '
                       'tolerances, exact array equality, max-abs / norm of the difference against a constant' % norm_text(rt)[:90], shape=True, line=pth.ret_line)
                continue
            atol, rtol = form
            ok = atol <= BOUND * (1 + 1e-9) and rtol <= BOUND * (1 + 1e-9)
            rep.ob('R12.8', eq, 'tm.__eq__ threshold within the 1e-8 bound', ok,
                   'tm.__eq__ calls two frames equal when they differ by up to atol=%g (+ rtol=%g relative): %d short circuit(s) in Screw / Wrench (first: %s line %d) then '
                   'skip the frame change for two DIFFERENT frames, leaving coordinates off by up to that amount - above the 1e-8 agreement the property requires'
                   % (atol, rtol, len(sites), sites[0][0].qualname, sites[0][1]), line=pth.ret_line)
        rep.floor('R12.8', 'comparison returns of tm.__eq__', n, 1)


    def r129(self):
        """Wrench(payload, position_applied, frame_applied): a Screw payload brings its own frame, a raw payload gets the IDENTITY frame unless
        the third slot is given.  Inside class Wrench every payload comes from self (self.data, results of the inherited operators), so a
        raw payload wrapped without `self.frame_applied` in the frame slot yields an object whose recorded frame is not the frame its
        coordinates are expressed in."""
        from ..engine.paths import paths_of
        rep = self.rep
        rep.rule('R12.9', 'Wrench(...) calls inside class Wrench: the payload is known to be a Screw (its frame is adopted) or the frame slot carries '
                          'self.frame_applied - on every path')
        n = 0
        for name, fi in sorted(self.wrench.methods.items()):
            try:
                ps = paths_of(fi.node, fi.params)
            except RuntimeError:
                continue
            seen = set()
            for pth in ps:
                for ev in pth.calls(lambda t: t == 'Wrench'):
                    args = list(ev[2])
                    if not args:
                        continue
                    pos = [a for a in args if '=' not in a.split('(')[0]]
                    kws = {a.split('=', 1)[0]: a.split('=', 1)[1] for a in args if '=' in a.split('(')[0]}
                    a0 = pos[0] if pos else kws.get('force')
                    if a0 is None:
                        continue
                    if len(pos) < 2 and 'position_applied' in kws:
                        pos = pos[:1] + [kws['position_applied']]
                    is_screw = a0.startswith('super().') or a0.startswith('Screw.__') or a0.startswith('Screw(') or a0.startswith('Wrench(') \
                        or any(v and k.replace(' ', '') in ('isinstance(%s,Screw)' % a0, 'isinstance(%s,Wrench)' % a0, 'isinstance(%s,(Screw,Wrench))' % a0)
                               for k, v in pth.facts.items())
                    frame = kws.get('frame_applied', pos[2] if len(pos) >= 3 else None)
                    ok = is_screw or (frame is not None and 'frame_applied' in frame)
                    key = (ev[3], ok)
                    if key in seen:
                        continue
                    seen.add(key)
                    n += 1
                    rep.ob('R12.9', fi, '%s: Wrench(%s)' % (name, ', '.join(args)[:60]), ok,
                           'on a path where `%s` is not known to be a Screw, %s wraps it as Wrench(%s): the frame slot (third argument) is %s, so the result records '
                           'the identity frame while its coordinates are still expressed in self.frame_applied - every later operation with an object in the true '
                           'frame applies a spurious frame change ((s + w) - w != s for a wrench in a non-identity frame)'
                           % (a0[:40], name, ', '.join(args)[:60], 'missing' if frame is None else frame[:30]), line=ev[3])
        rep.floor('R12.9', 'Wrench(...) calls in class Wrench', n, 2)


def _num(e):
    try:
        v = const_value(e)
    except Exception:
        return None
    return float(v) if isinstance(v, (int, float)) and not isinstance(v, bool) else None


def _close_form(e):
    """(atol, rtol) of a closeness test between two arrays, or None"""
    if isinstance(e, ast.Call) and norm_text(e.func) == 'bool' and len(e.args) == 1:
        return _close_form(e.args[0])
    if isinstance(e, ast.BoolOp) and isinstance(e.op, ast.And):
        fs = [_close_form(v) for v in e.values]
        if any(f is None for f in fs):
            return None
        return min(fs, key=lambda f: max(f))           # a conjunction is at least as strict as its strictest member
    def ac(c):
        fn = norm_text(c.func)
        if fn in ('np.allclose', 'numpy.allclose', 'np.isclose', 'numpy.isclose') and len(c.args) >= 2:
            rtol, atol = 1e-5, 1e-8
            if len(c.args) >= 3:
                rtol = _num(c.args[2])
            if len(c.args) >= 4:
                atol = _num(c.args[3])
            for k in c.keywords:
                if k.arg == 'rtol':
                    rtol = _num(k.value)
                elif k.arg == 'atol':
                    atol = _num(k.value)
            if rtol is None or atol is None:
                return None
            return (atol, rtol), fn.endswith('allclose')
        return None
    if isinstance(e, ast.Call):
        fn = norm_text(e.func)
        r = ac(e)
        if r is not None and r[1]:
            return r[0]
        if fn in ('np.array_equal', 'numpy.array_equal') and len(e.args) == 2:
            return (0.0, 0.0)
        inner = None
        if fn in ('np.all', 'numpy.all') and len(e.args) == 1:
            inner = e.args[0]
        elif isinstance(e.func, ast.Attribute) and e.func.attr == 'all' and not e.args:
            inner = e.func.value
        if inner is not None:
            if isinstance(inner, ast.Call):
                r = ac(inner)
                if r is not None and not r[1]:
                    return r[0]
            if isinstance(inner, ast.Compare) and len(inner.ops) == 1 and isinstance(inner.ops[0], ast.Eq):
                return (0.0, 0.0)
            if isinstance(inner, ast.Compare) and len(inner.ops) == 1 and isinstance(inner.ops[0], (ast.Lt, ast.LtE)):
                c = _num(inner.comparators[0])
                if c is not None and 'abs' in norm_text(inner.left):
                    return (c, 0.0)
        return None
    if isinstance(e, ast.Compare) and len(e.ops) == 1:
        l, r_, op = e.left, e.comparators[0], e.ops[0]
        if isinstance(op, (ast.Gt, ast.GtE)):
            l, r_, op = r_, l, ast.Lt()
        if isinstance(op, (ast.Lt, ast.LtE)):
            c = _num(r_)
            t = norm_text(l)
            if c is not None and ('abs' in t or 'norm' in t) and '-' in t:
                return (c, 0.0)
    return None

def _parses(text):
    try:
        ast.parse(text, mode='eval')
        return True
    except SyntaxError:
        return False


def r1210(model, rep):
    """fsr.transformWrenchFrame(w, A, B): the frame change as a function.  (a) The source wrench keeps its data and its recorded frame
    (a second transformWrenchFrame(w, A, C) on the same object must still start from frame-A data: A->C equals A->B->C only then);
    decided with the may-write summaries of the effects engine, metadata included.  (b) Every returned value is the result of
    <copy of w>.changeFrame(<new frame>, <old frame>) with the helper's own parameters in that order."""
    from ..engine.effects import Effects
    from ..engine.paths import paths_of
    rep.rule('R12.10', 'fsr.transformWrenchFrame re-expresses a copy: the source wrench keeps data and recorded frame, and the copy is '
                       'changed with changeFrame(new frame, old frame)')
    fi = model.find_func('basic_robotics.general.faser_general', 'transformWrenchFrame')
    if fi is None:
        raise AnalysisError('anchor vanished: faser_general.transformWrenchFrame')
    if len(fi.params) != 3:
        rep.ob('R12.10', fi, 'signature (wrench, old frame, new frame)', False, 'parameters %s not recognised' % fi.params, shape=True)
        return
    w, old, new = fi.params
    s = Effects(model).summary(fi)
    sites = [(node, how, k) for (pp, k), ss in s.writes.items() if pp == w for (node, how) in ss]
    if sites:
        node, how, k = sites[0]
        rep.ob('R12.10', fi, 'source wrench `%s` unchanged' % w, False,
               'the source wrench is re-expressed in place (%s: %s): it no longer holds frame-%s data, so a second change of the same wrench, '
               'or its pairing with a twist, is taken in the wrong frame' % ('recorded frame' if k == 'meta' else 'data', how, old), line=node.lineno)
    else:
        rep.ob('R12.10', fi, 'source wrench `%s` unchanged' % w, True, 'no write to data or recorded frame')
    n = 0
    for pth in paths_of(fi.node, fi.params):
        if pth.ret is None:
            continue
        n += 1
        cf = [e for e in pth.events if e[0] == 'call' and e[1].endswith('.changeFrame')]
        if len(cf) != 1:
            rep.ob('R12.10', fi, 'one changeFrame per returning path', False,
                   '%d changeFrame calls on the path returning %s' % (len(cf), pth.ret[:80]), shape=not cf, line=pth.ret_line)
            continue
        got = {}
        for nm_, a in zip(('new_frame', 'old_frame'), [a for a in cf[0][2] if '=' not in a]):
            got[nm_] = a
        for a in cf[0][2]:
            if '=' in a:
                got[a.split('=', 1)[0]] = a.split('=', 1)[1]
        ok = got.get('new_frame') == new and got.get('old_frame') == old
        rep.ob('R12.10', fi, 'changeFrame(new frame, old frame)', ok,
               'changeFrame receives new_frame=%s, old_frame=%s; the helper\'s frames are old=%s, new=%s' % (got.get('new_frame'), got.get('old_frame'), old, new),
               line=cf[0][3])
        recv = cf[0][1][:-len('.changeFrame')]
        returned = pth.ret
        ok2 = returned.startswith(recv) or returned == recv
        rep.ob('R12.10', fi, 'the re-expressed wrench is what is returned', ok2,
               'changeFrame is applied to %s but %s is returned' % (recv, returned[:80]), line=pth.ret_line)
    rep.floor('R12.10', 'returns of transformWrenchFrame', n, 1)


def check(model, rep):
    rep.extra['explanation'] = (
        'Structural rules on the Screw/Wrench classes: operator/dunder agreement on every return branch, exact shape of '
        'the two changeFrame formulas (argument order of the frame transition and transposition), path-sensitive '
        'ordering of frame read / record / data rewrite, the force-at-a-point literal, and copy-before-convert in '
        'mixed-frame arithmetic.')
    rep.assumptions.append('globalToLocal(a, b) = inv(a)*b and adjoint() are as decided under C01/C04')
    ck = Checker(model, rep)
    ck.r121()
    ck.r122()
    ck.r123()
    ck.r124()
    ck.r128()
    ck.r129()
    r1210(model, rep)
    from .c02 import closure_obligations
    tmcls = model.cls('basic_robotics.general.faser_transform', 'tm')
    helpers = [f for f in model.funcs_in('basic_robotics.general.basic_helpers') if f.name in ('globalToLocal', 'localToGlobal')]
    n = closure_obligations(model, rep, 'R12.5', [tmcls.methods['adjoint'], tmcls.methods['TAAtoTM'], tmcls.methods['TMtoTAA']] + helpers,
                            'frame changes of screws / wrenches (Adjoint of globalToLocal)')
    rep.floor('R12.5', 'shared primitives under frame changes', len(n), 6)
