"""Pose words: rigid-body pose expressions evaluated in the free group over named poses (no numbers, no execution).

A pose expression built from
    A @ B                         composition
    A.inv()                       inverse
    fsr.localToGlobal(A, B)       A * B            (kernel decided under C04, R04.4)
    fsr.globalToLocal(A, B)       inv(A) * B       (kernel decided under C04, R04.4)
    A.copy(), tm(A)               A
    self.<getter>()               the getter's returned expression, when the getter is `return <expr>` only
    self.<field>                  the word the field holds at that point of the path (fields are versioned by the walk)
is reduced to a word, a tuple of (atom, +1 | -1) with adjacent inverse pairs cancelled.  Two expressions denote the same pose for every
value of the atoms iff their words are equal (free group: no relations between independent poses are assumed), so comparing words
decides "composed on the right side, in the right order" exactly and never depends on how the expression was spelled.

`walk(cls, fi, watch)` executes a method body symbolically over all its branches (If forks; loops / try / with that touch a pose field
make the path 'unknown') and records, for every call whose callee text is in `watch`, the words of its arguments and of the pose fields
at the moment of the call.
"""
import ast

from ..engine.inline import norm_text


def reduce_word(w):
    out = []
    for a, s in w:
        if out and out[-1][0] == a and out[-1][1] == -s:
            out.pop()
        else:
            out.append((a, s))
    return tuple(out)


def inv_word(w):
    return tuple((a, -s) for a, s in reversed(w))


def show(w):
    if w is None:
        return '<not a pose word>'
    if not w:
        return 'identity'
    return ' * '.join(a if s > 0 else 'inv(%s)' % a for a, s in w)


class PoseEval:
    def __init__(self, cls, depth=3):
        self.cls = cls
        self.depth = depth

    def getter_expr(self, name):
        fi = self.cls.methods.get(name) if self.cls is not None else None
        if fi is None or len(fi.params) != 1:
            return None
        body = [s for s in fi.node.body if not (isinstance(s, ast.Expr) and isinstance(s.value, ast.Constant))]
        if not body or not isinstance(body[-1], ast.Return) or body[-1].value is None:
            return None
        # straight-line getters only: locals bound once before the return are read in place
        binds = {}
        for s in body[:-1]:
            if isinstance(s, ast.Assign) and len(s.targets) == 1 and isinstance(s.targets[0], ast.Name) and s.targets[0].id not in binds:
                binds[s.targets[0].id] = s.value
            else:
                return None
        import copy

        class T(ast.NodeTransformer):
            def visit_Name(s_, n):
                if isinstance(n.ctx, ast.Load) and n.id in binds:
                    return s_.visit(copy.deepcopy(binds[n.id]))
                return n
        return T().visit(copy.deepcopy(body[-1].value))

    def word(self, e, env, d=0):
        """env: {'name' | 'self.field': word}.  -> word or None"""
        if isinstance(e, ast.Name):
            return env.get(e.id, ((e.id, 1),))
        if isinstance(e, ast.Attribute) and isinstance(e.value, ast.Name) and e.value.id == 'self':
            k = 'self.' + e.attr
            return env.get(k, ((k + '@entry', 1),))
        if isinstance(e, ast.Call):
            fn = norm_text(e.func)
            if isinstance(e.func, ast.Attribute) and not e.keywords:
                if e.func.attr == 'copy' and not e.args:
                    return self.word(e.func.value, env, d)
                if e.func.attr == 'inv' and not e.args:
                    w = self.word(e.func.value, env, d)
                    return None if w is None else inv_word(w)
                if isinstance(e.func.value, ast.Name) and e.func.value.id == 'self' and not e.args and d < self.depth:
                    g = self.getter_expr(e.func.attr)
                    if g is not None:
                        return self.word(g, {k: v for k, v in env.items() if k.startswith('self.')}, d + 1)
                    return None
            if fn == 'tm' and len(e.args) == 1 and not e.keywords:
                return self.word(e.args[0], env, d)
            last = fn.split('.')[-1]
            if last in ('localToGlobal', 'globalToLocal') and len(e.args) == 2 and not e.keywords:
                a, b = self.word(e.args[0], env, d), self.word(e.args[1], env, d)
                if a is None or b is None:
                    return None
                return reduce_word((a if last == 'localToGlobal' else inv_word(a)) + b)
            return None
        if isinstance(e, ast.BinOp) and isinstance(e.op, ast.MatMult):
            a, b = self.word(e.left, env, d), self.word(e.right, env, d)
            if a is None or b is None:
                return None
            return reduce_word(a + b)
        return None


def _touches(stmt, names):
    for n in ast.walk(stmt):
        if isinstance(n, ast.Attribute) and isinstance(n.value, ast.Name) and n.value.id == 'self' and ('self.' + n.attr) in names:
            return True
        if isinstance(n, ast.Call) and norm_text(n.func) in names:
            return True
    return False


def walk(cls, fi, watch, fields, init_env=None, max_paths=64):
    """-> list of paths; a path is {'calls': [(callee, {param or index: word | None}, {field: word}, line)], 'unknown': [line...]}
    `fields`: the 'self.x' pose fields followed; `watch`: callee texts recorded."""
    pe = PoseEval(cls)
    relevant = set(fields) | set(watch)
    paths = []

    def run(stmts, env, calls, unknown):
        """-> list of (env, calls, unknown, done)"""
        states = [(env, calls, unknown, False)]
        for s in stmts:
            nxt = []
            for env_, calls_, unk_, done in states:
                if done:
                    nxt.append((env_, calls_, unk_, done))
                    continue
                if isinstance(s, (ast.FunctionDef, ast.AsyncFunctionDef, ast.ClassDef)):
                    nxt.append((env_, calls_, unk_, False))
                    continue
                if isinstance(s, ast.If):
                    c2 = record(s.test, env_, calls_)
                    for br in (s.body, s.orelse):
                        nxt.extend(run(br, dict(env_), list(c2), list(unk_)))
                    continue
                if isinstance(s, ast.Return):
                    c2 = record(s.value, env_, calls_) if s.value is not None else calls_
                    nxt.append((env_, c2, unk_, True))
                    continue
                if isinstance(s, ast.Raise):
                    continue                                   # the path ends without a result
                if isinstance(s, (ast.For, ast.While, ast.Try, ast.With)):
                    if _touches(s, relevant):
                        nxt.append((env_, calls_, unk_ + [s.lineno], False))
                    else:
                        nxt.append((env_, calls_, unk_, False))
                    continue
                if isinstance(s, ast.Assign):
                    c2 = record(s.value, env_, calls_)
                    e2 = dict(env_)
                    for t in s.targets:
                        if isinstance(t, ast.Name):
                            w = pe.word(s.value, env_)
                            e2[t.id] = w if w is not None else (('<%s@%d>' % (t.id, s.lineno), 1),)
                        elif isinstance(t, ast.Attribute) and isinstance(t.value, ast.Name) and t.value.id == 'self':
                            w = pe.word(s.value, env_)
                            e2['self.' + t.attr] = w if w is not None else (('<self.%s@%d>' % (t.attr, s.lineno), 1),)
                        elif isinstance(t, (ast.Tuple, ast.List)):
                            for x in t.elts:
                                if isinstance(x, ast.Name):
                                    e2[x.id] = (('<%s@%d>' % (x.id, s.lineno), 1),)
                                elif isinstance(x, ast.Attribute) and isinstance(x.value, ast.Name) and x.value.id == 'self':
                                    e2['self.' + x.attr] = (('<self.%s@%d>' % (x.attr, s.lineno), 1),)
                    nxt.append((e2, c2, unk_, False))
                    continue
                if isinstance(s, ast.AugAssign):
                    e2 = dict(env_)
                    t = s.target
                    k = t.id if isinstance(t, ast.Name) else ('self.' + t.attr if isinstance(t, ast.Attribute) and isinstance(t.value, ast.Name)
                                                              and t.value.id == 'self' else None)
                    if k is not None:
                        w = None
                        if isinstance(s.op, ast.MatMult):
                            a, b = pe.word(t if isinstance(t, ast.Attribute) else ast.Name(id=k, ctx=ast.Load()), env_), pe.word(s.value, env_)
                            w = reduce_word(a + b) if a is not None and b is not None else None
                        e2[k] = w if w is not None else (('<%s@%d>' % (k, s.lineno), 1),)
                    nxt.append((e2, record(s.value, env_, calls_), unk_, False))
                    continue
                if isinstance(s, ast.Expr):
                    nxt.append((env_, record(s.value, env_, calls_), unk_, False))
                    continue
                nxt.append((env_, calls_, unk_, False))
            states = nxt
            if len(states) > max_paths:
                raise OverflowError('too many paths in %s' % fi.qualname)
        return states

    def record(expr, env_, calls_):
        out = list(calls_)
        for c in sorted((x for x in ast.walk(expr) if isinstance(x, ast.Call)), key=lambda x: (x.end_lineno or x.lineno, x.end_col_offset or 0)):
            fn = norm_text(c.func)
            if fn in watch:
                # a literal None is "argument not given" (also where a keyword call was put into positional form with the default filled in)
                args = {i: pe.word(a, env_) for i, a in enumerate(c.args) if not (isinstance(a, ast.Constant) and a.value is None)}
                args.update({k.arg: pe.word(k.value, env_) for k in c.keywords if k.arg and not (isinstance(k.value, ast.Constant) and k.value.value is None)})
                snap = {f: pe.word(ast.Attribute(value=ast.Name(id='self', ctx=ast.Load()), attr=f[5:], ctx=ast.Load()), env_) for f in fields}
                out.append((fn, args, snap, c.lineno))
        return out

    env0 = dict(init_env or {})
    for env_, calls_, unk_, _done in run(fi.node.body, env0, [], []):
        paths.append({'calls': calls_, 'unknown': unk_, 'env': env_})
    return paths
