"""C04 - transform algebra is the SE(3) group; every constructor form means the same pose.

Decided statically:
  R04.1 input coverage of the constructor forms (non-interference): in every dispatch branch of tm.__init__ /
        from3DOF / from6DOF / from7DOF the constant index paths read from the initializer are exactly the
        index set of that form, each feeding the slot of the same position (an element that is never read
        cannot influence the pose, so two different descriptions would collapse).
  R04.2 operator <-> dunder agreement of tm: `@` is tm(self.TM @ other.TM) (mirrored for the reflected form),
        the other arithmetic dunders apply their own operator to (self, other) - documented exceptions listed;
        inv() wraps TransInv(self.TM); localToGlobal / globalToLocal hand (reference, rel) to the kernels in
        parameter order.
  R04.3 quaternion bridge: getQuat / setQuat use from_matrix().as_quat() / from_quat().as_matrix() with the same
        (default) component convention on the same 3x3 block, and setQuat re-derives the six-vector.
  R04.4 frame-conversion kernels: LocalToGlobal = (p_ref + R_ref p_rel, vee(log(R_ref R_rel))),
        GlobalToLocal = (R_ref^T (p_rel - p_ref), vee(log(R_ref^T R_rel))) - i.e. ref*rel and inv(ref)*rel.
Not decided: associativity, inverse correctness, mutual inverseness, cross-form equality to 5e-6 (numerical).
"""
import ast

from ..engine.model import AnalysisError, src, walk_own
from ..engine.inline import Inliner, norm_text
from ..engine import tv
from .common_ops import check_dunders
from .c06 import returns_of

GEN = 'basic_robotics.general.'
TMM, HELP = GEN + 'faser_transform', GEN + 'basic_helpers'
PORT = 'basic_robotics.modern_robotics_numba.modern_high_performance'
TM_EXC = {
    ('__mul__', 'self.TM @ other_object.TM'): 'tm * tm is documented as matrix composition ("TM * a")',
    ('__rmul__', 'other_object.TM @ self.TM'): 'tm * tm (reflected) is documented as matrix composition',
    ('__mul__', 'self.TM * other_object'): 'tm * ndarray: element-wise product of the matrix (documented fall-through)',
    ('__rmul__', 'other_object * self.TM'): 'ndarray * tm: element-wise product of the matrix (documented fall-through)',
    ('__matmul__', 'self.TM @ other_object'): 'tm @ ndarray: raw matrix product (documented)',
    ('__rmatmul__', 'other_object @ self.TM'): 'ndarray @ tm: raw matrix product (documented)',
    ('__rmatmul__', 'other_object * self.TAA'): 'scalar fall-through of the reflected matmul (not a transform operand; outside the property)',
}


def index_path(e, root):
    """e == root[i][j]... with constant ints -> tuple of ints; root[a:] -> ('from', a); else None"""
    path = []
    while isinstance(e, ast.Subscript):
        sl = e.slice
        if isinstance(sl, ast.Constant) and isinstance(sl.value, int):
            path.append(sl.value)
        elif isinstance(sl, ast.Slice) and sl.upper is None and sl.step is None and isinstance(sl.lower, ast.Constant):
            path.append(('from', sl.lower.value))
        else:
            return None
        e = e.value
    if isinstance(e, ast.Name) and e.id == root:
        return tuple(reversed(path))
    return None


def reads_of(node, root):
    out = []
    for n in ast.walk(node):
        if isinstance(n, ast.Subscript):
            p = index_path(n, root)
            if p is not None:
                # keep only maximal paths (not the inner root[i] of root[i][j])
                out.append((p, n))
    inner = set()
    for p, n in out:
        if isinstance(n.value, ast.Subscript):
            inner.add(id(n.value))
    return [(p, n) for p, n in out if id(n) not in inner]


def slot_literal(value):
    """np.array([e0..e5], ...) or [e0..e5] -> list of element nodes"""
    for n in ast.walk(value):
        if isinstance(n, ast.List) and len(n.elts) in (6,):
            return n.elts
    return None


def expand(e, assigns, depth=0):
    """source of e with single-assignment locals substituted (a name whose definition mentions itself is kept)."""
    class Sub(ast.NodeTransformer):
        def visit_Name(self, n):
            v = assigns.get(n.id)
            if v and len(v) == 1 and depth < 8 and not any(isinstance(x, ast.Name) and x.id == n.id for x in ast.walk(v[0])):
                return ast.parse(expand(v[0], assigns, depth + 1), mode='eval').body
            return n
    import copy
    t = Sub().visit(copy.deepcopy(e))
    return ast.unparse(t)


def norm_txt(s):
    return s.replace(' ', '').replace('.conj()', '').replace('(3,)', '3').replace('((3))', '(3)').replace('((3,1))', '(3,1)')


def flag_branches(if_node, flag):
    """(body when the boolean parameter `flag` is false, body when it is true) of `if <test on flag>: ... else: ...`,
    whichever way round the maintainer wrote the test; None when the test is not a test of the flag alone."""
    t = if_node.test
    neg = False
    while isinstance(t, ast.UnaryOp) and isinstance(t.op, ast.Not):
        t, neg = t.operand, not neg
    truth = None
    if isinstance(t, ast.Name) and t.id == flag:
        truth = True
    elif isinstance(t, ast.Compare) and len(t.ops) == 1 and isinstance(t.left, ast.Name) and t.left.id == flag \
            and isinstance(t.comparators[0], ast.Constant) and isinstance(t.comparators[0].value, bool):
        eq = isinstance(t.ops[0], (ast.Eq, ast.Is))
        ne = isinstance(t.ops[0], (ast.NotEq, ast.IsNot))
        if eq or ne:
            truth = (t.comparators[0].value is True) == eq
    if truth is None:
        return None
    if neg:
        truth = not truth
    # truth: the BODY runs when flag is `truth`
    return (if_node.orelse, if_node.body) if truth else (if_node.body, if_node.orelse)



def payload_fresh(rep, rule, tm, consequence):
    """The arrays a new transform keeps (TM, TAA) share no storage with what the constructor was given: every store of the two fields in the
    constructor forms is a fresh array according to the NumPy view / copy table (sa/engine/alias.py), and the reference-keeping setters sTM /
    sTAA are not handed (a view of) an argument.  -> number of stores examined"""
    from ..engine.alias import may_alias
    n = 0
    for name in ('__init__', 'transformSqueezedCopy', 'from3DOF', 'from6DOF', 'from7DOF'):
        fi = tm.methods.get(name)
        if fi is None:
            continue
        params = set(fi.params[1:])

        def leaf(e):
            if isinstance(e, ast.Name) and e.id in params:
                return {e.id}
            if isinstance(e, ast.Attribute) and isinstance(e.value, ast.Name) and e.value.id in params and e.attr in ('TM', 'TAA'):
                return {e.value.id + '.' + e.attr}
            return None
        env = {}
        for st in walk_own(fi.node):
            if isinstance(st, ast.Assign) and len(st.targets) == 1 and isinstance(st.targets[0], ast.Name) and st.targets[0].id not in params:
                env[st.targets[0].id] = may_alias(st.value, leaf, env)
        for st in walk_own(fi.node):
            if isinstance(st, ast.Assign):
                for t in st.targets:
                    if isinstance(t, ast.Attribute) and isinstance(t.value, ast.Name) and t.value.id == 'self' and t.attr in ('TM', 'TAA'):
                        n += 1
                        al = may_alias(st.value, leaf, env)
                        rep.ob(rule, fi, '%s: self.%s = %s is a fresh array' % (name, t.attr, src(st.value)[:50]), not al,
                               'self.%s is bound to (a view of) %s: %s' % (t.attr, sorted(al), consequence), line=st.lineno)
            elif isinstance(st, ast.Expr) and isinstance(st.value, ast.Call) and isinstance(st.value.func, ast.Attribute) \
                    and isinstance(st.value.func.value, ast.Name) and st.value.func.value.id == 'self' and st.value.func.attr in ('sTM', 'sTAA') and st.value.args:
                n += 1
                al = may_alias(st.value.args[0], leaf, env)
                rep.ob(rule, fi, '%s: %s keeps a fresh array' % (name, src(st.value)[:50]), not al,
                       '%s stores the array it is given, here (a view of) %s: %s' % (st.value.func.attr, sorted(al), consequence), line=st.lineno)
    return n

def check(model, rep):
    rep.extra['explanation'] = (
        'Coverage (non-interference) analysis of every constructor form: which elements of the initializer reach which slot; '
        'dunder/operator agreement of tm; pairing of the quaternion bridge; structural formula of the two frame-conversion '
        'kernels and argument order of their wrappers.')
    tm = model.cls(TMM, 'tm')

    def M(name):
        f = tm.methods.get(name)
        if f is None:
            raise AnalysisError('anchor vanished: tm.' + name)
        return f

    # ---------------------------------------------------------------- R04.1
    rep.rule('R04.1', 'each constructor form reads exactly the elements of its description, each into the slot of the same position')
    from ..engine.elemflow import ElemEval, show as eshow
    methods = {n_: f_.node for n_, f_ in tm.methods.items()}

    def run_form(meth, flag):
        fi_ = M(meth)
        ev_ = ElemEval(methods, fi_.params[1], {fi_.params[2]: flag} if len(fi_.params) > 2 else {})
        ev_.block(fi_.body(), {})
        return fi_, ev_

    def el(*path):
        return ('el', tuple(path))
    Z = ('num', 0)

    def single(slot, v):
        return ('pose', tuple(v if k == slot else Z for k in range(6)))

    def zero_like(v):
        return v[0] == 'num' and v[1] == 0

    def has_unk(v):
        # a part of the value the element-flow evaluation could not follow: the comparison has no verdict then
        if isinstance(v, tuple):
            if v and v[0] == 'unk':
                # `branch-dependent`: the value differs between the arms of a test the convention flag does not decide - that IS a verdict
                # (the form reads its description differently depending on the data), not an unread construct
                return not str(v[1]).startswith('branch-dependent')
            return any(has_unk(x) for x in v)
        if isinstance(v, list):
            return any(has_unk(x) for x in v)
        return False

    # six-vector form, axis-angle: slot k <- element k
    f6, e6 = run_form('from6DOF', False)
    got = e6.stores.get('self.TAA', ('unk', 'no store'))
    rep.ob('R04.1', f6, 'from6DOF (axis-angle): elements 0..5 -> slots 0..5', got == ('lst', tuple(el(k) for k in range(6))),
           'with rpy false the six-vector becomes %s; expected [x[0], x[1], x[2], x[3], x[4], x[5]]' % eshow(got), shape=has_unk(got))
    # six-vector form, rpy: position slots from elements 0..2, rotation = vector of Rx(x[3]) @ Ry(x[4]) @ Rz(x[5])
    f6, e6 = run_form('from6DOF', True)
    got = e6.stores.get('self.TAA', ('unk', 'no store'))
    P6 = ('prod', (single(3, el(3)), single(4, el(4)), single(5, el(5))))
    want = ('lst', (el(0), el(1), el(2), ('slot', P6, 3), ('slot', P6, 4), ('slot', P6, 5)))
    rep.ob('R04.1', f6, 'from6DOF (rpy): elements 0..2 -> position, rotation vector of Rx(x[3]) @ Ry(x[4]) @ Rz(x[5])', got == want,
           'with rpy true the six-vector becomes %s; expected %s' % (eshow(got), eshow(want)), shape=has_unk(got))
    # nothing a constructor form calls rewrites the translation it stored (mutators such as angleMod may only touch the rotation rows)
    from .tmrows import rotation_only
    for form in ('from3DOF', 'from6DOF', 'from7DOF'):
        rotation_only(rep, 'R04.1', tm, M(form), 'tm.' + form, 'the constructed transform is not at the position it was given')
    # R04.7 integer descriptions are descriptions too: no computed value is stored IN PLACE into a buffer that has the dtype of the argument
    rep.rule('R04.7', 'methods of tm: no element / slice store of a computed value into a local array whose dtype follows the caller\'s argument '
                      '(np.array(x) / x.reshape / x.copy without a float dtype): for an integer description the value would be truncated')
    from .dtypeflow import InputTyped
    n_buf = 0
    for name_, fi_ in sorted(tm.methods.items()):
        it_ = InputTyped(fi_)
        n_buf += sum(1 for v_ in it_.defs if it_.array(ast.Name(id=v_, ctx=ast.Load())))
        for node_, base_, tgt_, val_ in it_.stores():
            rep.ob('R04.7', fi_, '%s: %s = %s' % (name_, tgt_, val_[:50]), False,
                   '`%s` is built from the argument without a float dtype, so for a description given as integers (a list of ints, an integer array) it is an '
                   'integer array; the in-place store %s = %s truncates the computed value - tm.%s then builds a different transform from [1, 0, 2] '
                   'than from [1., 0., 2.]' % (base_, tgt_, val_[:60], name_), line=node_.lineno)
    rep.count('R04.7 argument-typed local arrays in tm methods', n_buf)
    rep.ob('R04.7', tm.methods['__init__'], 'in-place stores into argument-typed buffers (all tm methods)', True, 'none stores a computed value')
    # R04.8 "equivalent descriptions give the same transform" rests on the two sync functions: every constructor form ends in one of them
    from .c03 import Checker as _TmChecker
    from .common_ops import RuleAlias
    _TmChecker(model, RuleAlias(rep, {'R03.2': 'R04.8'})).r032()
    rep.rules['R04.8'] = ('the sync functions behind every constructor form: TAAtoTM defines TM only from TAA (exp of hat of TAA[3:6], translation TAA[0:3]); TMtoTAA '
                          'defines TAA only from TM as the column [p; vee(log(R))] for EVERY rotation - no shortcut branch (rule function shared with C03 R03.2)')
    # R04.6 the new transform owns its payload
    rep.rule('R04.6', 'constructor forms give the new transform arrays of its own: TM / TAA are never (views of) the argument, so a matrix or transform '
                      'used to build one can be reused without changing it')
    n_pf = payload_fresh(rep, 'R04.6', tm, 'a later in-place write on either side changes the other - the transform built from a matrix no longer '
                         'equals the one built from the equivalent six-vector, setQuat on it rewrites the caller\'s matrix')
    rep.floor('R04.6', 'payload stores of the constructor forms', n_pf, 5)
    f3, e3 = run_form('from3DOF', False)
    got = e3.stores.get('self.TAA', ('unk', 'no store'))
    ok = got[0] == 'lst' and len(got[1]) == 6 and all(zero_like(x) for x in got[1][:3]) and got[1][3:] == (el(0), el(1), el(2))
    rep.ob('R04.1', f3, 'from3DOF (axis-angle): elements 0..2 -> slots 3..5', ok, 'with rpy false the six-vector becomes %s; expected [0, 0, 0, x[0], x[1], x[2]]' % eshow(got), shape=has_unk(got))
    f3, e3 = run_form('from3DOF', True)
    got = e3.stores.get('self.TAA', ('unk', 'no store'))
    P3 = ('prod', (single(3, el(0)), single(4, el(1)), single(5, el(2))))
    rep.ob('R04.1', f3, 'from3DOF (rpy): six-vector of Rx(x[0]) @ Ry(x[1]) @ Rz(x[2])', got == ('gtaa', P3),
           'with rpy true the six-vector becomes %s; expected %s' % (eshow(got), eshow(('gtaa', P3))), shape=has_unk(got))
    f7 = M('from7DOF')
    e7 = ElemEval(methods, f7.params[1], {})
    e7.block(f7.body(), {})
    got = e7.stores.get('self.TAA', ('unk', 'no store'))
    ok = got[0] == 'lst' and len(got[1]) == 6 and got[1][:3] == (el(0), el(1), el(2)) and all(zero_like(x) for x in got[1][3:])
    q = [c for c in e7.calls if c[0] == 'setQuat']
    okq = len(q) == 1 and q[0][1] == [('tail', (), 3)]
    rep.ob('R04.1', f7, 'from7DOF: elements 0..2 -> position, elements 3.. -> quaternion', ok and okq,
           'position/quaternion split of the 7-vector is not (0,1,2 | 3:): six-vector %s, setQuat(%s)' % (eshow(got), ', '.join(eshow(x) for c in q for x in c[1])))
    init = M('__init__')
    iai = init.params[1]
    il_init = Inliner(init)

    def len_test(t):
        """k when the test is `len(<initializer>) == k` (the length may have been given a name first)."""
        if isinstance(t, ast.Compare) and len(t.ops) == 1 and isinstance(t.ops[0], ast.Eq) and isinstance(t.comparators[0], ast.Constant) \
                and il_init.text(t.left) == 'len(%s)' % iai:
            return t.comparators[0].value
        return None
    # pair form: the branch for len == 2
    pair = None
    for n in ast.walk(init.node):
        if isinstance(n, ast.If) and len_test(n.test) == 2:
            pair = n
    if pair is None:
        rep.ob('R04.1', init, 'nested [position, rotation] pair form', False, 'the len-2 branch of the list dispatch is missing')
    else:
        ep = ElemEval(methods, iai, {})
        ep.block(pair.body, {})
        c6 = [c for c in ep.calls if c[0] == 'from6DOF']
        want = ('lst', (el(0, 0), el(0, 1), el(0, 2), el(1, 0), el(1, 1), el(1, 2)))
        got = c6[0][1][0] if len(c6) == 1 and c6[0][1] else ('unk', 'no from6DOF call')
        rep.ob('R04.1', init, 'pair form: [[x,y,z],[rx,ry,rz]] -> slots 0..5', got == want,
               'the pair form passes %s; expected %s (an element that is read twice shadows one that is never read)' % (eshow(got), eshow(want)),
               line=pair.lineno)
    # dispatch: for an initializer of length k every path reaches the constructor of that length (case analysis on the length)
    from ..engine.paths import paths_of
    CTORS = ('from3DOF', 'from6DOF', 'from7DOF')
    table = {}
    for k_, want_c in ((6, 'from6DOF'), (7, 'from7DOF'), (3, 'from3DOF')):
        ps = paths_of(init.node, init.params, consts={'len(%s)' % iai: k_, '%sisNone' % iai: False, '%s==None' % iai: False})     # a given initializer
        got = set()
        for p_ in ps:
            if p_.facts.get("hasattr(%s,'TM')" % iai) is True:
                continue        # copy-constructor path: the initializer is a transform, not a sequence
            got.add(tuple(c_[1][5:] for c_ in p_.calls(lambda n_: n_.startswith('self.') and n_[5:] in CTORS)))
        table[k_] = sorted(got)
        rep.ob('R04.1', init, 'length %d -> %s on every path' % (k_, want_c), got == {(want_c,)},
               'an initializer of length %d reaches %s' % (k_, sorted(got) or 'no constructor'))
    ps = paths_of(init.node, init.params, consts={'len(%s)' % iai: 2, 'isinstance(%s,list)' % iai: True, '%sisNone' % iai: False, '%s==None' % iai: False})
    got = {tuple(c_[1][5:] for c_ in p_.calls(lambda n_: n_.startswith('self.') and n_[5:] in CTORS)) for p_ in ps
           if p_.facts.get("hasattr(%s,'TM')" % iai) is not True}
    rep.ob('R04.1', init, 'a list of length 2 -> pair form (from6DOF) on every path', got == {('from6DOF',)}, 'a [position, rotation] pair reaches %s' % sorted(got))
    # rpy flag forwarded
    for c in [c for c in ast.walk(init.node) if isinstance(c, ast.Call) and isinstance(c.func, ast.Attribute) and c.func.attr in ('from3DOF', 'from6DOF')]:
        rep.ob('R04.1', init, src(c)[:70], len(c.args) == 2 and src(c.args[1]) == init.params[2], 'the rpy flag is not forwarded', line=c.lineno)

    # ---------------------------------------------------------------- R04.2
    rep.rule('R04.2', 'tm dunders apply their own operator to (self, other) in the implied order; inv = TransInv; wrappers pass (reference, rel)')
    n = check_dunders(rep, 'R04.2', model, tm, ['__matmul__', '__rmatmul__', '__add__', '__sub__', '__mul__', '__rmul__', '__truediv__'],
                      {'tm'}, TM_EXC)
    rep.floor('R04.2', 'return branches of tm dunders', n, 12)
    inv = M('inv')
    asg = {}
    for x in walk_own(inv.node):
        if isinstance(x, ast.Assign) and isinstance(x.targets[0], ast.Name):
            asg[x.targets[0].id] = x.value
    r = returns_of(inv)
    gots = [Inliner(inv).text(x.value) if x.value is not None else '<none>' for x in r] or ['?']
    bad = [g for g in gots if g not in ('tm(mr.TransInv(self.TM))', 'tm(mr.TransInv(self.gTM()))')]
    rep.ob('R04.2', inv, 'tm(TransInv(self.TM))', not bad, 'inv() returns %s' % (bad[0] if bad else gots[0]))
    for name, kern in (('localToGlobal', 'LocalToGlobal'), ('globalToLocal', 'GlobalToLocal')):
        fi = model.func(HELP, name)
        r = returns_of(fi)
        from ..engine import peval as _pe
        flat = _pe.flatten_function(tv.toplevel_funcs(fi.module.tree), fi.node)
        fr = [n_ for n_ in ast.walk(flat) if isinstance(n_, ast.Return) and n_.value is not None]
        want_w = 'tm(mr.%s(%s.gTAA(),%s.gTAA()))' % (kern, fi.params[0], fi.params[1])
        if len(fr) == 1:
            got = Inliner(fi, node=flat).text(fr[0].value)
            rep.ob('R04.2', fi, 'tm(mr.%s(reference.gTAA(), rel.gTAA()))' % kern, got == want_w, 'wrapper is %s' % got)
        else:
            # several returns: every returning path is the wrapper, or a shortcut that hands back (a copy of) one operand on a path that
            # establishes that the OTHER operand is the identity - through its whole six-vector (Norm6 / all elements), not a part of it
            p0, p1 = fi.params[0], fi.params[1]
            keep, other = (p0, p1) if name == 'localToGlobal' else (p1, p0)
            ident = lambda X: {'mr.Norm6(%s[0:6])==0' % X, 'mr.Norm6(%s.gTAA())==0' % X, 'mr.Norm6(%s.TAA)==0' % X, 'np.all(%s.TAA==0)' % X,
                               'np.all(%s.gTAA()==0)' % X, '%s==tm()' % X, 'notnp.any(%s.TAA)' % X, 'notnp.any(%s.gTAA())' % X,
                               'np.linalg.norm(%s.TAA)==0' % X, 'np.linalg.norm(%s.gTAA())==0' % X, 'np.linalg.norm(%s[0:6])==0' % X}
            n_ret = 0
            for pth in paths_of(flat, fi.params):
                if pth.kind != 'return' or pth.ret is None:
                    continue
                n_ret += 1
                r_ = pth.ret.replace(' ', '')
                if r_ == want_w:
                    continue
                if r_ in ('%s.copy()' % keep, 'tm(%s)' % keep, 'tm(%s.copy())' % keep, 'tm(%s.gTM())' % keep, 'tm(%s.TM)' % keep):
                    true_facts = {k_.replace(' ', '') for k_, v_ in pth.facts.items() if v_ is True} | \
                                 {'not' + k_.replace(' ', '') for k_, v_ in pth.facts.items() if v_ is False}
                    ok_ = bool(true_facts & ident(other))
                    why_ = ', '.join(sorted('%s is %s' % (pth.fact_src.get(k_, k_)[:60], v_) for k_, v_ in pth.facts.items())) or 'unconditionally'
                    rep.ob('R04.2', fi, '%s: shortcut returning %s' % (name, r_), ok_,
                           '%s hands back %s when %s: that does not establish that `%s` is the identity (all six components of its translation / axis-angle vector '
                           'zero), so for the other poses admitted by the test - e.g. a pure rotation when only components 0..2 are measured - the composition is dropped'
                           % (name, r_, why_, other), line=pth.ret_line)
                else:
                    rep.ob('R04.2', fi, 'tm(mr.%s(reference.gTAA(), rel.gTAA()))' % kern, False, 'a path of %s returns %s' % (name, r_[:80]), shape=True, line=pth.ret_line)
            rep.ob('R04.2', fi, '%s: returning paths found' % name, n_ret >= 1, 'no returning path', shape=True)

    # ---------------------------------------------------------------- R04.3
    rep.rule('R04.3', 'getQuat/setQuat: same scipy convention (default scalar-last), same 3x3 block, setQuat syncs')
    gq, sq = M('getQuat'), M('setQuat')
    r = returns_of(gq)
    il_g, il_s = Inliner(gq), Inliner(sq)
    G_OK = ('R.from_matrix(self.TM[0:3,0:3]).as_quat()', 'R.from_matrix(self.gRot()).as_quat()', 'R.from_matrix(self.TM[0:3,0:3].copy()).as_quat()')
    g_ok = bool(r) and all(x.value is not None and il_g.text(x.value, canon=False) in G_OK for x in r)      # temporaries resolved
    st = [x for x in walk_own(sq.node) if isinstance(x, ast.Assign) and src(x.targets[0]).startswith('self.')]
    s_ok = len(st) == 1 and norm_text(st[0].targets[0]) == 'self.TM[0:3,0:3]' and \
        il_s.text(st[0].value, canon=False) == 'R.from_quat(%s).as_matrix()' % sq.params[1]
    sync = any(isinstance(c, ast.Call) and src(c.func) == 'self.TMtoTAA' for c in walk_own(sq.node))
    rep.ob('R04.3', gq, 'as_quat() of the rotation block', g_ok, 'getQuat is %s' % (src(r[0].value) if r else '?'))
    rep.ob('R04.3', sq, 'rotation block = from_quat(q).as_matrix(), then TMtoTAA()', s_ok and sync,
           'setQuat does not write the same block with the same (default) convention and re-derive the six-vector')

    from .c02 import closure_obligations
    helpers = [f for f in model.funcs_in(HELP) if f.name in ('localToGlobal', 'globalToLocal', 'TAAtoTM', 'TMtoTAA')]
    n = closure_obligations(model, rep, 'R04.5', list(tm.methods.values()) + helpers, 'the transform algebra (constructor sync, inv, localToGlobal / globalToLocal)')
    rep.floor('R04.5', 'shared primitives under the transform algebra', len(n), 8)
    # ---------------------------------------------------------------- R04.4
    rep.rule('R04.4', 'LocalToGlobal = ref*rel, GlobalToLocal = inv(ref)*rel (position and rotation-vector formulas)')
    SPECS = {
        'LocalToGlobal': """
            def LocalToGlobal(reference, rel):
                reference = reference * 1.0
                rel = rel * 1.0
                Rref = MatrixExp3(VecToso3(reference[3:6].reshape((3))))
                Rrel = MatrixExp3(VecToso3(rel[3:6].reshape((3))))
                out = np.zeros((6, 1))
                out[0:3] = (reference[0:3] + (Rref @ rel[0:3])).reshape((3, 1))
                out[3:6] = so3ToVec(MatrixLog3(Rref @ Rrel)).reshape((3, 1))
                return out
            """,
        'GlobalToLocal': """
            def GlobalToLocal(reference, rel):
                reference = reference * 1.0
                rel = rel * 1.0
                Rref = MatrixExp3(VecToso3(reference[3:6].reshape((3))))
                Rrel = MatrixExp3(VecToso3(rel[3:6].reshape((3))))
                out = np.zeros((6, 1))
                out[0:3] = (Rref.conj().T @ (rel[0:3] - reference[0:3])).reshape((3, 1))
                out[3:6] = so3ToVec(MatrixLog3(Rref.conj().T @ Rrel)).reshape((3, 1))
                return out
            """}
    for name, what in (('LocalToGlobal', 'ref * rel: position p_ref + R_ref p_rel, rotation vee(log(R_ref R_rel)), assembled as 6x1'),
                       ('GlobalToLocal', 'inv(ref) * rel: position R_ref^T (p_rel - p_ref), rotation vee(log(R_ref^T R_rel)), assembled as 6x1')):
        fi = model.func(PORT, name)
        ok, why = tv.matches_spec(model, PORT, name, SPECS[name])
        rep.ob('R04.4', fi, '%s = %s' % (name, what), ok, '%s is not the frame conversion of its definition: %s' % (name, why))
