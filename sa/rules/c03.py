"""C03 - a transform object's matrix (TM) and six-vector (TAA) always describe the same pose.

Decided statically (for all histories through the class's own writers):
  R03.1 typestate: every store to one representation is followed, on every path to a normal
        exit of the method, by the sync that READS that representation (TAA->TAAtoTM,
        TM->TMtoTAA); a sync in the wrong direction (lost write) or with both sides dirty
        is a violation; objects other than self written field-by-field must receive a coherent
        pair copied from one clean source object, or be synced.
  R03.2 the two sync functions derive the other side only from the side they read, on all
        paths, with the documented formula shape (rotation = exp(hat(TAA[3:6])), translation
        = TAA[0:3], last row 0 0 0 1; TAA = (6,1) column [p ; vee(log(R))]).
  R03.3 who-may-write: no store to .TM/.TAA (or through a view of them) outside class tm.
Not decided: numerical inverse-ness of exp/log (C01), tolerance 5e-6.
"""
import ast
import os

from ..engine.model import AnalysisError, src, walk_own
from ..engine.flow import Flow
from ..engine.typestate import EventDomain
from ..engine.alias import may_alias, calls_in_order

TM_MOD = 'basic_robotics.general.faser_transform'
FIELDS = ('TAA', 'TM')
OTHER = {'TAA': 'TM', 'TM': 'TAA'}
SYNC_READS = {'TAAtoTM': 'TAA', 'TMtoTAA': 'TM'}       # sync method -> representation it reads
SYNC_OF = {'TAA': 'TAAtoTM', 'TM': 'TMtoTAA'}
# Methods exempt from the exit obligation, one line of reason each.
HELPERS = {
    'transformSqueezedCopy': 'declared dirty helper: fills TM element-wise; every caller must call TMtoTAA() (checked at the callers)',
    'TAAtoTM': 'sync function itself (checked by R03.2)',
    'TMtoTAA': 'sync function itself (checked by R03.2)',
}
INPLACE_METHODS = {'fill', 'put', 'itemset', 'sort', 'resize', 'setfield', 'partition', 'setflags'}
INPLACE_NP = {'copyto', 'put', 'place', 'putmask', 'fill_diagonal', 'put_along_axis'}


def field_leaf(any_receiver):
    def leaf(e):
        if isinstance(e, ast.Attribute) and e.attr in FIELDS:
            if isinstance(e.value, ast.Name):
                return {(e.value.id, e.attr)}
            if any_receiver:
                return {(src(e.value), e.attr)}
        return None
    return leaf


def alias_env(fnode, leaf):
    """Flow-insensitive: local name -> set of (recv, field) it may be a view of."""
    env = {}
    for _ in range(3):
        changed = False
        for n in walk_own(fnode):
            if isinstance(n, ast.Assign) and len(n.targets) == 1 and isinstance(n.targets[0], ast.Name):
                a = may_alias(n.value, leaf, env)
                if a - env.get(n.targets[0].id, set()):
                    env.setdefault(n.targets[0].id, set()).update(a)
                    changed = True
        if not changed:
            break
    return env


def store_targets(stmt, leaf, env):
    """(recv, field, whole, value, node) for each store of `stmt` that hits a TM/TAA payload."""
    out = []

    def one(t, value):
        if isinstance(t, (ast.Tuple, ast.List)):
            for e in t.elts:
                one(e, None)
            return
        if isinstance(t, ast.Starred):
            return one(t.value, None)
        if isinstance(t, ast.Attribute) and t.attr in FIELDS:
            for (r, f) in (leaf(t) or ()):
                out.append((r, f, True, value, t))
        elif isinstance(t, ast.Subscript):
            for (r, f) in may_alias(t.value, leaf, env):
                out.append((r, f, False, value, t))
        elif isinstance(t, ast.Name) and isinstance(stmt, ast.AugAssign):
            for (r, f) in env.get(t.id, ()):
                out.append((r, f, False, value, t))
    if isinstance(stmt, ast.Assign):
        for t in stmt.targets:
            one(t, stmt.value)
    elif isinstance(stmt, ast.AugAssign):
        one(stmt.target, None)
    elif isinstance(stmt, ast.AnnAssign) and stmt.value is not None:
        one(stmt.target, stmt.value)
    return out


def inplace_call_targets(call, leaf, env):
    """Payload arrays mutated in place by a call (x.fill(..), np.copyto(x, ..))."""
    f = call.func
    out = []
    if isinstance(f, ast.Attribute):
        if f.attr in INPLACE_METHODS:
            out.extend(may_alias(f.value, leaf, env))
        if isinstance(f.value, ast.Name) and f.value.id in ('np', 'numpy') and f.attr in INPLACE_NP and call.args:
            out.extend(may_alias(call.args[0], leaf, env))
    return out


def copy_source(value):
    """value is `s.F`, `np.copy(s.F)`, `s.F.copy()`, `np.array(s.F)` -> (s, F) else None."""
    e = value
    # value-preserving wrappers (whether the result shares storage is R03.6's question, not this one's)
    while isinstance(e, ast.Call):
        f = e.func
        if isinstance(f, ast.Attribute) and f.attr == 'copy' and not e.args:
            e = f.value
        elif isinstance(f, ast.Attribute) and isinstance(f.value, ast.Name) and f.value.id in ('np', 'numpy') \
                and f.attr in ('copy', 'array', 'asarray', 'ascontiguousarray') and e.args:
            e = e.args[0]
        elif isinstance(f, ast.Attribute) and f.attr in ('astype', 'reshape') and not (isinstance(f.value, ast.Name) and f.value.id in ('np', 'numpy')):
            if f.attr == 'reshape':
                a = e.args[0].elts if len(e.args) == 1 and isinstance(e.args[0], (ast.Tuple, ast.List)) else e.args
                if [src(x) for x in a] not in (['6', '1'], ['4', '4']):
                    return None
            e = f.value
        else:
            return None
    if isinstance(e, ast.Attribute) and e.attr in FIELDS and isinstance(e.value, ast.Name):
        return (e.value.id, e.attr)
    return None


class TmDomain(EventDomain):
    """marks: frozenset of
         ('dirty', recv, field, store_key, line, src)  field written, other side stale
         ('bad', recv, kind, key, line)                wrong-direction / conflicting sync"""

    def __init__(self, checker, fi):
        self.ck = checker
        self.fi = fi
        self.leaf = field_leaf(False)
        self.env = alias_env(fi.node, self.leaf)

    def _dirty(self, marks, recv, field=None):
        return [m for m in marks if m[0] == 'dirty' and m[1] == recv and (field is None or m[2] == field)]

    def on_store(self, target, value, stmt, state):
        marks, consts = state
        for (r, f, whole, val, node) in store_targets(stmt, self.leaf, self.env):
            if node is not target:
                continue
            marks = self._apply_store(marks, r, f, whole, val, stmt)
        return ((marks, consts),)

    def _apply_store(self, marks, r, f, whole, val, stmt):
        key = src(stmt)
        cs = copy_source(val) if (whole and val is not None) else None
        srcobj = cs[0] if (cs and cs[1] == f and cs[0] != r) else None
        if srcobj is not None:
            # second half of a coherent pair copied from one clean source?
            others = [m for m in self._dirty(marks, r, OTHER[f]) if m[5] == srcobj]
            if others and not self._dirty(marks, srcobj) and len(self._dirty(marks, r)) == len(others):
                return frozenset(m for m in marks if m not in others)
        marks = frozenset(m for m in marks if not (m[0] == 'dirty' and m[1] == r and m[2] == f)) if whole else marks
        return marks | {('dirty', r, f, key, stmt.lineno, srcobj)}

    def on_call(self, call, state):
        marks, consts = state
        f = call.func
        # in-place array mutators
        hit = inplace_call_targets(call, self.leaf, self.env)
        if hit:
            fake = ast.Expr(value=call)
            ast.copy_location(fake, call)
            for (r, fld) in hit:
                marks = self._apply_store(marks, r, fld, False, None, fake)
            return ((marks, consts),)
        if isinstance(f, ast.Attribute) and isinstance(f.value, ast.Name):
            r, meth = f.value.id, f.attr
            if meth in SYNC_READS:
                reads = SYNC_READS[meth]
                d_read = self._dirty(marks, r, reads)
                d_other = self._dirty(marks, r, OTHER[reads])
                if d_other and not d_read:
                    m0 = d_other[0]
                    marks = marks | {('bad', r, 'wrong-direction sync: %s() reads %s but the pending write is to %s '
                                      '(write lost)' % (meth, reads, OTHER[reads]), m0[3], m0[4])}
                elif d_other and d_read:
                    m0 = d_other[0]
                    marks = marks | {('bad', r, 'conflicting writes to both representations before %s()' % meth,
                                      m0[3], m0[4])}
                marks = frozenset(m for m in marks if not (m[0] == 'dirty' and m[1] == r))
                return ((marks, consts),)
            if r == 'self' and self.fi.cls is not None:
                callee = self.ck.model.find_method(self.ck.tm, meth)
                if callee is not None and callee.cls is self.ck.tm:
                    mine = frozenset(m for m in marks if m[0] == 'dirty' and m[1] == 'self')
                    rest = marks - mine
                    outs = self.ck.summary(callee, mine)
                    return tuple((rest | o, consts) for o in outs)
        return ((marks, consts),)


class Checker:
    def __init__(self, model, rep):
        self.model = model
        self.rep = rep
        self.tm = model.cls(TM_MOD, 'tm')
        self._memo = {}
        self._stack = []

    def run_method(self, fi, entry_marks):
        dom = TmDomain(self, fi)
        exits = Flow(dom).run(fi.body(), {(entry_marks, frozenset())})
        return [e for e in exits if e.kind in ('return', 'fall')]

    def summary(self, fi, entry_marks):
        k = (fi.key, entry_marks)
        if k in self._memo:
            return self._memo[k]
        if k in self._stack:
            return {entry_marks}
        self._stack.append(k)
        try:
            outs = set()
            for e in self.run_method(fi, entry_marks):
                marks = e.state[0]
                outs.add(frozenset(m for m in marks if m[1] == 'self'))
        finally:
            self._stack.pop()
        self._memo[k] = outs
        return outs

    # ------------------------------------------------------------------ R03.1
    def r031(self):
        rep = self.rep
        rep.rule('R03.1', 'every store to TM/TAA is followed on all paths to a normal exit by the sync that reads it '
                          '(or completes a coherent pair copied from one clean source)')
        writers = 0
        leaf = field_leaf(False)
        for name, fi in sorted(self.tm.methods.items()):
            rep.count('tm methods analysed')
            env = alias_env(fi.node, leaf)
            sites = {}
            for n in walk_own(fi.node):
                if isinstance(n, (ast.Assign, ast.AugAssign, ast.AnnAssign)):
                    for (r, f, whole, val, node) in store_targets(n, leaf, env):
                        sites.setdefault((src(n), r, f), n.lineno)
                elif isinstance(n, ast.Call):
                    for (r, f) in inplace_call_targets(n, leaf, env):
                        sites.setdefault((src(n), r, f), n.lineno)
            calls_dirty_helper = any(
                isinstance(c.func, ast.Attribute) and isinstance(c.func.value, ast.Name) and c.func.value.id == 'self'
                and c.func.attr in HELPERS and c.func.attr not in SYNC_READS
                for c in (n for n in walk_own(fi.node) if isinstance(n, ast.Call)))
            if sites:
                writers += 1
            if name in HELPERS:
                continue
            exits = self.run_method(fi, frozenset())
            bad_by_site = {}
            for e in exits:
                for m in e.state[0]:
                    if m[0] == 'dirty':
                        bad_by_site.setdefault((m[3], m[1], m[2]), []).append((m[4], e))
                    elif m[0] == 'bad':
                        bad_by_site.setdefault((m[3], m[1], m[2]), []).append((m[4], e))
            keys = set(sites) | set(bad_by_site)
            for k in sorted(keys, key=lambda x: (str(x[0]), str(x[1]), str(x[2]))):
                stext, r, what = k
                if k in bad_by_site:
                    line, e = bad_by_site[k][0]
                    exitdesc = ('return at line %d' % e.node.lineno) if e.node is not None else 'end of method'
                    if what in FIELDS:
                        msg = ('store to %s.%s (line %s) reaches %s without %s.%s(): the other representation is stale'
                               % (r, what, line, exitdesc, r, SYNC_OF[what]))
                    else:
                        msg = '%s (store at line %s, exit: %s)' % (what, line, exitdesc)
                    rep.ob('R03.1', fi, stext, False, msg, line=line)
                else:
                    rep.ob('R03.1', fi, stext, True, 'synced on all %d normal exits' % len(exits), line=sites[k])
            if calls_dirty_helper and not sites and not bad_by_site:
                rep.ob('R03.1', fi, 'calls dirty helper', True, 'helper effects synced on all exits')
        rep.floor('R03.1', 'tm methods that write TM/TAA', writers, 8)

    # ------------------------------------------------------------------ R03.2
    def r032(self):
        rep = self.rep
        rep.rule('R03.2', 'TAAtoTM defines TM only from TAA (exp of hat of TAA[3:6], translation TAA[0:3], last row '
                          '0 0 0 1); TMtoTAA defines TAA only from TM as a (6,1) column [p; vee(log(R))]; both on all paths')
        for meth, reads in SYNC_READS.items():
            fi = self.tm.methods.get(meth)
            if fi is None:
                raise AnalysisError('anchor vanished: tm.%s' % meth)
            writes = OTHER[reads]
            # dependence: locals -> set of fields they depend on
            dep = {}

            def deps(e):
                out = set()
                for n in ast.walk(e):
                    if isinstance(n, ast.Attribute) and isinstance(n.value, ast.Name) and n.value.id == 'self' and n.attr in FIELDS:
                        out.add(n.attr)
                    elif isinstance(n, ast.Name) and n.id in dep:
                        out |= dep[n.id]
                return out
            assigned_target = False
            ok_dep = True
            detail = []
            for st in fi.body():
                if isinstance(st, ast.Assign):
                    d = deps(st.value)
                    for t in st.targets:
                        for n in ([t] if not isinstance(t, ast.Tuple) else t.elts):
                            if isinstance(n, ast.Name):
                                dep[n.id] = set(d)
                            elif isinstance(n, ast.Attribute) and isinstance(n.value, ast.Name) and n.value.id == 'self' and n.attr in FIELDS:
                                if n.attr == writes:
                                    assigned_target = True
                                    if d != {reads}:
                                        ok_dep = False
                                        detail.append('self.%s assigned from %s' % (writes, sorted(d) or 'constants only'))
                                else:
                                    # normalising the side it reads is allowed only from itself
                                    if d != {reads}:
                                        ok_dep = False
                                        detail.append('self.%s rewritten from %s inside %s' % (n.attr, sorted(d), meth))
                elif isinstance(st, (ast.If, ast.For, ast.While, ast.Try, ast.With)):
                    # control flow inside a sync function: fall back to must-assign analysis below
                    pass
            # must-assign on all paths (flow)
            rep.ob('R03.2', fi, 'self.%s depends only on self.%s' % (writes, reads), ok_dep and assigned_target,
                   '; '.join(detail) or ('no assignment to self.%s' % writes if not assigned_target else 'ok'))
            must = self._must_assign(fi, writes)
            rep.ob('R03.2', fi, 'self.%s assigned on every path' % writes, must,
                   'some path through %s leaves self.%s untouched' % (meth, writes) if not must else 'ok')
        self._formula()

    def _must_assign(self, fi, field):
        class D(EventDomain):
            def on_store(s, target, value, stmt, state):
                if isinstance(target, ast.Attribute) and target.attr == field and isinstance(target.value, ast.Name) \
                        and target.value.id == 'self':
                    return ((True, state[1]),)
                return (state,)
        exits = Flow(D()).run(fi.body(), {(False, frozenset())})
        return all(e.state[0] for e in exits if e.kind in ('return', 'fall'))

    def _formula(self):
        """Structural formula of the two sync functions through the symbolic array evaluator."""
        try:
            from ..engine import symarr
        except ImportError:
            self.rep.note('R03.2 formula clause not armed (symbolic array engine unavailable)')
            return
        symarr.check_tm_sync_formulas(self.model, self.rep, self.tm)

    # ------------------------------------------------------------------ R03.3
    def r033(self):
        rep = self.rep
        rep.rule('R03.3', 'no store to .TM/.TAA, nor through a view of them, outside class tm (whole repository)')
        n_funcs = 0
        hits = []
        for fi in self.model.all_funcs:
            if fi.cls is self.tm:
                continue
            n_funcs += 1
            hits.extend((fi,) + h for h in external_writes(fi.node))
        # module-level code
        for m in self.model.modules.values():
            for h in external_writes(m.tree, module_level=True):
                hits.append((None, ) + h)
            rep.count('modules scanned for external writers')
        rep.count('functions scanned for external writers', n_funcs)
        for h in hits:
            fi, text, line, what = h
            if fi is None:
                rep.ob('R03.3', 'module-level', text, False, 'store to %s outside class tm' % what, line=line)
            else:
                rep.ob('R03.3', fi, text, False, 'store to %s outside class tm bypasses the sync discipline' % what, line=line)
        rep.ob('R03.3', self.tm.module.relpath, 'whole-repository scan', True,
               '%d functions outside tm scanned, %d external writers' % (n_funcs, len(hits)), qualname='*', line=0)
        # positive control: the scanner must fire on the committed example
        ctl = os.path.join(os.path.dirname(os.path.dirname(os.path.abspath(__file__))), 'controls', 'c03_external_writer.py')
        with open(ctl) as f:
            tree = ast.parse(f.read())
        found = []
        for n in ast.walk(tree):
            if isinstance(n, ast.FunctionDef):
                found.extend(external_writes(n))
        if len(found) < 3:
            raise AnalysisError('R03.3 positive control no longer matches (%d/3)' % len(found))
        rep.count('R03.3 positive-control matches', len(found))


def external_writes(node, module_level=False):
    leaf = field_leaf(True)
    out = []
    if module_level:
        stmts = [s for s in node.body if not isinstance(s, (ast.FunctionDef, ast.AsyncFunctionDef, ast.ClassDef))]
        wrapper = ast.Module(body=stmts, type_ignores=[])
        env = alias_env(wrapper, leaf)
        nodes = []
        for s in stmts:
            nodes.extend(ast.walk(s))
    else:
        env = alias_env(node, leaf)
        nodes = list(walk_own(node))
    for n in nodes:
        if isinstance(n, (ast.Assign, ast.AugAssign, ast.AnnAssign)):
            for (r, f, whole, val, t) in store_targets(n, leaf, env):
                out.append((src(n), n.lineno, '%s.%s' % (r, f)))
        elif isinstance(n, ast.Call):
            for (r, f) in inplace_call_targets(n, leaf, env):
                out.append((src(n), n.lineno, '%s.%s' % (r, f)))
    return out


def check(model, rep):
    rep.extra['explanation'] = (
        'Typestate (must) analysis over every control path of every method of class tm: a store to TM or TAA must '
        'be followed by the sync that reads it before any normal exit; whole-repository who-may-write scan; '
        'dependence/formula check of the two sync functions. Speaks about all operation histories because every '
        'public method is shown to map coherent objects to coherent objects.')
    rep.trusted_base.append('NumPy view/copy semantics table in sa/engine/alias.py')
    rep.assumptions.append('objects enter every public method coherent (established inductively by the same rule); '
                           'exceptional exits (invalid inputs) are outside the property')
    ck = Checker(model, rep)
    ck.r031()
    ck.r032()
    ck.r033()
    from .c02 import closure_obligations
    helpers = [f for f in model.funcs_in('basic_robotics.general.basic_helpers') if f.name in ('TAAtoTM', 'TMtoTAA', 'localToGlobal', 'globalToLocal')]
    n = closure_obligations(model, rep, 'R03.4', list(ck.tm.methods.values()) + helpers, 'class tm (TAAtoTM / TMtoTAA / inv / adjoint / frame conversion)')
    rep.floor('R03.4', 'shared primitives under class tm', len(n), 8)
    r035(model, rep, ck.tm)


def r035(model, rep, tm):
    """Payload ownership: two tm objects never share a representation array.  With in-place writers in the class (setQuat writes
    self.TM[0:3,0:3], __setitem__ writes self.TAA[i]) a shared array means an operation on one object silently changes ONE of
    the two representations of the other - which then disagrees with its own second representation."""
    from ..engine.effects import Effects
    rep.rule('R03.5', 'no method of tm stores the representation array of ANOTHER transform object as its own TM / TAA (copy on construction)')
    fx = Effects(model)
    inplace = sorted(name for name, fi in tm.methods.items() for n in walk_own(fi.node)
                     if isinstance(n, (ast.Assign, ast.AugAssign)) for t in (n.targets if isinstance(n, ast.Assign) else [n.target])
                     if isinstance(t, ast.Subscript) and isinstance(t.value, ast.Attribute) and t.value.attr in ('TM', 'TAA')
                     and isinstance(t.value.value, ast.Name) and t.value.value.id == 'self')
    n_store = 0
    for name, fi in sorted(tm.methods.items()):
        s_ = fx.summary(fi)
        # parameters the method itself treats as transform objects (reads .TM / .TAA of them)
        tm_params = {n.value.id for n in walk_own(fi.node) if isinstance(n, ast.Attribute) and n.attr in ('TM', 'TAA') and isinstance(n.value, ast.Name)
                     and n.value.id in fi.params and n.value.id != 'self'}
        for fld in ('TM', 'TAA'):
            stores = [n for n in walk_own(fi.node) if isinstance(n, ast.Assign) and any(
                isinstance(t, ast.Attribute) and t.attr == fld and isinstance(t.value, ast.Name) and t.value.id == 'self' for t in n.targets)]
            if not stores:
                continue
            n_store += 1
            shared = sorted(p for (p, kind) in s_.stores.get(fld, ()) if p in tm_params and kind == 'pay')
            rep.ob('R03.5', fi, 'self.%s owns its storage' % fld, not shared,
                   'self.%s may be the very array held by the transform passed as `%s`: a later in-place write through either object (%s) changes '
                   'one representation of the other object, whose second representation is then stale'
                   % (fld, shared[0] if shared else '?', ', '.join(sorted(set(inplace))) or 'in-place writers'), line=stores[0].lineno)
    # ... and the converse: a transform a method builds and hands out (copy(), results of operators) does not keep self's arrays
    from ..engine.alias import may_alias

    def leaf_self(e):
        if isinstance(e, ast.Attribute) and isinstance(e.value, ast.Name) and e.value.id == 'self' and e.attr in ('TM', 'TAA'):
            return {'self.' + e.attr}
        return None
    n_out = 0
    for name, fi in sorted(tm.methods.items()):
        env = {}
        for st in walk_own(fi.node):
            if isinstance(st, ast.Assign) and len(st.targets) == 1 and isinstance(st.targets[0], ast.Name):
                env[st.targets[0].id] = may_alias(st.value, leaf_self, env)
        for st in walk_own(fi.node):
            if not isinstance(st, ast.Assign):
                continue
            for t in st.targets:
                if isinstance(t, ast.Attribute) and t.attr in ('TM', 'TAA') and isinstance(t.value, ast.Name) and t.value.id != 'self':
                    n_out += 1
                    al = may_alias(st.value, leaf_self, env)
                    rep.ob('R03.5', fi, '%s: %s = %s is a fresh array' % (name, src(t), src(st.value)[:50]), not al,
                           '%s may be (a view of) %s: the object handed out shares that representation with `self`, so an in-place write through either (%s) '
                           'changes one representation of the other object, whose second representation is then stale'
                           % (src(t), sorted(al), ', '.join(sorted(set(inplace))) or 'in-place writers'), line=st.lineno)
    rep.count('stores into the representation of an object built by a tm method', n_out)
    rep.count('methods of tm storing a whole representation', n_store)
    rep.floor('R03.5', 'whole-representation stores', n_store, 4)
