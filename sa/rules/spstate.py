"""Shared analysis of class SP (Stewart platform), used by C09 / C10 / C11.

State coherence as a value-numbering typestate.  Symbolic tokens name pose values; the abstract state is
    stored  = (B, T)      tokens of the stored bottom / top plate poses
    derived = (B', T')    tokens the derived state (joint positions in space, leg lengths, relative transform -
                          all written by _IKHelper) was last computed from
    rel     = (B'', T'')  tokens the stored relative transform was computed from
    dirty   = set of notes: derived fields overwritten outside _IKHelper / plate-fixed joint tables replaced
The state is COHERENT iff derived == rel == stored and dirty is empty.  Every public method must map a coherent
state to coherent states on every path to a normal exit.  Self-calls are analysed inline with constant
propagation of literal arguments (protect / donothing / validation_limit ...), which is also how termination
of the mutually recursive helpers is decided: re-entering a method with the same constant bindings while it is
still on the (abstract) call stack is an unbounded recursion.
"""
import ast

from ..engine.model import AnalysisError, src, walk_own
from ..engine.flow import Flow
from ..engine.typestate import EventDomain, consts_get, _UNK, _const_of

SPM = 'basic_robotics.kinematics.sp_model'
DERIVED = ('lengths', '_bottom_joints_space', '_top_joints_space')
REL = '_current_plate_transform_local'
LOCAL = ('_bottom_joints_local', '_top_joints_local')
INIT_TABLES = {'_bottom_joints_init': '_bottom_joints_local', '_top_joints_init': '_top_joints_local'}
POSE_B, POSE_T = '_base_pos_global', '_end_effector_pos_global'


def self_field(node):
    while isinstance(node, ast.Subscript):
        node = node.value
    if isinstance(node, ast.Attribute) and isinstance(node.value, ast.Name) and node.value.id == 'self':
        return node.attr
    return None


class St:
    """immutable abstract state"""
    __slots__ = ('sB', 'sT', 'dB', 'dT', 'rB', 'rT', 'dirty', 'env', 'tables')

    def __init__(self, sB, sT, dB, dT, rB, rT, dirty=frozenset(), env=frozenset(), tables=frozenset()):
        self.sB, self.sT, self.dB, self.dT, self.rB, self.rT = sB, sT, dB, dT, rB, rT
        self.dirty, self.env, self.tables = dirty, env, tables

    def key(self):
        return (self.sB, self.sT, self.dB, self.dT, self.rB, self.rT, self.dirty, self.env, self.tables)

    def __hash__(self):
        return hash(self.key())

    def __eq__(self, o):
        return isinstance(o, St) and self.key() == o.key()

    def with_(self, **kw):
        d = {k: getattr(self, k) for k in self.__slots__}
        d.update(kw)
        return St(**d)

    def shared(self):
        """object-level part (survives a call): everything except the local environment"""
        return (self.sB, self.sT, self.dB, self.dT, self.rB, self.rT, self.dirty, self.tables)

    def coherent_problems(self):
        out = []
        if (self.dB, self.dT) != (self.sB, self.sT):
            out.append('joint positions / leg lengths were last computed for poses (%s, %s) but the stored plate poses are (%s, %s)'
                       % (self.dB, self.dT, self.sB, self.sT))
        if (self.rB, self.rT) != (self.sB, self.sT):
            out.append('the relative plate transform was computed from (%s, %s) but the stored plate poses are (%s, %s)'
                       % (self.rB, self.rT, self.sB, self.sT))
        for d in sorted(self.dirty):
            if not d.startswith('#'):
                out.append(d)
        return out

    def __repr__(self):
        return 'St(stored=%s,%s derived=%s,%s rel=%s,%s dirty=%s)' % (self.sB, self.sT, self.dB, self.dT, self.rB, self.rT, sorted(self.dirty))


class Recursion(Exception):
    pass


NV = '#unvalidated'      # marker in St.dirty: the platform was moved since its constraints were last evaluated


class SPDomain(EventDomain):
    def __init__(self, an, fi, param_tokens):
        self.an = an
        self.fi = fi
        self.ptok = param_tokens

    # ---------------------------------------------------------------- tokens
    def tok(self, e, st):
        """symbolic token of a pose-valued expression (None = the constant None)"""
        if e is None:
            return None
        if isinstance(e, ast.Constant) and e.value is None:
            return None
        if isinstance(e, ast.Name):
            for (n, t) in st.env:
                if n == e.id:
                    return t
            if e.id in self.ptok:
                return self.ptok[e.id]
            return 'v:%s' % e.id
        if isinstance(e, ast.Call) and isinstance(e.func, ast.Attribute) and e.func.attr == 'globalToLocal' and len(e.args) == 2 and not e.keywords:
            return ('rel', self.tok(e.args[0], st), self.tok(e.args[1], st))       # a relative transform remembers the pair it was taken between
        if isinstance(e, ast.Call) and isinstance(e.func, ast.Attribute):
            f = e.func
            if isinstance(f.value, ast.Name) and f.value.id == 'self':
                if f.attr == 'validate':
                    return 'valid@%d' % e.lineno
                if f.attr == 'getTopT' or f.attr == 'getEEPos':
                    return st.sT
                if f.attr in ('getBottomT', 'getBasePos'):
                    return st.sB
            if f.attr == 'copy' and not e.args:
                return self.tok(f.value, st)
        if isinstance(e, ast.Attribute) and isinstance(e.value, ast.Name) and e.value.id == 'self':
            if e.attr == POSE_T:
                return st.sT
            if e.attr == POSE_B:
                return st.sB
        return 'e%d:%s' % (getattr(e, 'lineno', 0), src(e)[:40])

    def bind_local(self, st, name, token):
        env = frozenset((n, t) for (n, t) in st.env if n != name)
        if token is not None:
            env = env | {(name, token)}
        else:
            env = env | {(name, None)}
        return st.with_(env=env)

    # ---------------------------------------------------------------- events
    def on_store(self, target, value, stmt, state):
        st, consts = state
        if isinstance(target, ast.Name):
            if value is not None:
                return ((self.bind_local(st, target.id, self.tok(value, st)), consts),)
            return ((self.bind_local(st, target.id, 'v:%s@%d' % (target.id, stmt.lineno)), consts),)
        f = self_field(target)
        if f is None:
            return (state,)
        whole = isinstance(target, ast.Attribute)
        if f == POSE_B and whole:
            return ((st.with_(sB=self.tok(value, st), dirty=st.dirty | {NV}), consts),)
        if f == POSE_T and whole:
            return ((st.with_(sT=self.tok(value, st), dirty=st.dirty | {NV}), consts),)
        if f in (POSE_B, POSE_T):
            # in-place change of a stored pose
            tag = 'm%d:%s' % (stmt.lineno, f)
            return ((st.with_(dirty=st.dirty | {NV}, **({'sB': tag} if f == POSE_B else {'sT': tag})), consts),)
        if f in DERIVED and self.fi.name != '_IKHelper':
            note = 'self.%s written outside _IKHelper (%s, line %d)' % (f, self.fi.name, stmt.lineno)
            return ((st.with_(dirty=st.dirty | {note}), consts),)
        if f == REL and self.fi.name != '_IKHelper':
            # relative transform assigned directly: coherent iff computed from the stored poses
            rb, rt = 'r%d' % stmt.lineno, 'r%d' % stmt.lineno
            v = value
            tk = self.tok(v, st) if isinstance(v, (ast.Name, ast.Call)) else None
            if isinstance(tk, tuple) and tk and tk[0] == 'rel':
                rb, rt = tk[1], tk[2]                 # directly, or through a local that names the transform
            elif isinstance(v, ast.Call) and isinstance(v.func, ast.Attribute) and v.func.attr == 'globalToLocal' and len(v.args) == 2:
                rb, rt = self.tok(v.args[0], st), self.tok(v.args[1], st)
            elif isinstance(v, ast.Call) and src(v.func) == 'tm' and not v.args:
                rb, rt = 'ident', 'ident'
            return ((st.with_(rB=rb, rT=rt), consts),)
        if f in LOCAL:
            note = 'plate-fixed joint table self.%s replaced (%s, line %d): derived state not recomputed' % (f, self.fi.name, stmt.lineno)
            tables = st.tables | {'stale:' + c for c in self.an.dependents(f)}
            return ((st.with_(dirty=st.dirty | {note}, tables=tables), consts),)
        caches = self.an.caches
        if f in caches and whole:
            # a cache of the plate-fixed joints is refreshed by a value computed from FRESH sources, or reset to a constant
            srcs = self.an.field_reads(self.fi, value) if value is not None else set()
            reset = value is not None and isinstance(value, ast.Constant)
            fresh = bool(srcs & caches[f]) and not any(('stale:' + s_) in st.tables for s_ in srcs)
            if reset or fresh:
                tables = frozenset(t for t in st.tables if t != 'stale:' + f)
            elif srcs & (caches[f] | set(LOCAL)):
                tables = st.tables | {'stale:' + f}         # refreshed from a source that is itself stale
            else:
                tables = st.tables
            return ((st.with_(tables=tables), consts),)
        return (state,)

    def on_call(self, call, state):
        return tuple((st, consts) for (st, consts, _ret) in self.inline(call, state))

    def inline(self, call, state):
        """-> [(St, consts, returned tokens or None)]"""
        st, consts = state
        f = call.func
        # a closure that drives _IKHelper is about to be executed by a solver: derived state becomes arbitrary
        for a in list(call.args) + [k.value for k in call.keywords]:
            lam = None
            if isinstance(a, ast.Lambda):
                lam = a
            elif isinstance(a, ast.Name) and a.id in self.an.lambdas.get(self.fi.key, {}):
                lam = self.an.lambdas[self.fi.key][a.id]
            if lam is not None and any(isinstance(c, ast.Call) and isinstance(c.func, ast.Attribute) and c.func.attr == '_IKHelper' for c in ast.walk(lam)):
                tag = 'solver@%d' % call.lineno
                st = st.with_(dB=tag, dT=tag, rB=tag, rT=tag)
        if isinstance(f, ast.Attribute) and isinstance(f.value, ast.Name) and f.value.id == 'self':
            name = f.attr
            callee = self.an.model.find_method(self.an.sp, name)
            if callee is None or callee.cls is None or callee.cls.name not in ('SP', 'Robot'):
                return [(st, consts, None)]
            if name in ('getTopT', 'getBottomT', 'getLens', 'getEEPos', 'getBasePos', 'getCurrentLocalTransform', 'getBottomJoints', 'getTopJoints'):
                return [(st, consts, None)]
            bound = {}
            params = callee.params[1:]
            for p, a in zip(params, call.args):
                bound[p] = a
            for k in call.keywords:
                if k.arg:
                    bound[k.arg] = k.value
            if name == '_IKHelper':
                t = self.tok(bound.get('top_plate_pos'), st) if 'top_plate_pos' in bound else None
                b = self.tok(bound.get('bottom_plate_pos'), st) if 'bottom_plate_pos' in bound else None
                t = st.sT if t is None else t
                b = st.sB if b is None else b
                dirty = frozenset(d for d in st.dirty if 'written outside _IKHelper' not in d and 'derived state not recomputed' not in d)
                st2 = st.with_(dB=b, dT=t, rB=b, rT=t, dirty=dirty | {NV})
                self.an.helper_calls.append((self.fi, call, b, t))
                return [(st2, consts, (None, b, t))]
            if name == '_setPlatePos':
                b = self.tok(bound.get('bottom_plate_pos'), st) if 'bottom_plate_pos' in bound else None
                t = self.tok(bound.get('top_plate_pos'), st) if 'top_plate_pos' in bound else None
                return [(st.with_(sB=st.sB if b is None else b, sT=st.sT if t is None else t, dirty=st.dirty | {NV}), consts, None)]
            if name == '_bottomTopCheck':
                b = self.tok(call.args[0], st) if len(call.args) > 0 else None
                t = self.tok(call.args[1], st) if len(call.args) > 1 else None
                return [(st, consts, (st.sB if b is None else b, st.sT if t is None else t))]
            # generic inline
            ptok = {}
            cconst = set()
            for p in params:
                if p in bound:
                    a = bound[p]
                    v = _const_of(a)
                    if v is _UNK and isinstance(a, ast.Name):
                        v = consts_get(consts, a.id)
                    if v is not _UNK:
                        cconst.add((p, v))
                    ptok[p] = self.tok(a, st)
                else:
                    d = callee.defaults.get(p)
                    v = _const_of(d) if d is not None else _UNK
                    if v is not _UNK:
                        cconst.add((p, v))
                    ptok[p] = None if (d is not None and isinstance(d, ast.Constant) and d.value is None) else 'd:%s' % p
            outs = self.an.summary(callee, st, frozenset(cconst), ptok)
            res = []
            keep_valid = NV not in st.dirty and self._rigid_reanchor(call)
            for (o, ret) in outs:
                dirty = o[6]
                if name == 'validate' or keep_valid:
                    # validate() leaves a state whose constraints it has just evaluated; moving both plates by one rigid motion
                    # (top = P, bottom = P @ inv(current relative transform)) keeps every leg, so it keeps the verdict
                    dirty = frozenset(d for d in dirty if d != NV)
                res.append((st.with_(sB=o[0], sT=o[1], dB=o[2], dT=o[3], rB=o[4], rT=o[5], dirty=dirty, tables=o[7]), consts, ret))
            return res
        return [(st, consts, None)]

    @staticmethod
    def _rigid_reanchor(call):
        """IK / _IKHelper / _setPlatePos called with (X, X @ <current relative transform>[.inv()]) in either order"""
        args = [src(a).replace(' ', '') for a in call.args] + [src(k.value).replace(' ', '') for k in call.keywords if k.arg and 'plate_pos' in k.arg]
        cur = 'self.%s' % REL
        for x in args:
            for y in args:
                if y in (x + '@' + cur + '.inv()', x + '@' + cur, 'fsr.localToGlobal(%s,%s)' % (x, cur), 'fsr.localToGlobal(%s,%s.inv())' % (x, cur)) and cur not in x:
                    return True
        return False

    def _stale_verdict(self, node, st, toks):
        if NV in st.dirty and toks is not None and any(isinstance(t_, str) and t_.startswith('valid@') for t_ in toks):
            line = [int(t_[6:]) for t_ in toks if isinstance(t_, str) and t_.startswith('valid@')][0]
            self.an.stale_verdicts.append((self.fi, node.lineno, line))

    def on_return(self, node, state):
        v = node.value
        outs = []
        if isinstance(v, ast.Call) and isinstance(v.func, ast.Attribute) and src(v.func.value) == 'self':
            # `return self._FKSolve(...)`: pair every resulting state with the tokens that very path returned
            self.effects(v, state)
            for (st, consts, ret) in self._pending:
                outs.append((st.with_(env=frozenset(x for x in st.env if x[0] != '$ret') | {('$ret', ret)}), consts))
            return outs
        for (st, consts) in super().on_return(node, state):
            ret = None
            if isinstance(v, ast.Tuple):
                ret = tuple(self.tok(x, st) for x in v.elts)
                self._stale_verdict(node, st, ret)
            outs.append((st.with_(env=frozenset(x for x in st.env if x[0] != '$ret') | {('$ret', ret)}), consts))
        return outs

    _last_ret = None

    def effects(self, expr, state):
        # like EventDomain.effects, but remembers the tokens returned by the last inlined self-call
        if expr is None:
            return (state,)
        from ..engine.alias import calls_in_order
        states = [(state[0], state[1], None)]
        for c in calls_in_order(expr):
            nxt = []
            for (st, consts, _r) in states:
                nxt.extend(self.inline(c, (st, consts)))
            # de-duplicate
            seen, uniq = set(), []
            for x in nxt:
                k = (x[0], x[1], x[2])
                if k not in seen:
                    seen.add(k)
                    uniq.append(x)
            states = uniq
        self._pending = states
        if states:
            self._last_ret = states[0][2]
        return tuple((st, consts) for (st, consts, _r) in states)

    def transfer(self, stmt, state):
        # tuple unpacking of pose pairs returned by SP helpers: b, t = self._FKRaphson(...)
        if isinstance(stmt, ast.Assign) and isinstance(stmt.targets[0], ast.Tuple) and isinstance(stmt.value, ast.Call) \
                and isinstance(stmt.value.func, ast.Attribute) and src(stmt.value.func.value) == 'self':
            self.effects(stmt.value, state)
            outs = []
            elts = stmt.targets[0].elts
            for (st, consts, ret) in self._pending:
                vals = list(ret) if (ret is not None and len(ret) == len(elts)) else [None] * len(elts)
                for e, v in zip(elts, vals):
                    if isinstance(e, ast.Name):
                        st = self.bind_local(st, e.id, v if v is not None else 'v:%s@%d' % (e.id, stmt.lineno))
                outs.append((st, consts))
            return outs
        if isinstance(stmt, ast.Assign) and isinstance(stmt.targets[0], ast.Tuple) and isinstance(stmt.value, ast.Tuple) \
                and len(stmt.targets[0].elts) == len(stmt.value.elts):
            outs = []
            for (st, consts) in self.effects(stmt.value, state):
                toks = [self.tok(v, st) for v in stmt.value.elts]
                for e, v in zip(stmt.targets[0].elts, toks):
                    if isinstance(e, ast.Name):
                        st = self.bind_local(st, e.id, v)
                outs.append((st, consts))
            return outs
        return super().transfer(stmt, state)

    def assume(self, test, truth, state):
        st, consts = state
        # `x == None` / `x is None` on a local with a known token
        if isinstance(test, ast.Compare) and len(test.ops) == 1 and isinstance(test.left, ast.Name) \
                and isinstance(test.comparators[0], ast.Constant) and test.comparators[0].value is None:
            name = test.left.id
            known = [t for (n, t) in st.env if n == name]
            tokv = known[0] if known else (self.ptok.get(name, 'v:' + name) if name in self.ptok else 'v:' + name)
            is_eq = isinstance(test.ops[0], (ast.Eq, ast.Is))
            if tokv is None:
                if is_eq != truth:
                    return None
            elif name in self.ptok or known:
                if isinstance(tokv, str) and not tokv.startswith('d:'):
                    if is_eq == truth:
                        return None
        r = super().assume(test, truth, (st, consts))
        return r

    def enter_loop(self, node, state):
        st, consts = state
        for n in ast.walk(node.target):
            if isinstance(n, ast.Name):
                st = self.bind_local(st, n.id, 'v:%s@%d' % (n.id, node.lineno))
        return super().enter_loop(node, (st, consts))

    def loop_may_skip(self, node, state):
        return not src(node.iter).startswith('range(6')

    MAX_STATES = 200


class SPAnalysis:
    def __init__(self, model):
        self.model = model
        self.sp = model.cls(SPM, 'SP')
        self._memo = {}
        self._stack = []
        self.recursions = []     # (cycle description)
        self.helper_calls = []
        self.stale_verdicts = []     # (method, return line, line of the validate() call whose verdict is returned after a later move)
        self.lambdas = {}
        for name, fi in self.sp.methods.items():
            d = {}
            for n in walk_own(fi.node):
                if isinstance(n, ast.Assign) and isinstance(n.value, ast.Lambda) and isinstance(n.targets[0], ast.Name):
                    d[n.targets[0].id] = n.value
            self.lambdas[fi.key] = d
        self._discover_caches()

    # ------------------------------------------------------------ caches of the plate-fixed joint tables
    def field_reads(self, fi, expr, seen=None):
        """self.<field> names an expression of method fi reads, through the method's local definitions."""
        seen = set() if seen is None else seen
        defs = self._defs.get(fi.key)
        if defs is None:
            defs = {}
            for n in walk_own(fi.node):
                if isinstance(n, ast.Assign):
                    for t in n.targets:
                        for x in (t.elts if isinstance(t, (ast.Tuple, ast.List)) else [t]):
                            b = x
                            while isinstance(b, ast.Subscript):
                                b = b.value
                            if isinstance(b, ast.Name):
                                defs.setdefault(b.id, []).append(n.value)
            self._defs[fi.key] = defs
            # a name bound once (a parameter, or one assignment) and stored whole into self.<f> IS that field's value
            al = {}
            for n in walk_own(fi.node):
                if isinstance(n, ast.Assign) and len(n.targets) == 1 and isinstance(n.targets[0], ast.Attribute) and self_field(n.targets[0]) \
                        and isinstance(n.value, ast.Name):
                    nm = n.value.id
                    nb = len(defs.get(nm, [])) + (1 if nm in fi.params else 0)
                    if nb == 1:
                        al.setdefault(nm, set()).add(self_field(n.targets[0]))
            self._aliases[fi.key] = al
        al = self._aliases.get(fi.key, {})
        out = set()
        for n in ast.walk(expr):
            if isinstance(n, ast.Name) and n.id in al:
                out |= al[n.id]
            if isinstance(n, ast.Attribute) and isinstance(n.value, ast.Name) and n.value.id == 'self':
                out.add(n.attr)
            elif isinstance(n, ast.Name) and n.id in defs and n.id not in seen:
                seen.add(n.id)
                for d in defs[n.id]:
                    out |= self.field_reads(fi, d, seen)
        return out

    def _discover_caches(self):
        """Instance fields that store a value computed only from the plate-fixed joint tables (directly or through another
        such field): {field: source fields}.  Fields recomputed by _IKHelper (they also depend on the pose) are not caches."""
        self._defs = {}
        self._aliases = {}
        stores = []
        for name, fi in self.sp.methods.items():
            for n in walk_own(fi.node):
                if isinstance(n, ast.Assign) and len(n.targets) == 1 and self_field(n.targets[0]) and isinstance(n.targets[0], ast.Attribute):
                    stores.append((fi, self_field(n.targets[0]), n.value))
        caches = {}
        roots = set(LOCAL)
        changed = True
        while changed:
            changed = False
            for fi, f, v in stores:
                if f in roots or f in DERIVED or f in (REL, POSE_B, POSE_T) or isinstance(v, ast.Constant):
                    continue
                reads = self.field_reads(fi, v)
                srcs = reads & (roots | set(caches))
                srcs.discard(f)
                # pure function of the tables: nothing else of the object's mutable kinematic state is read
                if srcs and not (reads & (set(DERIVED) | {REL, POSE_B, POSE_T})):
                    if not srcs <= caches.get(f, set()):
                        caches.setdefault(f, set()).update(srcs)
                        changed = True
        self.caches = caches

    def dependents(self, f):
        out, todo = set(), [f]
        while todo:
            x = todo.pop()
            for c, srcs in self.caches.items():
                if x in srcs and c not in out:
                    out.add(c)
                    todo.append(c)
        return out

    def summary(self, fi, st, consts, ptok):
        """exit states (shared part) of running fi from the object state `st` with constant / token bindings"""
        key = (fi.key, st.shared(), consts, tuple(sorted((k, v) for k, v in ptok.items() if v is None or not str(v).startswith('e'))))
        rkey = (fi.key, consts)
        if key in self._memo:
            return self._memo[key]
        if any(k == rkey for k in self._stack):
            chain = [k[0].split(':')[-1] for k in self._stack[[k for k in self._stack].index(rkey):]] + [fi.qualname]
            self.recursions.append((tuple(chain), dict(consts)))
            return set()      # a call that re-enters itself with the same bindings never returns normally
        self._stack.append(rkey)
        try:
            dom = SPDomain(self, fi, ptok)
            entry = St(st.sB, st.sT, st.dB, st.dT, st.rB, st.rT, st.dirty, frozenset(), st.tables)
            exits = Flow(dom).run(fi.body(), {(entry, consts)})
            outs = set()
            for e in exits:
                if e.kind in ('return', 'fall'):
                    st_e = e.state[0]
                    ret = None
                    for (n, t) in st_e.env:
                        if n == '$ret':
                            ret = t
                    outs.add((st_e.shared(), ret))
        finally:
            self._stack.pop()
        self._memo[key] = outs
        return outs

    def public_methods(self):
        out = []
        for name, fi in sorted(self.sp.methods.items()):
            if name.startswith('_') and name != '__init__':
                continue
            out.append(fi)
        return out

    def run_public(self, fi):
        """-> list of exit St for a coherent entry"""
        ptok = {}
        consts = set()
        for p in fi.params[1:]:
            d = fi.defaults.get(p)
            ptok[p] = 'p:%s' % p
            if d is not None and isinstance(d, ast.Constant) and d.value is None:
                ptok[p] = 'd:%s' % p      # may be None or a pose
        entry = St('B0', 'T0', 'B0', 'T0', 'B0', 'T0')
        self._stack = []
        dom = SPDomain(self, fi, ptok)
        rkey = (fi.key, frozenset())
        self._stack.append(rkey)
        try:
            exits = Flow(dom).run(fi.body(), {(entry, frozenset())})
        finally:
            self._stack.pop()
        return [e for e in exits if e.kind in ('return', 'fall')]
