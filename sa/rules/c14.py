"""C14 - value semantics: operators and queries neither mutate nor alias their operands.

Decided statically (E3: flow-sensitive may-alias / may-write analysis with interprocedural summaries):
  R14.1 non-mutation: for every function in the scope table, the set of parameters whose storage
        (array / payload) may be written is contained in the documented in-place targets.
  R14.2 fresh payload: the payload of what operators, copies and get-accessors of tm / Screw / Wrench /
        Twist return shares no storage with an operand.
  R14.3 defaults: a mutable default argument of the tm / Screw / Wrench / Twist constructors is never
        stored as payload, written or returned - a default-constructed object is fresh.
Scope (from the property): operators / inv / copy / get-accessors of the value classes; the
frame-conversion, distance, midpoint, gap-closing and path helpers of fsr; the Arm and SP
constructors (+ initialize); every function of the Modern Robotics port.
Documented exclusions (per symbol): __getitem__ views, frame/position metadata, Screw->Wrench
conversion constructor, changeFrame on its receiver, rotationFromVector on its first argument,
AngleMod / angleMod, joint clamping in FK (thetaProtector).
"""
import ast

from ..engine.model import AnalysisError, src
from ..engine.effects import Effects, PAYLOAD_FIELDS

GEN = 'basic_robotics.general.'
TM, SCREW, WRENCH, TWIST = GEN + 'faser_transform', GEN + 'faser_screw', GEN + 'faser_wrench', GEN + 'faser_twist'
FSR, HELP = GEN + 'faser_general', GEN + 'basic_helpers'
PORT = 'basic_robotics.modern_robotics_numba.modern_high_performance'
ARM = 'basic_robotics.kinematics.arm_model'
SPM = 'basic_robotics.kinematics.sp_model'

OPERATORS = ['__add__', '__radd__', '__sub__', '__rsub__', '__mul__', '__rmul__', '__matmul__', '__rmatmul__', '__truediv__',
             '__rtruediv__', '__floordiv__', '__rfloordiv__', '__abs__', '__eq__', '__ne__', '__lt__', '__le__', '__gt__', '__ge__', '__sum__']
COPIES = ['copy', 'inv', 'pinv', 'T', 'cT', 'spawnNew', 'toTM', 'toScrew']
GETTERS = {
    'tm': ['gRot', 'gTAA', 'gTM', 'gPos', 'getQuat', 'adjoint', 'exp6', 'approx', 'tripleUnit', '__str__'],
    'Screw': ['flatten', 'getData', 'getPitch', 'cross', 'dot', 'dualScalarMultiply', 'reshape', '__str__'],
    'Wrench': ['getMoment', 'getForce'],
    'Twist': ['twistMatrix'],
}
HELPERS_NOMUT = {
    HELP: ['localToGlobal', 'globalToLocal', 'TAAtoTM', 'TMtoTAA'],
    FSR: ['distance', 'arcDistance', 'poseError', 'geometricError', 'tmAvgMidpoint', 'tmInterpMidpoint', 'adjustRotationToMidpoint',
          'closeLinearGap', 'closeArcGap', 'IKPath', 'transformWrenchFrame', 'twistToGoal', 'planeFromThreePoints', 'mirror',
          'lookAt', 'getUnitVec', 'angleBetween', 'makeWrench', 'transformByVector', 'twistFromTransform'],
}
# documented in-place targets: (module, qualname) -> {param: reason}
ALLOWED_WRITES = {
    (SCREW, 'Screw.changeFrame'): {'self': 'documented in place on its receiver'},
    (WRENCH, 'Wrench.changeFrame'): {'self': 'documented in place on its receiver'},
    (FSR, 'rotationFromVector'): {'ref_point_1': 'documented in place on its first argument'},
    (PORT, 'AngleMod'): {'rad': 'documented in place'},
    (HELP, 'angleMod'): {'rad': 'documented in place'},
    (TM, 'tm.angleMod'): {'self': 'documented in place'},
    (ARM, 'Arm.thetaProtector'): {'theta': 'joint clamping, documented in place'},
    (ARM, 'Arm.FK'): {'theta': 'joint clamping in FK, documented in place'},
}
# results that are documented to be the operand itself
ALLOWED_ALIAS = {
    (SCREW, 'Screw.__getitem__'), (TM, 'tm.__getitem__'),
}


class Scope:
    def __init__(self, model):
        self.model = model
        self.nomut = []      # (FuncInfo, params to protect)
        self.fresh = []      # FuncInfo whose result payload must be fresh
        self.ctors = []      # constructors for R14.3

    def build(self):
        m = self.model
        classes = {'tm': m.cls(TM, 'tm'), 'Screw': m.cls(SCREW, 'Screw'), 'Wrench': m.cls(WRENCH, 'Wrench'), 'Twist': m.cls(TWIST, 'Twist')}
        for cname, ci in classes.items():
            for name in OPERATORS + COPIES + GETTERS.get(cname, []) + (GETTERS['Screw'] if cname in ('Wrench', 'Twist') else []):
                fi = ci.methods.get(name)
                if fi is None:
                    continue
                self.nomut.append((fi, list(fi.params)))
                if not name.startswith('__') or name in OPERATORS:
                    if name not in ('__eq__', '__ne__', '__lt__', '__le__', '__gt__', '__ge__', '__str__', '__sum__', 'getPitch', 'dot'):
                        self.fresh.append(fi)
            init = ci.methods.get('__init__')
            if init is not None:
                self.ctors.append(init)
                self.nomut.append((init, [p for p in init.params if p != 'self']))
        for mod, names in HELPERS_NOMUT.items():
            for n in names:
                fi = m.find_func(mod, n)
                if fi is None:
                    raise AnalysisError('anchor vanished: %s:%s' % (mod, n))
                self.nomut.append((fi, list(fi.params)))
        for fi in m.funcs_in(PORT):
            if fi.outer is None and fi.cls is None:
                self.nomut.append((fi, list(fi.params)))
        arm = m.cls(ARM, 'Arm')
        sp = m.cls(SPM, 'SP')
        for ci, names in ((arm, ['__init__', 'initialize']), (sp, ['__init__'])):
            for n in names:
                fi = ci.methods.get(n)
                if fi is None:
                    raise AnalysisError('anchor vanished: %s.%s' % (ci.name, n))
                self.nomut.append((fi, [p for p in fi.params if p != 'self']))
        return self


def check(model, rep):
    rep.extra['explanation'] = (
        'Flow-sensitive may-alias / may-write analysis (origins: parameter object, parameter payload, metadata; NumPy view/copy '
        'transfer table) with interprocedural summaries over the whole package; obligations: writes(f) within the documented '
        'in-place targets, result payload of operators/copies/accessors disjoint from operand storage, constructor defaults '
        'never escape.')
    rep.trusted_base.append('NumPy view/copy semantics table (sa/engine/alias.py, checked against NumPy 2.5); unknown external '
                            'callees read their arguments and return fresh storage')
    fx = Effects(model)
    sc = Scope(model).build()
    rep.rule('R14.1', 'no in-scope function writes storage of a parameter outside its documented in-place targets')
    rep.rule('R14.2', 'payload returned by operators / copies / get-accessors shares no storage with an operand')
    rep.rule('R14.3', 'mutable defaults of the value-class constructors never become payload, are never written or returned')
    seen = set()
    for fi, protect in sc.nomut:
        if fi.key in seen:
            continue
        seen.add(fi.key)
        s = fx.summary(fi)
        allowed = ALLOWED_WRITES.get((fi.module.name, fi.qualname), {})
        bad = {}
        for (p, kind), sites in s.writes.items():
            if kind == 'meta' or p not in protect or p in allowed:
                continue
            if p == 'self' and fi.name == '__init__':
                continue
            for node, how in sites:
                bad.setdefault((p, src(node)[:100] if not isinstance(node, ast.Call) else src(node)[:100]), (node.lineno, how))
        if bad:
            for (p, text), (line, how) in sorted(bad.items()):
                rep.ob('R14.1', fi, '%s <- %s' % (p, text), False, 'operand `%s` may be modified: %s' % (p, how), line=line)
        else:
            rep.ob('R14.1', fi, 'operands of %s' % fi.qualname, True, 'writes: %s' % (sorted({p for (p, k) in s.writes if k != 'meta'}) or 'none'))
    rep.count('functions under the non-mutation rule', len(seen))
    for fi in sc.fresh:
        if (fi.module.name, fi.qualname) in ALLOWED_ALIAS:
            continue
        s = fx.summary(fi)
        shared = sorted({p for (p, k) in s.ret_pay if k in ('pay', 'obj')})
        # returning the receiver itself is only acceptable for documented in-place methods
        rep.ob('R14.2', fi, 'result payload of %s' % fi.qualname, not shared,
               'the returned value (or its payload) may share storage with operand(s) %s: changing the result changes the source' % shared)
    rep.count('functions under the fresh-result rule', len(sc.fresh))
    n_def = 0
    for init in sc.ctors:
        s = fx.summary(init)
        for p, d in init.defaults.items():
            if not fx.__class__ or isinstance(d, ast.Constant):
                continue
            n_def += 1
            esc = [(node, how) for (pp, node, how) in s.default_escapes if pp == p]
            stored = [fld for fld, origs in s.stores.items() if (p, 'pay') in origs and fld in PAYLOAD_FIELDS]
            written = [(n_, h) for (pp, k), sites in s.writes.items() if pp == p and k != 'meta' for (n_, h) in sites]
            ok = not stored and not written
            msg = ''
            if stored:
                msg = 'the default `%s=%s` (evaluated once) becomes the payload self.%s of every default-constructed object: they share storage' % (p, src(d), stored[0])
            elif written:
                msg = 'the shared default `%s` is written: %s' % (p, written[0][1])
            rep.ob('R14.3', init, 'default %s=%s' % (p, src(d)[:40]), ok, msg or 'does not escape into payload')
    rep.count('mutable constructor defaults examined', n_def)
    rep.floor('R14.1', 'functions in scope', len(seen), 120)
    handed_rule(model, rep, fx)


CLAMP_HOWS = ('callee Arm.thetaProtector writes', 'callee Arm.FK writes', 'callee Arm.FKLink writes', 'callee Arm.FKJoint writes')


def handed_rule(model, rep, fx):
    """R14.4: an array a robot method hands to a ported Modern Robotics function is not altered by that method afterwards - neither
    directly nor through what the function returned (a solver that returns its start vector unchanged on a path makes every later
    in-place step of the caller, e.g. the documented in-place angle wrapping, a write to the caller's array).  The may-alias summaries of
    the callees carry the result -> argument aliases, including through tuple results."""
    rep.rule('R14.4', 'robot methods never alter (directly or through a result alias) an array parameter they hand to a ported Modern '
                      'Robotics function, joint clamping excepted')
    n = 0
    for mod, cname in ((ARM, 'Arm'), (SPM, 'SP')):
        ci = model.cls(mod, cname)
        for fi in ci.methods.values():
            handed = {}
            for c in ast.walk(fi.node):
                if not isinstance(c, ast.Call):
                    continue
                r = model.resolve_call(fi, c)
                if r is None or r[0] != 'func' or r[1].module.name != PORT:
                    continue
                for a in list(c.args) + [k.value for k in c.keywords]:
                    b = a
                    while isinstance(b, (ast.Attribute, ast.Subscript)) or (isinstance(b, ast.Call) and isinstance(b.func, ast.Attribute)
                                                                            and b.func.attr in ('reshape', 'ravel', 'squeeze', 'view')):
                        b = b.func.value if isinstance(b, ast.Call) else b.value
                    if isinstance(b, ast.Name) and b.id in fi.params and b.id != 'self':
                        handed.setdefault(b.id, (r[1].qualname, c.lineno))
            if not handed:
                continue
            s = fx.summary(fi)
            for p, (callee, line) in sorted(handed.items()):
                n += 1
                if p in ALLOWED_WRITES.get((mod, fi.qualname), {}):
                    rep.ob('R14.4', fi, '%s handed to %s' % (p, callee), True, 'documented in-place target: ' + ALLOWED_WRITES[(mod, fi.qualname)][p])
                    continue
                sites = [(node, how) for (pp, k), ss in s.writes.items() if pp == p and k != 'meta' for (node, how) in ss
                         if not how.startswith(CLAMP_HOWS)]
                if sites:
                    node, how = sites[0]
                    rep.ob('R14.4', fi, '%s handed to %s' % (p, callee), False,
                           'the array `%s` handed to %s (line %d) is altered by the method: %s' % (p, callee, line, how), line=node.lineno)
                else:
                    rep.ob('R14.4', fi, '%s handed to %s' % (p, callee), True, 'not written outside joint clamping')
    rep.count('array parameters handed to ported functions by robot methods', n)
    rep.floor('R14.4', 'parameters handed to ported functions', n, 8)
