"""C15 - the planner's obstruction test equals exact segment-versus-box intersection.

Decided statically by schema conformance in the exact polynomial domain (E9): the body of the
obstruction loop is interpreted over symbols p1_i, p2_i (segment end points), c_i (box centre)
and h_i >= 0 (half extents; lo = c - h, hi = c + h).  The path that reports `obstructed` must be
guarded by exactly the six NEGATED separating-axis inequalities
    |m_i| > h_i + |L_i|                       i = 0,1,2
    |m_i L_j - m_j L_i| > h_i |L_j| + h_j |L_i|   (i,j) = (1,2),(0,2),(0,1)
(m = segment midpoint - centre, L = half segment vector up to sign), each strict, nothing else;
every other path of an iteration moves on to the next box; after the loop `False`.  The
separating-axis theorem for a segment and an axis-aligned box (trusted base) then gives
exactness for every segment and box set, boundary contact included.  Also: addObstruction stores
(first argument, second argument) as the (min, max) corners component-wise.
Not decided: floating-point rounding at contact within 1e-9.
"""
import ast
from fractions import Fraction

from ..engine.model import AnalysisError, src, walk_own
from ..engine.flow import Flow
from ..engine.typestate import FactDomain
from ..engine.poly import Poly, pabs
from ..engine.inline import norm_text

MOD = 'basic_robotics.path_planning.pathplanner'


class Uninterp(Exception):
    pass


class Obj:
    def __init__(self, kind):
        self.kind = kind   # 'p1' | 'p2' | 'lo' | 'hi'

    def comp(self, k):
        if self.kind in ('p1', 'p2'):
            return Poly.sym('%s_%d' % (self.kind, k))
        c, h = Poly.sym('c_%d' % k), Poly.sym('h_%d' % k)
        return c - h if self.kind == 'lo' else c + h


class Interp:
    def __init__(self, n1, n2, boxvar):
        self.n1, self.n2, self.boxvar = n1, n2, boxvar
        self.env = {}

    def ev(self, e):
        if isinstance(e, ast.Constant) and (e.value is None or isinstance(e.value, (str, bool))):
            return ('opaque', repr(e.value))
        if isinstance(e, ast.Constant) and isinstance(e.value, (int, float)) and not isinstance(e.value, bool):
            return Poly.const(Fraction(str(e.value)))
        if isinstance(e, ast.Name):
            if e.id in self.env:
                if isinstance(self.env[e.id], tuple) and self.env[e.id] and self.env[e.id][0] == 'opaque':
                    raise Uninterp('value of %s is not a number or a vector' % e.id)
                return self.env[e.id]
            raise Uninterp('unknown name ' + e.id)
        if isinstance(e, ast.UnaryOp) and isinstance(e.op, ast.USub):
            return self.neg(self.ev(e.operand))
        if isinstance(e, ast.BinOp):
            a, b = self.ev(e.left), self.ev(e.right)
            return self.binop(e.op, a, b)
        if isinstance(e, ast.Call):
            f = e.func
            if isinstance(f, ast.Attribute) and f.attr == 'getPosition' and isinstance(f.value, ast.Name) and not e.args:
                if f.value.id == self.n1:
                    return Obj('p1')
                if f.value.id == self.n2:
                    return Obj('p2')
            fn = src(f)
            if fn in ('np.array', 'numpy.array', 'np.asarray') and e.args:
                return self.ev(e.args[0])
            if fn in ('np.abs', 'abs', 'np.absolute', 'np.fabs') and len(e.args) == 1:
                v = self.ev(e.args[0])
                return [pabs(x) for x in v] if isinstance(v, list) else pabs(self.scalar(v))
            if isinstance(f, ast.Attribute) and f.attr in ('reshape', 'flatten', 'copy', 'squeeze', 'ravel', 'astype'):
                return self.vec(self.ev(f.value))
            if isinstance(f, ast.Attribute) and f.attr == 'gTAA':
                return self.ev(f.value)
            raise Uninterp('call ' + src(e)[:60])
        if isinstance(e, (ast.List, ast.Tuple)):
            return [self.scalar(self.ev(x)) for x in e.elts]
        if isinstance(e, ast.Subscript):
            # box[0] / box[1]
            if isinstance(e.value, ast.Name) and e.value.id == self.boxvar and isinstance(e.slice, ast.Constant):
                if e.slice.value == 0:
                    return Obj('lo')
                if e.slice.value == 1:
                    return Obj('hi')
                raise Uninterp('box component %r' % e.slice.value)
            base = self.ev(e.value)
            sl = e.slice
            if isinstance(sl, ast.Constant) and isinstance(sl.value, int):
                k = sl.value
                if isinstance(base, Obj):
                    if 0 <= k <= 2:
                        return base.comp(k)
                    raise Uninterp('rotation component of a pose used')
                if isinstance(base, list) and 0 <= k < len(base):
                    return base[k]
            if isinstance(sl, ast.Slice):
                lo = 0 if sl.lower is None else sl.lower.value
                hi = sl.upper.value if sl.upper is not None else None
                if (lo, hi) == (0, 3) and sl.step is None:
                    return self.vec(base)
            raise Uninterp('subscript ' + src(e))
        raise Uninterp('expression ' + src(e)[:60])

    def vec(self, v):
        if isinstance(v, Obj):
            return [v.comp(k) for k in range(3)]
        if isinstance(v, list) and len(v) == 3:
            return v
        raise Uninterp('not a 3-vector')

    def scalar(self, v):
        if isinstance(v, Poly):
            return v
        raise Uninterp('not a scalar')

    def neg(self, v):
        return [-x for x in v] if isinstance(v, list) else -self.scalar(v)

    def binop(self, op, a, b):
        if isinstance(a, Obj):
            a = self.vec(a)
        if isinstance(b, Obj):
            b = self.vec(b)

        def one(x, y):
            if isinstance(op, ast.Add):
                return x + y
            if isinstance(op, ast.Sub):
                return x - y
            if isinstance(op, ast.Mult):
                return x * y
            if isinstance(op, ast.Div):
                try:
                    return x / y
                except ValueError as e:
                    raise Uninterp(str(e))
            if isinstance(op, ast.Pow):
                try:
                    return x ** y
                except ValueError as e:
                    raise Uninterp(str(e))
            raise Uninterp('operator ' + type(op).__name__)
        if isinstance(op, ast.MatMult) and isinstance(a, list) and isinstance(b, list) and len(a) == len(b):
            tot = a[0] * b[0]
            for x, y in zip(a[1:], b[1:]):
                tot = tot + x * y
            return tot
        if isinstance(a, list) and isinstance(b, list):
            if len(a) != len(b):
                raise Uninterp('shape mismatch')
            return [one(x, y) for x, y in zip(a, b)]
        if isinstance(a, list):
            return [one(x, b) for x in a]
        if isinstance(b, list):
            return [one(a, y) for y in b]
        return one(a, b)


def expected_guards():
    Poly.NONNEG = {'h_0', 'h_1', 'h_2'}
    m = [(Poly.sym('p1_%d' % i) + Poly.sym('p2_%d' % i)) / 2 - Poly.sym('c_%d' % i) for i in range(3)]
    L = [(Poly.sym('p1_%d' % i) - Poly.sym('p2_%d' % i)) / 2 for i in range(3)]
    h = [Poly.sym('h_%d' % i) for i in range(3)]
    exp = {}
    for i in range(3):
        exp[(pabs(m[i]), h[i] + pabs(L[i]))] = 'box axis %d: |m_%d| > h_%d + |L_%d|' % (i, i, i, i)
    for i, j in ((1, 2), (0, 2), (0, 1)):
        exp[(pabs(m[i] * L[j] - m[j] * L[i]), h[i] * pabs(L[j]) + h[j] * pabs(L[i]))] = \
            'cross axis e_%d: |m_%d L_%d - m_%d L_%d| > h_%d |L_%d| + h_%d |L_%d|' % (3 - i - j, i, j, j, i, i, j, j, i)
    return exp


def check(model, rep):
    rep.extra['explanation'] = (
        'The obstruction loop body is interpreted into exact polynomials over the segment end points and the box '
        '(centre, half extents); the set of conditions guarding `return True` must be identical, as normal forms, to the '
        'six negated separating-axis inequalities for a segment and an axis-aligned box. Exactness for all inputs then '
        'follows from the separating-axis theorem.')
    rep.trusted_base.append('separating-axis theorem for a segment and an AABB (closed sets): they are disjoint iff one of the '
                            '3 face normals or 3 edge cross products separates them')
    rep.rule('R15.1', 'conditions guarding `obstructed` are exactly the six negated, strict separating-axis inequalities')
    rep.rule('R15.2', 'control skeleton: one loop over all registered boxes, reject => next box, loop exit => False')
    rep.rule('R15.3', 'addObstruction stores (first arg, second arg) as (min corner, max corner) component-wise')
    Poly.NONNEG = {'h_0', 'h_1', 'h_2'}
    cls = model.cls(MOD, 'RRTStar')
    fi = cls.methods.get('obstruction')
    if fi is None:
        raise AnalysisError('anchor vanished: RRTStar.obstruction')
    n1, n2 = fi.params[1], fi.params[2]
    # the method with its private helpers inlined, constant-trip loops unrolled and constant comprehensions expanded (AST partial
    # evaluation, nothing is run): the rule speaks about the computation, not about how it is split into helpers and loops
    from ..engine import peval as _pe
    from ..engine.paths import paths_of_block
    flat = _pe.flatten({n_: f_.node for n_, f_ in cls.methods.items()}, fi.node, depth=2, impure=True, consts=_pe.class_constants(cls.node))
    body = [s_ for s_ in flat.body if not (isinstance(s_, ast.Expr) and isinstance(s_.value, ast.Constant))]
    loops = [s for s in body if isinstance(s, ast.For)]
    if len(loops) != 1:
        raise AnalysisError('RRTStar.obstruction: expected one loop over the obstructions')
    lp = loops[0]
    ok_iter = src(lp.iter) == 'self.obstructions' and isinstance(lp.target, ast.Name)
    rep.ob('R15.2', fi, 'for %s in %s' % (src(lp.target), src(lp.iter)), ok_iter,
           'the test does not iterate over all registered obstructions', line=lp.lineno)
    k_lp = body.index(lp)
    after = body[k_lp + 1:]
    exits_after = [n for s_ in after for n in ast.walk(s_) if isinstance(n, (ast.Return, ast.Raise))]
    ok_after = bool(after) and len(exits_after) == 1 and exits_after[0] is after[-1] and isinstance(after[-1], ast.Return) \
        and isinstance(after[-1].value, ast.Constant) and after[-1].value.value is False
    rep.ob('R15.2', fi, 'return False after the loop', ok_after and not lp.orelse,
           'when no box intersects, the function does not return False')
    # before the loop: only the empty-set shortcut `if not self.obstructions: return False` may leave the function
    for s_ in body[:k_lp]:
        for n in ast.walk(s_):
            if isinstance(n, (ast.Return, ast.Raise)):
                guard = s_.test if isinstance(s_, ast.If) else None
                gtxt = src(guard).replace(' ', '') if guard is not None else ''
                ok_g = isinstance(n, ast.Return) and isinstance(n.value, ast.Constant) and n.value.value is False and gtxt in (
                    'notself.obstructions', 'len(self.obstructions)==0', 'self.obstructions==[]', 'notlen(self.obstructions)')
                rep.ob('R15.2', fi, 'exit before the loop: ' + src(s_)[:60], ok_g,
                       'the function can return before testing the boxes (other than `no boxes -> False`)', line=n.lineno)
    it = Interp(n1, n2, lp.target.id if isinstance(lp.target, ast.Name) else '?')
    try:
        # values named once before the loop (hoisted node positions) are part of what one round computes
        hoisted = [s_ for s_ in body[:k_lp] if isinstance(s_, ast.Assign)]
        ends, brks, exits = paths_of_block(hoisted + list(lp.body), fi.params)
    except RuntimeError as ex:
        raise AnalysisError('RRTStar.obstruction is no longer separating-axis-shaped (%s)' % ex)
    rets = [e for e in exits if e.kind == 'return']
    true_rets = [e for e in rets if e.ret == 'True']
    other_rets = [e for e in rets if e.ret != 'True']
    rep.ob('R15.2', fi, 'returns inside the loop', bool(true_rets) and not other_rets and not brks,
           'inside the loop the only exit may be `return True` (found %d other returns, %d breaks)' % (len(other_rets), len(brks)), line=lp.lineno)
    exp = expected_guards()
    n_guards = 0
    if len(true_rets) != 1:
        rep.ob('R15.1', fi, 'single accepting path', False,
               '%d distinct paths report an obstruction; exactly one (all six axes fail to separate) is expected' % len(true_rets), line=lp.lineno)
    for e in true_rets[:1]:
        seen = {}
        for text, truth in sorted(e.facts.items()):
            try:
                node = ast.parse(e.fact_src.get(text, text), mode='eval').body
            except SyntaxError:
                node = None
            if not isinstance(node, ast.Compare) or len(node.ops) != 1:
                rep.ob('R15.1', fi, 'extra condition: ' + text[:80], False,
                       'the accepting path depends on a condition that is not a separating-axis test', line=e.ret_line)
                continue
            op = node.ops[0]
            l, r = node.left, node.comparators[0]
            # normalise to NOT(A > B)
            form = None
            if truth is False and isinstance(op, ast.Gt):
                form = (l, r)
            elif truth is False and isinstance(op, ast.Lt):
                form = (r, l)
            elif truth is True and isinstance(op, ast.LtE):
                form = (l, r)
            elif truth is True and isinstance(op, ast.GtE):
                form = (r, l)
            n_guards += 1
            if form is None:
                strictness = isinstance(op, (ast.GtE, ast.LtE)) and truth is False or isinstance(op, (ast.Gt, ast.Lt)) and truth is True
                rep.ob('R15.1', fi, 'guard ' + text[:100], False,
                       ('box is rejected already on equality (`>=`): boundary contact would count as free' if strictness
                        else 'condition is not of the form NOT(lhs > rhs)'), line=e.ret_line)
                continue
            # a sound extra rejection: bounding spheres |m| > |h| + |L| (written with vector norms)
            def norm_arg(e_):
                if isinstance(e_, ast.Call) and src(e_.func) in ('np.linalg.norm', 'mr.Norm', 'fmr.Norm', 'ling.norm') and len(e_.args) == 1:
                    try:
                        v_ = it.ev(e_.args[0])
                    except Uninterp:
                        return None
                    if isinstance(v_, Obj):
                        v_ = it.vec(v_)
                    return v_ if isinstance(v_, list) and len(v_) == 3 else None
                return None

            def same_up_to_sign(u, v):
                return u == v or u == [-x for x in v]
            nl = norm_arg(form[0])
            if nl is not None and isinstance(form[1], ast.BinOp) and isinstance(form[1].op, ast.Add):
                n1_, n2_ = norm_arg(form[1].left), norm_arg(form[1].right)
                M_ = [(Poly.sym('p1_%d' % i_) + Poly.sym('p2_%d' % i_)) / 2 - Poly.sym('c_%d' % i_) for i_ in range(3)]
                L_ = [(Poly.sym('p1_%d' % i_) - Poly.sym('p2_%d' % i_)) / 2 for i_ in range(3)]
                H_ = [Poly.sym('h_%d' % i_) for i_ in range(3)]
                if n1_ is not None and n2_ is not None and same_up_to_sign(nl, M_) and (
                        (same_up_to_sign(n1_, H_) and same_up_to_sign(n2_, L_)) or (same_up_to_sign(n1_, L_) and same_up_to_sign(n2_, H_))):
                    rep.ob('R15.1', fi, 'bounding-sphere pre-rejection ' + text[:70], True, 'sound: |m| > |h| + |L| implies disjoint', line=e.ret_line)
                    continue
            try:
                A = it.scalar(it.ev(form[0]))
                B = it.scalar(it.ev(form[1]))
            except Uninterp as ex:
                raise AnalysisError('RRTStar.obstruction is no longer separating-axis-shaped (guard %s: %s)' % (text[:60], ex))
            key = (A, B)
            if key in exp:
                if key in seen:
                    rep.ob('R15.1', fi, 'guard ' + text[:100], False, 'duplicate of the test for %s (another axis is missing)' % exp[key], line=e.ret_line)
                else:
                    seen[key] = text
                    rep.ob('R15.1', fi, exp[key], True, 'matches: ' + text[:100], line=e.ret_line)
            else:
                rep.ob('R15.1', fi, 'guard ' + text[:100], False,
                       'not a separating-axis inequality of this segment/box: lhs = %s ; rhs = %s' % (A, B), line=e.ret_line)
        for key, name in exp.items():
            if key not in seen:
                rep.ob('R15.1', fi, name, False, 'this separating axis is never tested on the accepting path (segments separated '
                       'only along it are reported as obstructed)', line=lp.lineno)
    rep.floor('R15.1', 'rejecting guards recognised', n_guards, 4)
    # R15.4 the set of registered boxes belongs to one planner
    rep.rule('R15.4', 'each planner owns its obstruction list: __init__ binds self.obstructions to a fresh list on every path (not to a mutable default '
                      'argument / class attribute shared between instances); only addObstruction adds to it')
    ini = cls.methods.get('__init__')
    if ini is None:
        raise AnalysisError('anchor vanished: RRTStar.__init__')
    il_i = Inliner(ini) if False else None
    stores_i = [n for n in walk_own(ini.node) if isinstance(n, ast.Assign) and any(src(t) == 'self.obstructions' for t in n.targets)]
    rep.ob('R15.4', ini, 'self.obstructions initialised by the constructor', bool(stores_i),
           'the constructor does not create the obstruction list (a class-level list would be shared by every planner)')

    def fresh(e, depth=0):
        """the value is a new container on every call"""
        if isinstance(e, (ast.List, ast.ListComp, ast.Tuple)):
            return True
        if isinstance(e, ast.Call) and isinstance(e.func, ast.Name) and e.func.id in ('list', 'tuple', 'sorted'):
            return True
        if isinstance(e, ast.Call) and isinstance(e.func, ast.Attribute) and e.func.attr == 'copy' and not e.args:
            return True
        if isinstance(e, ast.Call) and src(e.func) in ('copy.copy', 'copy.deepcopy'):
            return True
        if isinstance(e, ast.IfExp):
            return fresh(e.body, depth) and fresh(e.orelse, depth)
        if isinstance(e, ast.BoolOp) and isinstance(e.op, ast.Or):
            return fresh(e.values[-1], depth)          # `given or []` : the fall-back is fresh; a given list is the caller's own
        return False
    for st_ in stores_i:
        v_ = st_.value
        shared_default = None
        if isinstance(v_, ast.Name) and v_.id in ini.params:
            d_ = ini.defaults.get(v_.id)
            rebinds = [n for n in walk_own(ini.node) if isinstance(n, ast.Assign) and any(isinstance(t, ast.Name) and t.id == v_.id for t in n.targets)]
            if d_ is not None and isinstance(d_, (ast.List, ast.Dict, ast.Set, ast.Call, ast.ListComp)) and not rebinds:
                shared_default = src(d_)
        ok_ = fresh(v_) or (isinstance(v_, ast.Name) and shared_default is None)
        rep.ob('R15.4', ini, src(st_)[:70], ok_,
               ('the list is the default value %s of parameter `%s`, created once when the class is defined: every planner built without that argument '
                'shares it, so boxes added to one planner obstruct segments in another' % (shared_default, src(v_))) if shared_default else
               'self.obstructions is bound to %s, which is not a list created for this instance' % src(v_), line=st_.lineno)
    cls_level = [n for n in cls.node.body if isinstance(n, (ast.Assign, ast.AnnAssign)) and 'obstructions' in src(n).split('=')[0]]
    rep.ob('R15.4', ini, 'no class-level obstruction list', not cls_level, 'a class attribute `obstructions` is shared by all planners', line=cls_level[0].lineno if cls_level else None)
    # R15.5 the corners the test reads are the corners that were registered: addObstruction builds them with the six-vector constructor
    rep.rule('R15.5', 'box corners are stored as given: the six-vector constructor of tm that addObstruction uses leaves the translation rows it '
                      'stored untouched (nothing it calls wraps or rewrites rows 0..2), and indexing reads the six-vector')
    from .tmrows import rotation_only, taa_element_stores
    tmc = model.cls('basic_robotics.general.faser_transform', 'tm')
    f6 = tmc.methods.get('from6DOF')
    gi = tmc.methods.get('__getitem__')
    if f6 is None or gi is None:
        raise AnalysisError('anchor vanished: tm.from6DOF / tm.__getitem__')
    rotation_only(rep, 'R15.5', tmc, f6, 'tm.from6DOF', 'corner coordinates of magnitude 2*pi or more are stored somewhere else than given: the '
                  'obstruction test then answers for a displaced box')
    # which entries of the argument reach rows 0..2 (element-flow evaluation of the constructor form, both values of the rpy flag)
    from ..engine.elemflow import ElemEval, show as eshow
    tm_methods = {n_: f_.node for n_, f_ in tmc.methods.items()}
    for flag in (False, True):
        ev_ = ElemEval(tm_methods, f6.params[1], {f6.params[2]: flag} if len(f6.params) > 2 else {})
        ev_.block(f6.body(), {})
        got = ev_.stores.get('self.TAA', ('unk', 'no store'))
        ok = got[0] == 'lst' and len(got[1]) == 6 and tuple(got[1][:3]) == tuple(('el', (k,)) for k in range(3))
        rep.ob('R15.5', f6, 'six-vector rows 0..2 = entries 0..2 of the argument (rpy=%s)' % flag, ok, 'the six-vector becomes %s' % eshow(got))
    from .c04 import payload_fresh
    payload_fresh(rep, 'R15.5', tmc, 'node poses built as copies of one template and then moved all read the last coordinates written: the test answers '
                  'for another segment')
    reads = [norm_text(r.value) for r in ast.walk(gi.node) if isinstance(r, ast.Return) and r.value is not None]
    rep.ob('R15.5', gi, 'indexing reads the six-vector', bool(reads) and all(t.startswith('self.TAA[') for t in reads), 'tm.__getitem__ returns %s' % reads)
    # R15.6 the end points the test reads are the positions the nodes were given
    rep.rule('R15.6', 'a node keeps the position it is given: PathNode.__init__ binds self.position to its argument (or a copy) on every path - never '
                      'to tm(argument), which reads a 3-sequence as a rotation - and getPosition returns that field')
    pn = model.cls(cls.module.name, 'PathNode')
    if pn is None or '__init__' not in pn.methods:
        raise AnalysisError('anchor vanished: PathNode.__init__')
    pini = pn.methods['__init__']
    ppos = pini.params[1] if len(pini.params) > 1 else None
    if ppos is None:
        raise AnalysisError('PathNode.__init__ lost its position parameter')
    from ..engine.paths import paths_of as _paths156
    same_forms = {ppos, ppos + '.copy()', 'copy.copy(%s)' % ppos, 'copy.deepcopy(%s)' % ppos, 'deepcopy(%s)' % ppos}
    n_st = 0
    for pth in _paths156(pini.node, pini.params):
        sts = [e for e in pth.events if e[0] == 'store' and e[1] == 'self.position']
        if not sts:
            rep.ob('R15.6', pini, 'self.position bound on every path', False, 'a path through PathNode.__init__ leaves self.position unset', shape=True)
            continue
        n_st += 1
        # a conditional expression stores one of its arms: each arm is judged under its own condition
        def _arms(txt, facts):
            try:
                e_ = ast.parse(txt, mode='eval').body
            except SyntaxError:
                return [(txt, facts)]
            if isinstance(e_, ast.IfExp):
                t_ = ast.unparse(e_.test)
                return _arms(ast.unparse(e_.body), dict(facts, **{t_: True})) + _arms(ast.unparse(e_.orelse), dict(facts, **{t_: False}))
            return [(txt, facts)]
        for val, facts_ in _arms(sts[-1][3], dict(pth.facts)):
          val = val.replace(' ', '') if val.replace(' ', '') in same_forms | {'None'} or val.replace(' ', '').startswith('tm(') else val
          none_path = any((k.replace(' ', '') in ('%sisNone' % ppos, '%s==None' % ppos) and v) or
                          (k.replace(' ', '') in ('%sisnotNone' % ppos, '%s!=None' % ppos) and v is False) for k, v in facts_.items())
          pth_facts = facts_
          if val in same_forms or (val == 'None' and none_path):
              rep.ob('R15.6', pini, 'self.position = the given position', True, val, line=sts[-1][2])
          elif val in ('tm(%s)' % ppos, 'tm(%s.copy())' % ppos, 'tm(%s).copy()' % ppos):
              sized = any(('len(%s)' % ppos) in k or (ppos + '.shape') in k or (ppos + '.size') in k or ('np.shape(%s)' % ppos) in k for k in pth_facts)
              rep.ob('R15.6', pini, 'self.position = the given position', False,
                     'for an argument that is not a tm the node stores %s: the general constructor reads a 3-sequence as a ROTATION (and a 3x1 likewise), so a node '
                     'given the point [x, y, z] - which the separating-axis test, the distance function and the 3-d tree all read by components 0..2 - lands at the '
                     'origin and every obstruction query about it answers for another segment' % val, shape=sized, line=sts[-1][2])
          else:
              rep.ob('R15.6', pini, 'self.position = the given position', False, 'self.position is bound to %s, not to the argument or a copy of it' % val[:80],
                     shape=True, line=sts[-1][2])
    rep.floor('R15.6', 'paths of PathNode.__init__ binding the position', n_st, 1)
    gp = pn.methods.get('getPosition')
    if gp is not None:
        rets_gp = [norm_text(r.value) for r in ast.walk(gp.node) if isinstance(r, ast.Return) and r.value is not None]
        rep.ob('R15.6', gp, 'getPosition returns the stored position', bool(rets_gp) and all(t in ('self.position', 'self.position.copy()') for t in rets_gp),
               'getPosition returns %s' % rets_gp)
    writers = set()
    removers = set()
    for f_ in model.all_funcs:
        for n in walk_own(f_.node):
            if isinstance(n, ast.Call) and isinstance(n.func, ast.Attribute) and n.func.attr in ('append', 'extend', 'insert', 'remove', 'pop', 'clear') \
                    and isinstance(n.func.value, ast.Attribute) and n.func.value.attr == 'obstructions':
                writers.add(f_.qualname)
            if isinstance(n, (ast.Assign, ast.AugAssign)) and any(isinstance(t, ast.Attribute) and t.attr == 'obstructions'
                                                                   for t in (n.targets if isinstance(n, ast.Assign) else [n.target])):
                writers.add(f_.qualname)
            # removing or replacing registered boxes: `del x.obstructions[...]`, `x.obstructions[...] = ...`
            if isinstance(n, ast.Delete) and any(isinstance(b_, ast.Attribute) and b_.attr == 'obstructions' for t in n.targets for b_ in ast.walk(t)):
                removers.add(f_.qualname)
            if isinstance(n, (ast.Assign, ast.AugAssign)) and any(isinstance(t, ast.Subscript) and isinstance(t.value, ast.Attribute) and t.value.attr == 'obstructions'
                                                                   for t in (n.targets if isinstance(n, ast.Assign) else [n.target])):
                removers.add(f_.qualname)
            if isinstance(n, ast.Call) and isinstance(n.func, ast.Attribute) and n.func.attr in ('remove', 'pop', 'clear') \
                    and isinstance(n.func.value, ast.Attribute) and n.func.value.attr == 'obstructions':
                removers.add(f_.qualname)
    rep.ob('R15.4', ini, 'writers of the obstruction list', writers <= {'RRTStar.__init__', 'RRTStar.addObstruction'},
           'the obstruction list is also written by %s' % sorted(writers - {'RRTStar.__init__', 'RRTStar.addObstruction'}))
    rep.ob('R15.4', ini, 'registered boxes are never removed or replaced', not removers,
           '%s deletes / overwrites entries of the obstruction list: a box the caller registered is no longer part of the set the test runs over (the '
           'answer is "free" for segments that hit it), whatever else was appended in between' % sorted(removers))
    # R15.3 addObstruction
    ao = cls.methods.get('addObstruction')
    if ao is None:
        raise AnalysisError('anchor vanished: RRTStar.addObstruction')
    Lp, Rp = ao.params[1], ao.params[2]
    from ..engine.inline import Inliner, norm_text as _nt15
    from ..engine import peval as _pe15
    from ..engine.paths import paths_of as _paths15
    ao_flat = _pe15.flatten({n_: f_.node for n_, f_ in cls.methods.items()}, ao.node, depth=2, impure=True)
    apps = [c for c in ast.walk(ao_flat) if isinstance(c, ast.Call) and isinstance(c.func, ast.Attribute) and c.func.attr == 'append'
            and src(c.func.value) == 'self.obstructions']
    ok = False
    msg = 'addObstruction does not append [tm(corner), tm(opposite corner)] of the box it is given'
    il_ao = Inliner(ao, node=ao_flat)
    pair = il_ao.expand(apps[0].args[0]) if (len(apps) == 1 and apps[0].args) else None      # corners may be named temporaries
    if pair is not None and isinstance(pair, (ast.List, ast.Tuple)) and len(pair.elts) == 2:
        lits = []
        for el in pair.elts:
            lit = None
            for n in ast.walk(el):
                if isinstance(n, ast.List) and len(n.elts) >= 3:
                    lit = n
                    break
            lits.append(lit)
        if all(l_ is not None for l_ in lits):
            ok = True
            for k in range(3):
                got = {_nt15(_pe15._fold(il_ao.expand(lits[0].elts[k]))), _nt15(_pe15._fold(il_ao.expand(lits[1].elts[k])))}
                raw = {'%s[%d]' % (Lp, k), '%s[%d]' % (Rp, k)}
                r0, r1 = sorted(raw)
                mm = [{'min(%s,%s)' % xy, 'max(%s,%s)' % uv} for xy in ((r0, r1), (r1, r0)) for uv in ((r0, r1), (r1, r0))]
                # the test only uses the midpoint and the absolute half extents: which corner holds which end of an axis is immaterial
                if got != raw and got not in mm:
                    ok = False
                    msg = 'along axis %d the stored corners hold %s; expected the two ends %s of the given box (in either order, or as min / max)' % (k, sorted(got), sorted(raw))
    rep.ob('R15.3', ao, 'self.obstructions.append([corner(%s), corner(%s)])' % (Lp, Rp), ok, msg)
    # ... and every box handed in is stored: exactly one append on every path through addObstruction
    counts = []
    for pth in _paths15(ao_flat, ao.params):
        n_app = len(pth.calls(lambda t: t == 'self.obstructions.append'))
        counts.append((n_app, sorted(pth.facts.items())[:2]))
    bad_paths = [c_ for c_ in counts if c_[0] != 1]
    rep.ob('R15.3', ao, 'every registered box is stored (one append on every path)', bool(counts) and not bad_paths,
           'a path through addObstruction stores %s boxes (conditions %s): a box the caller registered is not part of the set the test runs over'
           % ((bad_paths[0][0], bad_paths[0][1]) if bad_paths else ('?', '?')))
