"""C09 - Stewart platform: IK is exact geometry and FK inverts it.

Decided statically:
  R09.1 IK kernel sibling symmetry: in SPIKinSpace the bottom and the top joint statements are the same
        statement under bottom<->top, each applies ITS OWN plate transform to ITS OWN plate-fixed joint
        column i, the length of leg i is the norm of their difference with the same i, the loop covers the
        six legs; TrVec is T @ [v; 1] restricted to the first three rows; _IKHelper passes (bottom pose,
        top pose, bottom-local joints, top-local joints, buffers) in parameter order and stores the three
        results in return order.
  R09.2 table freshness: the FK joint tables (_bottom/_top_joints_init) are re-derived from the plate-fixed
        joint coordinates after every replacement of those coordinates, on every path of every public method
        (a re-spun platform must not solve FK for the old geometry).
  R09.3 FK writes its result back through _IKHelper with the same poses it stores (so the lengths reported
        afterwards are recomputed geometry): coherence of FK / IK / move / spinCustom (shared with C10);
        the Raphson solver passes (lengths, start, bottom table, top table, ...) in kernel order and
        composes the result as bottom pose @ solved relative pose.
Not decided: Newton / fsolve recovering the pose to 1e-3; rigid-motion invariance of the lengths as numbers.
"""
import ast

from ..engine.model import AnalysisError, src, walk_own
from ..engine.inline import Inliner
from .spstate import SPAnalysis, SPM
from .c10 import coherence
from .common_ops import flat_method as _flat_m0

FHP = 'basic_robotics.general.faser_high_performance'


def check(model, rep):
    rep.extra['explanation'] = (
        'Structural symmetry check of the Stewart IK kernel (each plate transform applied to its own joint column, one leg index), '
        'argument / result order of its wrapper, typestate freshness of the FK joint tables after re-spin, and coherence of the '
        'FK write-back (value-numbering typestate shared with C10).')
    k = model.func(FHP, 'SPIKinSpace')
    bT, tT, bJ, tJ, bL, tL = k.params
    rep.rule('R09.1', 'SPIKinSpace: bottom/top statements symmetric, own transform on own joint column i, length i = norm(top_i - bottom_i), six legs')
    loops = [n for n in k.body() if isinstance(n, ast.For)]
    if not loops or not all(isinstance(l_.target, ast.Name) for l_ in loops):
        raise AnalysisError('SPIKinSpace: leg loop not recognised')
    lp = loops[0]
    from ..engine.inline import norm_text as _nt
    for l_ in loops:
        it_txt = _nt(Inliner(k).expand(l_.iter))          # a named leg count (num_legs = 6) is the constant it stands for
        rep.ob('R09.1', k, 'for %s in range(6)' % l_.target.id, it_txt in ('range(6)', 'range(0,6)'), 'leg loop ranges over %s' % it_txt, line=l_.lineno)
    from ..engine import tv as _tv
    # the definition, with the joints transformed and the lengths taken in one pass or in two, the length column indexed [i] or [i, 0]
    specs = []
    for two_pass in (False, True):
        for idx in ('i', 'i, 0'):
            body = ['bottom_space[0:3, i] = TrVec(bottom_T, bottom_local[0:3, i])', 'top_space[0:3, i] = TrVec(top_T, top_local[0:3, i])']
            length = 'lengths[%s] = Norm(top_space[0:3, i] - bottom_space[0:3, i])' % idx
            head = 'def SPIKinSpace(bottom_T, top_T, bottom_local, top_local, bottom_space, top_space):\n    lengths = np.zeros((6, 1))\n'
            if two_pass:
                txt = head + '    for i in range(6):\n' + ''.join('        %s\n' % b_ for b_ in body) + '    for i in range(6):\n        %s\n' % length
            else:
                txt = head + '    for i in range(6):\n' + ''.join('        %s\n' % b_ for b_ in body) + '        %s\n' % length
            specs.append(txt + '    return lengths, bottom_space, top_space\n')
    res_k = [_tv.matches_spec(model, FHP, 'SPIKinSpace', sp_) for sp_ in specs]
    ok, why = any(r_[0] for r_ in res_k), res_k[0][1]
    rep.ob('R09.1', k, 'leg i: bottom_i = T_b . b_i, top_i = T_t . t_i (own transform on own joint column), length_i = |top_i - bottom_i|; returns (lengths, bottom, top)',
           ok, 'SPIKinSpace is not the leg geometry of the definition: ' + why, line=lp.lineno)
    tvf = model.func(FHP, 'TrVec')
    ok, why = _tv.matches_spec(model, FHP, 'TrVec', '''
        def TrVec(T, v):
            h = np.ones(4)
            h[0:3] = v
            return (T @ h)[0:3]
        ''')
    rep.ob('R09.1', tvf, 'TrVec(T, v) = (T @ [v; 1])[0:3]', ok, 'TrVec is not the homogeneous action on a point: ' + why)
    nm = model.func(_tv.PORT_MOD, 'Norm')
    res = [_tv.matches_spec(model, _tv.PORT_MOD, 'Norm', sp_) for sp_ in (
        'def Norm(v):\n    return np.sqrt(v[0] * v[0] + v[1] * v[1] + v[2] * v[2])\n',
        'def Norm(v):\n    return np.sqrt(v[0] ** 2 + v[1] ** 2 + v[2] ** 2)\n',
        'def Norm(v):\n    return np.linalg.norm(v)\n')]
    rep.ob('R09.1', nm, 'Norm(v) = Euclidean length of a 3-vector', any(r[0] for r in res), 'Norm is not the Euclidean length: ' + res[0][1])
    from ..engine.inline import norm_text as _nt
    sp = model.cls(SPM, 'SP')
    ih = sp.methods.get('_IKHelper')
    if ih is None:
        raise AnalysisError('anchor vanished: SP._IKHelper')
    tp_, bp_ = ih.params[1], ih.params[2]
    ok, why = _tv.fi_matches_spec(model, ih, """
        def _IKHelper(self, %s=None, %s=None):
            %s, %s = self._bottomTopCheck(%s, %s)
            L, bj, tj = fmr.SPIKinSpace(%s.gTM(), %s.gTM(), self._bottom_joints_local, self._top_joints_local,
                                        self._bottom_joints_space, self._top_joints_space)
            self.lengths = L
            self._bottom_joints_space = bj
            self._top_joints_space = tj
            self._current_plate_transform_local = fsr.globalToLocal(%s, %s)
            return np.copy(self.lengths), %s, %s
        """ % (tp_, bp_, bp_, tp_, bp_, tp_, bp_, tp_, bp_, tp_, bp_, tp_))
    rep.ob('R09.1', ih, 'SPIKinSpace(bottom pose, top pose, bottom-local, top-local, buffers) -> (lengths, bottom joints, top joints); '
           'relative transform = globalToLocal(bottom, top)', ok, '_IKHelper does not pass / store the kernel\'s arguments and results in order: ' + why)

    # ---------------------------------------------------------------- R09.6
    rep.rule('R09.6', 'the leg lengths _IKHelper hands back (and IK returns) are a snapshot: not the array stored in self.lengths, which the '
                      'corrective actions of validate() rewrite in place before IK returns')

    def is_copy(e):
        return (isinstance(e, ast.Call) and _nt(e.func) in ('np.copy', 'numpy.copy', 'np.array', 'numpy.array', 'copy.copy', 'copy.deepcopy')) or \
               (isinstance(e, ast.Call) and isinstance(e.func, ast.Attribute) and e.func.attr == 'copy' and not e.args)
    il_h = Inliner(ih)
    rets_h = il_h.returns()
    stored_h = [n for n in walk_own(ih.node) if isinstance(n, ast.Assign) and any(_nt(t) == 'self.lengths' for t in
                (x for t0 in n.targets for x in (t0.elts if isinstance(t0, ast.Tuple) else [t0])))]
    for r_ in rets_h:
        first = r_.value.elts[0] if isinstance(r_.value, ast.Tuple) and r_.value.elts else r_.value
        if is_copy(first) or is_copy(il_h.expand(first)):
            ok_, why_ = True, 'a copy'
        else:
            # the returned object is whatever `first` names; it is distinct from the stored one only if the STORE took a copy
            st_copy = bool(stored_h) and all(isinstance(n.targets[0], ast.Attribute) and (is_copy(n.value) or is_copy(il_h.expand(n.value))) for n in stored_h)
            reads_field = _nt(il_h.expand(first)) == 'self.lengths' or _nt(first) == 'self.lengths'
            ok_ = st_copy and not reads_field
            why_ = 'returns %s while self.lengths is bound to %s' % (_nt(first), [_nt(n.value)[:40] for n in stored_h])
        rep.ob('R09.6', ih, 'returned lengths are not the stored array', ok_,
               '_IKHelper %s: IK hands its caller the live self.lengths; when the pose needs a corrective action (legs outside their limits) the '
               'in-place adjustments change the returned array too, so IK no longer returns the joint distances of the requested poses' % why_, line=r_.lineno)
    rep.floor('R09.6', 'return statements of _IKHelper', len(rets_h), 1)

    # ---------------------------------------------------------------- R09.7
    # the IK kernel fills the space-joint buffers it is handed IN PLACE; the plate-fixed joint tables (and the FK tables, views of them) are
    # read by every solve.  If one array object is bound to both kinds of field, every later IK rewrites the plate-fixed joints.
    rep.rule('R09.7', 'no array object is bound both to a plate-fixed joint table (_*_joints_local / _*_joints_init) and to a space-joint buffer '
                      '(_*_joints_space) that the IK kernel writes in place')
    FIXED = ('_bottom_joints_local', '_top_joints_local', '_bottom_joints_init', '_top_joints_init')
    BUFFERS = ('_bottom_joints_space', '_top_joints_space')
    n_bind = 0
    for name_, fi_ in sorted(sp.methods.items()):
        bound = {}
        for n_ in walk_own(fi_.node):
            if isinstance(n_, ast.Assign):
                for t_ in n_.targets:
                    if isinstance(t_, ast.Attribute) and isinstance(t_.value, ast.Name) and t_.value.id == 'self' and t_.attr in FIXED + BUFFERS:
                        v_ = n_.value
                        key = None
                        if isinstance(v_, ast.Name):
                            key = v_.id                       # the same local object
                        elif isinstance(v_, ast.Attribute) and isinstance(v_.value, ast.Name) and v_.value.id == 'self' and v_.attr in FIXED + BUFFERS:
                            key = 'self.' + v_.attr           # another field's object, uncopied
                            bound.setdefault(key, []).append((v_.attr, n_.lineno))
                        if key is not None:
                            bound.setdefault(key, []).append((t_.attr, n_.lineno))
        for key, fields in sorted(bound.items()):
            kinds = {('fixed' if f_ in FIXED else 'buffer') for f_, _l in fields}
            n_bind += 1
            rep.ob('R09.7', fi_, '%s: object `%s` bound to %s' % (name_, key, sorted({f_ for f_, _l in fields})), kinds != {'fixed', 'buffer'},
                   'the array `%s` is stored both as %s and as %s without a copy: SPIKinSpace writes the space joints into that buffer in place, so every later '
                   'IK with a bottom pose other than the identity overwrites the plate-fixed joint coordinates (leg lengths then depend on the absolute pose '
                   'and on how many solves were made)' % (key, sorted(f_ for f_, _l in fields if f_ in FIXED), sorted(f_ for f_, _l in fields if f_ in BUFFERS)),
                   line=fields[-1][1])
    rep.count('R09.7 objects bound to joint tables / buffers', n_bind)
    rep.floor('R09.7', 'objects bound to joint tables / buffers', n_bind, 2)
    # ---------------------------------------------------------------- R09.8
    # move(new base) must carry the top plate RIGIDLY: the pose handed to IK is  new_base * inv(old_base) * old_top  (free-group word of the
    # pose expression; localToGlobal = a*b and globalToLocal = inv(a)*b are decided under C04).  Composing on the other side, or from the
    # new base twice, agrees only while the old base is the identity - the case the tests exercise.
    rep.rule('R09.8', 'move(new base): on every path the top pose handed to IK is new_base * inv(old base) * old top (pose word over all '
                      'branches), solved against the new base')
    from .posealg import walk as _pwalk, show as _pshow
    mv = sp.methods.get('move')
    if mv is None:
        raise AnalysisError('anchor vanished: SP.move')
    ik = sp.methods.get('IK')
    if ik is None:
        raise AnalysisError('anchor vanished: SP.IK')
    BASE, TOP, REL = 'self._base_pos_global', 'self._end_effector_pos_global', 'self._current_plate_transform_local'
    b0, t0 = ((BASE + '@entry', 1),), ((TOP + '@entry', 1),)
    # the stored relative pose is inv(base) * top on entry (state coherence, R09.3): a move may use it instead of recomputing it
    init_env = {REL: ((BASE + '@entry', -1), (TOP + '@entry', 1))}
    newp = mv.params[1] if len(mv.params) > 1 else None
    if newp is None:
        raise AnalysisError('SP.move lost its pose parameter')
    want_top = ((newp, 1), (BASE + '@entry', -1), (TOP + '@entry', 1))
    mv_flat = _flat_m0(sp, 'move', stop=('_IKHelper',))
    pths = _pwalk(sp, mv_flat, ('self.IK', 'self._IKHelper'), (BASE, TOP), init_env=init_env)
    n_mv = 0
    for pth in pths:
        for ln in pth['unknown']:
            rep.ob('R09.8', mv, 'move: pose bookkeeping in straight-line / branching code', False,
                   'a loop / try / with block touching the plate poses is not followed', shape=True, line=ln)
        if not pth['calls']:
            rep.ob('R09.8', mv, 'move re-solves the legs for the carried top pose', False,
                   'a path through move reaches its end without calling IK: the plate poses and leg lengths keep describing the old placement', line=mv.node.lineno)
            continue
        fn, args, snap, line = pth['calls'][-1]
        n_mv += 1
        if fn == 'self.IK':
            names = [p_ for p_ in ik.params[1:]]
        else:
            ihp = sp.methods['_IKHelper'].params[1:] if '_IKHelper' in sp.methods else []
            names = list(ihp)
        byname = {}
        for k_, w_ in args.items():
            if isinstance(k_, int):
                if k_ < len(names):
                    byname[names[k_]] = w_
            else:
                byname[k_] = w_
        topk = next((k_ for k_ in byname if 'top' in k_), None)
        botk = next((k_ for k_ in byname if 'bottom' in k_), None)
        top_w = byname[topk] if topk else snap.get(TOP)
        bot_w = byname[botk] if botk else snap.get(BASE)
        if (topk and top_w is None) or (botk and bot_w is None):
            rep.ob('R09.8', mv, 'move: pose arguments of %s are pose words' % fn, False, 'an argument of %s is not built from compositions / inverses / '
                   'frame conversions of poses' % fn, shape=True, line=line)
            continue
        rep.ob('R09.8', mv, 'top pose handed to %s = new base * inv(old base) * old top' % fn[5:], top_w == want_top,
               'move solves for the top pose  %s ; carrying the plate rigidly needs  %s  - the two agree only while the old base pose is the identity, so a '
               'second move (or a move of a platform built on a displaced base) changes the relative plate pose and the leg lengths'
               % (_pshow(top_w), _pshow(want_top)), line=line)
        rep.ob('R09.8', mv, 'legs solved against the new base', bot_w == ((newp, 1),),
               'move solves with the bottom pose  %s , not the requested new base  %s' % (_pshow(bot_w), newp), line=line)
    rep.floor('R09.8', 'paths of move ending in a leg solve', n_mv, 1)
    # ---------------------------------------------------------------- R09.9
    # FK(L) answers for the lengths it is GIVEN: every returning path runs one of the solvers.  A path that returns the stored pose because
    # the requested lengths are "close to" the stored ones reports the pose of other lengths (and leaves getLens / joints at the old state).
    rep.rule('R09.9', 'SP.FK runs a forward-kinematics solver on every returning path (a shortcut is taken only for lengths EXACTLY equal to the stored ones)')
    from ..engine.paths import paths_of as _paths99
    fk9 = sp.methods.get('FK')
    if fk9 is None:
        raise AnalysisError('anchor vanished: SP.FK')
    SOLVERS = ('self._FKSolve', 'self._FKRaphson', 'fmr.SPFKinSpaceR', 'self.FKSolve', 'self.FKRaphson')
    n99 = 0
    try:
        ps99 = _paths99(_flat_m0(sp, 'FK', stop=('_FKSolve', '_FKRaphson', '_IKHelper')).node, fk9.params)
    except RuntimeError as ex:
        raise AnalysisError('paths of SP.FK not summarised (%s)' % ex)
    for pth in ps99:
        if pth.kind != 'return':
            continue
        n99 += 1
        solved = bool(pth.calls(lambda t: any(s_.split('.')[-1] in t for s_ in SOLVERS)))          # also through a selected / named solver
        Lp = fk9.params[1]
        exact = any(v_ and 'array_equal(' in k_ and Lp in k_ and 'self.lengths' in k_ for k_, v_ in pth.facts.items())
        if solved or exact:
            continue
        conds = ['%s is %s' % (pth.fact_src.get(k_, k_)[:90], v_) for k_, v_ in sorted(pth.facts.items()) if Lp in k_ or 'lengths' in k_][:2]
        rep.ob('R09.9', fk9, 'FK solves for the requested lengths on the path returning at line %s' % pth.ret_line, False,
               'SP.FK can return without running a solver (when %s): the pose it hands back and the state it leaves are those of the lengths stored BEFORE the call, not of the '
               'lengths requested - for targets inside that dead band the error exceeds the FK tolerance on small platforms' % (' and '.join(conds) or 'some condition holds'),
               line=pth.ret_line)
        break
    else:
        rep.ob('R09.9', fk9, 'every returning path of FK runs a solver', n99 >= 1, 'no returning path found')
    rep.floor('R09.9', 'returning paths of SP.FK', n99, 2)
    # ---------------------------------------------------------------- R09.10
    # The joint pattern of each plate is laid out by the constructors of the platform module (newSP: angles per plate, exchanged for the other
    # handedness).  Rows of a rank-2 array exchanged by `a[i], a[j] = a[j], a[i]` are NOT exchanged: both rows end up equal (views), the two
    # plates get one joint pattern, the platform is architecturally singular and forward kinematics no longer determines the pose.
    rep.rule('R09.10', 'platform module: no exchange of rows of a rank >= 2 array through a tuple assignment of views (both rows would end up equal: '
                       'e.g. one joint pattern on both plates of a left-handed platform)')
    from .common_ops import view_swaps
    n910 = 0
    for fi_ in model.funcs_in(sp.module.name):
        n910 += 1
        for (ln_, txt_, arr_) in view_swaps(fi_):
            rep.ob('R09.10', fi_, txt_, False,
                   '`%s` is an array of rank >= 2: the right-hand side is a pair of VIEWS, so after the first row is overwritten the second store copies the new '
                   'content back - both rows hold the same values (the old second one) instead of being exchanged' % arr_, line=ln_)
    rep.ob('R09.10', sp.module.relpath, 'functions of the platform module scanned', n910 >= 20, '%d functions' % n910, qualname='<module>')
    # ---------------------------------------------------------------- R09.2
    rep.rule('R09.2', 'FK joint tables re-derived after every replacement of the plate-fixed joint coordinates (all paths, all public methods)')
    from ..engine import peval as _pe
    _pe.resolve_higher_order(model, model.cls(SPM, 'SP'))
    an = SPAnalysis(model)
    n_writers = 0
    for fi in an.public_methods():
        def stores_local(f_, seen):
            if f_.qualname in seen:
                return False
            seen.add(f_.qualname)
            for n in walk_own(f_.node):
                if isinstance(n, (ast.Assign, ast.AugAssign)) and any('joints_local' in src(t) and src(t).startswith('self.') for t in
                                                                      (n.targets if isinstance(n, ast.Assign) else [n.target])):
                    return True
                if isinstance(n, ast.Call) and isinstance(n.func, ast.Attribute) and src(n.func.value) == 'self' and n.func.attr.startswith('_') \
                        and n.func.attr in sp.methods and stores_local(sp.methods[n.func.attr], seen):
                    return True          # the replacement sits in a private helper of the class
            return False
        writes_local = stores_local(fi, set())
        if not writes_local:
            continue
        n_writers += 1
        exits = an.run_public(fi)
        stale = sorted({t for e in exits for t in e.state[0].tables})
        rep.ob('R09.2', fi, 'tables derived from the plate-fixed joints fresh on every exit of ' + fi.name, not stale,
               'the plate-fixed joint coordinates are replaced but %s (computed from them: %s) %s not re-derived or reset afterwards: '
               'FK keeps solving for the old geometry' % (', '.join('self.' + s_.split(':')[1] for s_ in stale),
                                                          '; '.join('%s <- %s' % (s_.split(':')[1], '/'.join(sorted(an.caches.get(s_.split(':')[1], [])))) for s_ in stale),
                                                          'is' if len(stale) == 1 else 'are'))
    rep.floor('R09.2', 'public methods replacing the plate-fixed joints', n_writers, 2)
    rep.count('fields caching a function of the plate-fixed joints', len(an.caches))
    rep.floor('R09.2', 'cache fields of the plate-fixed joints', len(an.caches), 2)
    rep.note('caches of the plate-fixed joint tables: %s' % {k: sorted(v) for k, v in sorted(an.caches.items())})
    from .common_ops import flat_method as _flat_m
    init = _flat_m(sp, '__init__')          # the capture of the FK tables may sit in a private helper shared with spinCustom
    tabs = {src(n.targets[0]): src(n.value).replace(' ', '') for n in walk_own(init.node) if isinstance(n, ast.Assign) and 'joints_init' in src(n.targets[0])}
    ok = tabs.get('self._bottom_joints_init', '').startswith('self._bottom_joints_local') and tabs.get('self._top_joints_init', '').startswith('self._top_joints_local') \
        and all(v.endswith('.transpose()') or v.endswith('.T') for v in tabs.values())
    rep.ob('R09.2', init, 'tables = transposed plate-fixed joints of the same plate', ok, 'tables are %s' % tabs)

    # ---------------------------------------------------------------- R09.3
    rep.rule('R09.3', 'FK / IK / move / spinCustom end coherent (result written back through _IKHelper with the stored poses); Raphson call shape')
    coherence(model, rep, an, 'R09.3', only={'FK', 'IK', 'move', 'spinCustom', 'randomPos', '__init__'})
    fr = sp.methods.get('_FKRaphson')
    if fr is None:
        raise AnalysisError('anchor vanished: SP._FKRaphson')
    # the kernel call and the write-back may sit in private helpers: analyse the method with those inlined (structure only)
    fr_flat = _pe.flatten({n_: f_.node for n_, f_ in sp.methods.items()}, fr.node, depth=2, stop=('_IKHelper',), impure=True)
    kc = [c for c in walk_own(fr_flat) if isinstance(c, ast.Call) and src(c.func).endswith('SPFKinSpaceR')]
    for c in kc:
        a = [src(x).replace(' ', '') for x in c.args]
        def lineage(e):
            out, todo, seen = set(), list(an.field_reads(fr, e)), set()
            while todo:
                x = todo.pop()
                if x in seen:
                    continue
                seen.add(x)
                if x in ('_bottom_joints_local', '_top_joints_local'):
                    out.add(x)
                todo.extend(an.caches.get(x, ()))
            return out
        if len(a) != 8:
            rep.ob('R09.3', fr, src(c)[:80], False, 'SPFKinSpaceR takes 8 arguments, receives %s' % a, line=c.lineno)
            continue
        lb, lt = lineage(c.args[2]), lineage(c.args[3])
        if lb == {'_bottom_joints_local'} and lt == {'_top_joints_local'}:
            ok = a[0] == 'L' and a[7] == 'self.leg_ext_min'
            rep.ob('R09.3', fr, src(c)[:80], ok, 'SPFKinSpaceR receives %s' % a, line=c.lineno)
        elif len(lb) == 2 or len(lt) == 2:
            rep.unresolved_item('R09.3', '%s:%d' % (fr.module.relpath, c.lineno), 'joint-table arguments come from a value that mixes both plates (%s / %s): plate order not decided' % (a[2], a[3]))
        else:
            rep.ob('R09.3', fr, src(c)[:80], False, 'SPFKinSpaceR needs (bottom table, top table); argument 2 derives from %s and argument 3 from %s'
                   % (sorted(lb) or 'no joint table', sorted(lt) or 'no joint table'), line=c.lineno)
    rep.floor('R09.3', 'Raphson kernel call sites', len(kc), 2)
    ilr = Inliner(fr, node=fr_flat)
    sol = {n.targets[0].elts[0].id for n in walk_own(fr_flat) if isinstance(n, ast.Assign) and isinstance(n.value, ast.Call) and src(n.value.func).endswith('SPFKinSpaceR')
           and isinstance(n.targets[0], ast.Tuple) and isinstance(n.targets[0].elts[0], ast.Name)}
    wb = [c for c in walk_own(fr_flat) if isinstance(c, ast.Call) and src(c.func) == 'self._IKHelper']
    bp = fr.params[2]
    ok = len(sol) == 1 and len(wb) == 1 and len(wb[0].args) == 2
    got = '?'
    if ok:
        R = {next(iter(sol)): 'SOL'}
        got = '%s ; %s' % (ilr.text(wb[0].args[0], roles=R), ilr.text(wb[0].args[1], roles=R))
        ok = ilr.same(wb[0].args[0], '%s.copy()@tm(SOL)' % bp, roles=R) and ilr.same(wb[0].args[1], '%s.copy()' % bp, roles=R)
    rep.ob('R09.3', fr, 'solved pose = bottom pose @ tm(relative solution), written back through _IKHelper(top, bottom)', ok,
           'write-back is _IKHelper(%s)' % got)
    # ---------------------------------------------------------------- R09.5
    rep.rule('R09.5', 'Newton FK kernel: the height floor applied to the iterate excludes no workspace pose (threshold <= leg_ext_min / 2, the bound the '
                      'kernel is documented and exercised with); the residual it drives to zero is |top_i - bottom_i|^2 - L_i^2')
    from fractions import Fraction
    from ..engine.inline import norm_text as _nt2
    kf = model.func(FHP, 'SPFKinSpaceR')
    if len(kf.params) < 8:
        raise AnalysisError('SPFKinSpaceR lost its parameters')
    L_p, init_p, bj_p, tj_p, lmin_p = kf.params[0], kf.params[1], kf.params[2], kf.params[3], kf.params[7]
    ilk = Inliner(kf)
    wl = [n for n in kf.body() if isinstance(n, ast.While)]
    if len(wl) != 1:
        raise AnalysisError('SPFKinSpaceR: Newton loop not recognised')
    # the iterate: the local that starts as the initial guess and is re-bound at the end of a round
    iters = {n.targets[0].id for n in kf.body() if isinstance(n, ast.Assign) and isinstance(n.targets[0], ast.Name) and _nt2(n.value) in (init_p, init_p + '.copy()', 'np.copy(%s)' % init_p)}
    if len(iters) != 1:
        raise AnalysisError('SPFKinSpaceR: iterate variable not recognised (%s)' % sorted(iters))
    g = iters.pop()

    def lin(e):
        """value of e as a multiple of leg_ext_min (Fraction) or None"""
        def ev(x, l):
            if isinstance(x, ast.Constant) and isinstance(x.value, (int, float)) and not isinstance(x.value, bool):
                return Fraction(str(x.value))
            if isinstance(x, ast.Name):
                if x.id == lmin_p:
                    return Fraction(l)
                v_ = ilk.single(x.id)
                return ev(v_, l) if v_ is not None else None
            if isinstance(x, ast.UnaryOp) and isinstance(x.op, ast.USub):
                v_ = ev(x.operand, l)
                return None if v_ is None else -v_
            if isinstance(x, ast.BinOp) and isinstance(x.op, (ast.Add, ast.Sub, ast.Mult, ast.Div)):
                a_, b_ = ev(x.left, l), ev(x.right, l)
                if a_ is None or b_ is None:
                    return None
                if isinstance(x.op, ast.Add):
                    return a_ + b_
                if isinstance(x.op, ast.Sub):
                    return a_ - b_
                if isinstance(x.op, ast.Mult):
                    return a_ * b_
                return a_ / b_ if b_ != 0 else None
            return None
        v1, v2 = ev(e, 1), ev(e, 2)
        if v1 is None or v2 is None or v2 != 2 * v1:
            return None
        return v1
    floors = []
    for n in ast.walk(wl[0]):
        if isinstance(n, ast.If) and isinstance(n.test, ast.Compare) and len(n.test.ops) == 1:
            l_, op_, r_ = n.test.left, n.test.ops[0], n.test.comparators[0]
            if isinstance(op_, (ast.Gt, ast.GtE)):
                l_, r_ = r_, l_
            elif not isinstance(op_, (ast.Lt, ast.LtE)):
                continue
            if _nt2(ilk.expand(l_)) == '%s[2]' % g and any(isinstance(a_, ast.Assign) and _nt2(a_.targets[0]) == '%s[2]' % g for a_ in n.body):
                floors.append((n, r_))
        if isinstance(n, ast.Assign) and _nt2(n.targets[0]) == '%s[2]' % g and isinstance(n.value, ast.Call) and _nt2(n.value.func) in ('max', 'np.maximum') \
                and len(n.value.args) == 2:
            other_ = [a_ for a_ in n.value.args if _nt2(ilk.expand(a_)) != '%s[2]' % g]
            if len(other_) == 1:
                floors.append((n, other_[0]))
    for (n, thr) in floors:
        a_ = lin(thr)
        rep.ob('R09.5', kf, 'height floor ' + src(thr)[:40] + ' is a multiple of the minimum leg length', a_ is not None,
               'threshold %s is not of the form c * %s' % (src(thr), lmin_p), shape=True, line=n.lineno)
        if a_ is not None:
            rep.ob('R09.5', kf, 'height floor <= leg_ext_min / 2', a_ <= Fraction(1, 2),
                   'iterates below %s * %s are pushed back up: on flat platforms (plate distance below that, e.g. small top/bottom radius ratio) the true '
                   'pose lies below the floor and the iteration can never reach it, so FK no longer inverts IK there' % (a_, lmin_p), line=n.lineno)
    rep.count('height clamps in the Newton kernel', len(floors))
    # the residual: the only use of the requested lengths is  sum(square(xbar + uvw), 1) - square(L)  (either sign), xbar from the bottom table
    res = [n for n in ast.walk(wl[0]) if isinstance(n, ast.Assign) and L_p in {x.id for x in ast.walk(n.value) if isinstance(x, ast.Name)}]
    ok_res = False
    got_res = '?'
    if len(res) == 1:
        got_res = _nt2(ilk.expand(res[0].value))
        import re as _re2
        core = _re2.sub(r'^-1\*\((.*)\)$|^-\((.*)\)$', lambda m_: m_.group(1) or m_.group(2), got_res)
        xb = '%s[0:3]-%s' % (g, bj_p)
        forms = ['np.sum(np.square(%s+UVW),1)-np.square(%s)' % (xb, L_p), 'np.square(%s)-np.sum(np.square(%s+UVW),1)' % (L_p, xb),
                 'np.sum((%s+UVW)**2,1)-%s**2' % (xb, L_p), 'np.sum(np.square(%s+UVW),axis=1)-np.square(%s)' % (xb, L_p)]
        uv = {n.targets[0].id for n in ast.walk(kf.node) if isinstance(n, ast.Assign) and isinstance(n.targets[0], ast.Name) and _nt2(n.value).startswith('np.zeros(%s.shape' % tj_p)}
        for u_ in uv:
            if core.replace(u_, 'UVW') in forms or got_res.replace(u_, 'UVW') in forms:
                ok_res = True
        # a named sum (leg_vectors = xbar + uvw) is inlined by expand already
    rep.ob('R09.5', kf, 'residual = squared joint distances - squared requested lengths', ok_res,
           'the quantity driven to zero is %s' % got_res[:160], line=res[0].lineno if res else None, shape=not res)
    uv_names = {n.targets[0].id for n in ast.walk(kf.node) if isinstance(n, ast.Assign) and isinstance(n.targets[0], ast.Name) and _nt2(n.value).startswith('np.zeros(%s.shape' % tj_p)}
    rot = [n for n in ast.walk(wl[0]) if isinstance(n, ast.Assign) and isinstance(n.targets[0], ast.Subscript) and isinstance(n.targets[0].value, ast.Name)
           and n.targets[0].value.id in uv_names]

    def row_form(n):
        sl = n.targets[0].slice
        iv_ = sl.elts[0].id if isinstance(sl, ast.Tuple) and sl.elts and isinstance(sl.elts[0], ast.Name) else None
        t_ = _nt2(ilk.expand(n.value))
        if iv_:
            t_ = _nt2(ast.unparse(ast.parse(ast.unparse(ilk.expand(n.value))))).replace('[%s,:]' % iv_, '[I,:]')
        return t_
    ok_rot = bool(rot) and all(row_form(n) in ('np.dot(MatrixExp3(VecToso3(%s[3:6])),%s[I,:])' % (g, tj_p), 'MatrixExp3(VecToso3(%s[3:6]))@%s[I,:]' % (g, tj_p)) for n in rot)
    rep.ob('R09.5', kf, 'top joints rotated by exp([guess[3:6]]) row by row', ok_rot, 'rotated top joints are %s' % [row_form(n)[:80] for n in rot][:2],
           line=rot[0].lineno if rot else None, shape=not rot)

    # ---------------------------------------------------------------- R09.4
    rep.rule('R09.4', 'the inversion test FK applies to a solver result measures the top plate height in the bottom plate\'s frame')
    from .c10 import constraint_definitions
    constraint_definitions(model, rep, 'R09.4', only={'_continuousTranslationConstraint'})
