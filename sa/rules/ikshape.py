"""Shared analysis of the Newton IK kernels on their E6 normal form (used by C02 and C07).

Checks, on the value-numbered term of the kernel (all paths, all inputs):
  flag      - the second returned value is `not err` where err is the loop-carried error flag of the SAME
              loop whose carried joint vector is the first returned value;
  fresh     - err's loop-body definition is computed from the joint vector as updated in that iteration
              (including the clamp block when present), and its initial value from the initial vector;
  halves    - err is exactly  norm(V[0:3]) > TOL_a  or  norm(V[3:6]) > TOL_l  where V is a twist in
              [omega; v] layout (se3ToVec(..) or Adjoint(..) @ se3ToVec(..)), the angular half is compared
              with the orientation tolerance and the linear half with the position tolerance;
  iteration - the loop continues while `err and i < max`.
"""

ANG, LIN = 'orientation tolerance', 'position tolerance'


def tol_role(pname):
    p = pname.lower()
    if 'omg' in p or 'rot' in p or 'ang' in p or 'orient' in p:
        return ANG
    if p == 'ev' or 'pos' in p or 'lin' in p or 'trans' in p:
        return LIN
    return None


def contains(t, sub):
    if t == sub:
        return True
    if isinstance(t, tuple):
        return any(contains(x, sub) for x in t)
    return False


def find_all(t, pred, acc=None):
    acc = [] if acc is None else acc
    if isinstance(t, tuple):
        if pred(t):
            acc.append(t)
        for x in t:
            find_all(x, pred, acc)
    return acc


def is_twist(V):
    """V is se3ToVec(X) or dot(Adjoint(Y), se3ToVec(X)) -> True (layout [omega; v])."""
    if isinstance(V, tuple) and V and V[0] == 'call' and V[1] == 'se3ToVec':
        return True
    if isinstance(V, tuple) and V and V[0] == 'dot' and isinstance(V[1], tuple) and V[1][:2] == ('call', 'Adjoint') \
            and isinstance(V[2], tuple) and V[2][:2] == ('call', 'se3ToVec'):
        return True
    return False


def half_of(x):
    """x = 1-D block of three scalar selections V[k], V[k+1], V[k+2] -> (V, k) else None."""
    if not (isinstance(x, tuple) and x and x[0] == 'block' and x[1] == (3,) and len(x[2]) == 3):
        return None
    Vs, ks = [], []
    for c in x[2]:
        t = c[4]
        if not (isinstance(t, tuple) and t[0] == 'idx' and len(t[2]) == 1 and t[2][0][0] == 'num'):
            return None
        Vs.append(t[1])
        ks.append(int(t[2][0][1]))
    if len(set(Vs)) != 1 or ks != [ks[0], ks[0] + 1, ks[0] + 2]:
        return None
    return Vs[0], ks[0]


def analyse(fn_term, param_names):
    """-> list of (check, ok, message)"""
    out = []
    ret = fn_term[2]
    if not (isinstance(ret, tuple) and ret[0] == 'tuple' and len(ret[1]) == 2):
        return [('flag', False, 'kernel does not return (joint vector, success flag)')]
    A, B = ret[1]
    if not (isinstance(B, tuple) and B[0] == 'not'):
        return [('flag', False, 'success flag is not the negation of the loop error flag: %r' % (B[:1],))]
    E = B[1]
    if not (A[0] == 'lout' and E[0] == 'lout'):
        return [('flag', False, 'returned values are not the loop-carried joint vector / error flag')]
    if A[1] != E[1]:
        out.append(('flag', False, 'the returned flag and the returned joint vector come from different loops'))
        return out
    loop = A[1]
    vars_ = loop[3]
    init_t, body_t = vars_[A[2]]
    init_e, body_e = vars_[E[2]]
    out.append(('flag', True, 'flag = not err of the loop that produced the joint vector'))
    # freshness
    out.append(('fresh', contains(body_e, body_t) and body_t != ('lv', loop[1], A[2]),
                'the error flag of an iteration is not computed from the joint vector as updated (and clamped) in that iteration'))
    out.append(('fresh-init', contains(init_e, init_t), 'the initial error flag is not computed from the initial joint vector'))
    # loop condition
    hdr = loop[2]
    lv_e = ('lv', loop[1], E[2])
    ok_hdr = hdr[0] == 'while' and isinstance(hdr[1], tuple) and hdr[1][0] == 'and' and lv_e in hdr[1][1] and \
        any(isinstance(c, tuple) and c[0] == 'cmp' and c[1] in ('<', '<=') for c in hdr[1][1])
    out.append(('iteration', ok_hdr, 'loop does not run `while err and i < max_iterations`'))
    for which, term in (('loop body', body_e), ('initial', init_e)):
        if not (isinstance(term, tuple) and term[0] == 'or' and len(term[1]) == 2):
            out.append(('halves', False, '%s error flag is not the disjunction of two tolerance tests' % which))
            continue
        seen = set()
        for c in term[1]:
            ok, msg = False, ''
            if isinstance(c, tuple) and c[0] == 'cmp' and c[1] == '>' and isinstance(c[2], tuple) and c[2][0] == 'call' \
                    and c[2][1] == 'numpy.linalg.norm' and len(c[2][2]) == 1:
                h = half_of(c[2][2][0])
                tol = c[3]
                if h is None:
                    msg = 'norm is not taken over a three-element half of the error twist'
                elif not is_twist(h[0]):
                    msg = 'error vector is not a twist in [omega; v] layout (se3ToVec / Adjoint @ se3ToVec)'
                elif h[1] not in (0, 3):
                    msg = 'half starts at element %d' % h[1]
                elif not (tol[0] == 'p' and tol[1] < len(param_names)):
                    msg = 'tolerance is not a parameter of the kernel'
                else:
                    role = tol_role(param_names[tol[1]])
                    want = ANG if h[1] == 0 else LIN
                    half = 'angular half V[0:3]' if h[1] == 0 else 'linear half V[3:6]'
                    seen.add(h[1])
                    if role is None:
                        msg = 'cannot tell the role of tolerance parameter %s' % param_names[tol[1]]
                    elif role != want:
                        msg = 'the %s of the error twist is compared with the %s `%s`' % (half, role, param_names[tol[1]])
                    else:
                        ok = True
                        msg = '%s vs %s' % (half, param_names[tol[1]])
            else:
                msg = 'tolerance test is not `norm(half) > tolerance` (strict)'
            out.append(('halves', ok, '%s: %s' % (which, msg)))
        if seen and seen != {0, 3}:
            out.append(('halves', False, '%s: both tests look at the same half of the error twist' % which))
    return out
