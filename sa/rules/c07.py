"""C07 - arm inverse kinematics never claims a pose it has not reached.

Decided statically:
  R07.1 tolerance / twist-half agreement: inside IKinSpace, IKinBody and IKinSpaceConstrained the angular
        half of the error twist is compared with the ORIENTATION tolerance and the linear half with the
        POSITION tolerance; at the Arm call sites the arm's rot_tolerance / pos_tolerance (and screws,
        home pose, goal, limits) are bound to the parameters of the same role.
  R07.2 success-flag freshness: the returned flag is `not err` of the loop that produced the returned joint
        vector, and err is computed from the vector as updated AND clamped in that iteration.
  R07.3 limit respect: the clamp block ranges over len(theta), applies both bounds with the matching
        comparison and sits between the Newton update and the error recomputation.
  R07.4 state write-back: on every path of IK / constrainedIK on which success may be true the state
        was written through FK(returned solution); every path leaves the reported pose coherent
        (C05 typestate); the returned flag is the kernel's flag, never a constant.
  R07.5 IKinSpaceConstrained conforms to its sibling IKinSpace: with the clamp block removed and
        parameters mapped by role the two kernels have the same normal form (IKinSpace itself equals
        the pinned reference, C02).
Not decided: local convergence from 0.02 rad; that an unreachable goal makes the error norms exceed
the tolerances (numerical).
"""
import ast
import copy

from ..engine.model import AnalysisError, src, walk_own
from ..engine import tv
from ..engine.normal import Normalizer, Unsupported, first_diff, show
from ..engine.mrspec import SHAPES
from ..engine.flow import Flow
from ..engine.typestate import FactDomain
from ..engine.inline import Inliner, cmp_parts, norm_text
from . import ikshape
from .armstate import ArmChecker, ARM
from .c02 import r024

FHP = 'basic_robotics.general.faser_high_performance'
FIELD_ROLE = {'rot_tolerance': ikshape.ANG, 'pos_tolerance': ikshape.LIN}
ARG_ROLES = {
    # kernel -> {param index: (role description, accepted argument sources)}
    # (texts after inlining of single-definition locals; copies of the stored values are the same source)
    'IKinSpace': {0: ('space screws', ('self.screw_list', 'self.screw_list.copy()')),
                  1: ('home tool pose', ('self._end_effector_home.gTM()', 'self._end_effector_home.copy().gTM()', 'self._end_effector_home.TM')),
                  2: ('goal pose', None)},
    'IKinSpaceConstrained': {0: ('space screws', ('self.screw_list', 'self.screw_list.copy()')),
                             1: ('home tool pose', ('self._end_effector_home.gTM()', 'self._end_effector_home.copy().gTM()')),
                             2: ('goal pose', None),
                             6: ('lower joint limits', ('self.joint_mins',)), 7: ('upper joint limits', ('self.joint_maxs',))},
}


def _inert(st):
    """a statement that cannot influence the joint vector: assignment of a constant to a fresh local, pass, a bare print"""
    if isinstance(st, ast.Pass):
        return True
    if isinstance(st, ast.Assign) and all(isinstance(t, ast.Name) for t in st.targets) and isinstance(st.value, ast.Constant):
        return True
    if isinstance(st, ast.Expr) and isinstance(st.value, ast.Call) and isinstance(st.value.func, ast.Name) and st.value.func.id in ('print', 'disp'):
        return True
    return False


KERNEL_SPEC = """
def IKinSpaceConstrained(%(S)s, %(M)s, %(T)s, %(th)s, %(ptol)s, %(rtol)s, %(lo)s, %(hi)s, %(it)s):
    %(th)s = %(th)s.astype(np.float64)
    for j in range(len(%(th)s)):
        if %(th)s[j] < %(lo)s[j]:
            %(th)s[j] = %(lo)s[j]
        if %(th)s[j] > %(hi)s[j]:
            %(th)s[j] = %(hi)s[j]
    ee_current = FKinSpace(%(M)s, %(S)s, %(th)s)
    error_vec = np.dot(Adjoint(ee_current), se3ToVec(MatrixLog6(np.dot(TransInv(ee_current), %(T)s))))
    error_bool = (np.linalg.norm(error_vec[0:3]) > %(rtol)s or np.linalg.norm(error_vec[3:6]) > %(ptol)s)
    i = 0
    while error_bool and i < %(it)s:
        %(th)s = %(th)s + np.dot(np.linalg.pinv(JacobianSpace(%(S)s, %(th)s)), error_vec)
        for j in range(len(%(th)s)):
            if %(th)s[j] < %(lo)s[j]:
                %(th)s[j] = %(lo)s[j]
            if %(th)s[j] > %(hi)s[j]:
                %(th)s[j] = %(hi)s[j]
        i = i + 1
        ee_current = FKinSpace(%(M)s, %(S)s, %(th)s)
        error_vec = np.dot(Adjoint(ee_current), se3ToVec(MatrixLog6(np.dot(TransInv(ee_current), %(T)s))))
        error_bool = (np.linalg.norm(error_vec[0:3]) > %(rtol)s or np.linalg.norm(error_vec[3:6]) > %(ptol)s)
    return %(th)s, not error_bool
"""


def _is_clamp_loop(st):
    return isinstance(st, ast.For) and any(isinstance(x, ast.If) for x in st.body) and all(isinstance(x, ast.If) or _inert(x) for x in st.body)


def clamp_loops(fnode):
    """for-loops inside the Newton while-loop that only clamp the joint vector"""
    out = []
    for w in [n for n in ast.walk(fnode) if isinstance(n, ast.While)]:
        for st in w.body:
            if _is_clamp_loop(st):
                out.append((w, st))
    return out


def clamp_helpers(module_funcs):
    """module-level helpers whose whole body is a clamp loop over (vector, lower, upper) followed by `return vector`"""
    out = {}
    for name, fn in module_funcs.items():
        body = [s for s in fn.body if not (isinstance(s, ast.Expr) and isinstance(s.value, ast.Constant)) and not _inert(s)]
        params = [a.arg for a in fn.args.args]
        if len(body) == 2 and _is_clamp_loop(body[0]) and isinstance(body[1], ast.Return) and isinstance(body[1].value, ast.Name) \
                and len(params) == 3 and body[1].value.id == params[0]:
            out[name] = (fn, body[0], params)
    return out


def _drawn_inside(fi, arg):
    """the argument is a local filled element by element with random.uniform(joint_mins[j], joint_maxs[j])"""
    if not isinstance(arg, ast.Name):
        return False
    for n in walk_own(fi.node):
        if isinstance(n, ast.Assign) and isinstance(n.targets[0], ast.Subscript) and isinstance(n.targets[0].value, ast.Name) and n.targets[0].value.id == arg.id:
            v = n.value
            if isinstance(v, ast.Call) and src(v.func) == 'random.uniform' and len(v.args) == 2 and 'joint_mins' in src(v.args[0]) and 'joint_maxs' in src(v.args[1]):
                return True
    return False


def clamp_sites(fnode, helpers):
    """(while node, statement that clamps, loop node, (vector, lower, upper) names inside the loop, call or None)"""
    out = [(w, lp, lp, None, None) for (w, lp) in clamp_loops(fnode)]
    for w in [n for n in ast.walk(fnode) if isinstance(n, ast.While)]:
        for st in w.body:
            for c in [x for x in ast.walk(st) if isinstance(x, ast.Call) and isinstance(x.func, ast.Name) and x.func.id in helpers and len(x.args) == 3 and not x.keywords]:
                fn, lp, params = helpers[c.func.id]
                out.append((w, st, lp, tuple(params), c))
    return out


def check(model, rep):
    rep.extra['explanation'] = (
        'Normal-form analysis of the three Newton IK kernels (flag = not err of the same loop, err computed from the updated '
        'and clamped vector, twist half vs tolerance kind), role agreement of the arguments at the Arm call sites, AST rules '
        'for the clamp block, path-sensitive write-back rule for IK/constrainedIK, and sibling conformance of the '
        'limit-respecting kernel with IKinSpace by normal-form equality.')
    rep.assumptions.append('FKinSpace/JacobianSpace/MatrixLog6/Adjoint as decided under C01/C02; parameters named *rot*/*omg* are '
                           'orientation tolerances and *pos*/ev position tolerances (documented roles)')
    fm = model.module(FHP)
    from .common_ops import flat_function
    kc = flat_function(model.func(FHP, 'IKinSpaceConstrained'))      # private jitted helpers of the module read in place
    # The structural rules below read one way of writing the clamped Newton iteration.  When the kernel has the NORMAL FORM of that
    # reference iteration (E6: locals, temporaries, loop rotation `while True: ...; if done: break; ...`, clamping through a scalar temporary,
    # named loop bounds, flipped comparisons are immaterial) they are applied to the reference text instead - equal normal forms mean equal
    # values and effects for every input, so what holds structurally for the reference holds for the kernel.
    if len(kc.params) == 9:
        _spec = KERNEL_SPEC % {k_: v_ for k_, v_ in zip(('S', 'M', 'T', 'th', 'ptol', 'rtol', 'lo', 'hi', 'it'), kc.params)}
        try:
            _eq, _why = tv.fi_matches_spec(model, kc, _spec)
        except AnalysisError as _ex:
            _eq, _why = False, str(_ex)
        rep.note('IKinSpaceConstrained %s the normal form of the reference clamped Newton iteration%s' % (
            'has' if _eq else 'does NOT have', '' if _eq else ' (%s): the structural rules read the kernel as written' % _why[:160]))
        if _eq:
            import copy as _copy7
            _fn = ast.parse(tv._dedent(_spec)).body[0]
            ast.increment_lineno(_fn, kc.node.lineno - 1)
            _kc2 = _copy7.copy(kc)
            _kc2.node = _fn
            for _par in ast.walk(_fn):
                for _ch in ast.iter_child_nodes(_par):
                    kc.module.parents[_ch] = _par
            kc.module.parents[_fn] = kc.module.parents.get(kc.node)
            kc = _kc2
    # ---------------------------------------------------------------- R07.1 / R07.2 kernels
    r024(model, rep, rule='R07.1')
    rep.rules['R07.1'] = ('angular half of the error twist vs orientation tolerance, linear half vs position tolerance - in the '
                          'kernels and at the Arm call sites; flag shape of the kernels')
    rep.rule('R07.2', 'IKinSpaceConstrained: flag = not err of the same loop; err computed from the updated and clamped vector')
    term, nz = tv.port_nf(model, 'IKinSpaceConstrained', module=FHP, prune=False)
    for chk, ok, msg in ikshape.analyse(term, kc.params):
        rule = 'R07.1' if chk == 'halves' else 'R07.2'
        rep.ob(rule, kc, chk + ': ' + msg[:110], ok, msg)
    # call sites
    ck = ArmChecker(model)
    arm = ck.arm
    n_sites = 0
    for name in ('IK', 'constrainedIK'):
        fi = arm.methods.get(name)
        if fi is None:
            raise AnalysisError('anchor vanished: Arm.' + name)
        from .common_ops import flat_method as _fm71
        fi = _fm71(arm, name, stop=('FK', 'IK', 'constrainedIK', 'IKFree'))          # private solve helpers read in place
        for c in [x for x in ast.walk(fi.node) if isinstance(x, ast.Call) and isinstance(x.func, ast.Attribute)          # local closures included
                  and x.func.attr in ('IKinSpace', 'IKinSpaceConstrained', 'IKinBody')]:
            r = model.resolve_call(fi, c)
            if not (r and r[0] == 'func'):
                rep.unresolved_item('R07.1', fi.where, 'callee of %s not resolved' % src(c.func))
                continue
            k = r[1]
            n_sites += 1
            bound = {}
            for i, a in enumerate(c.args):
                if i < len(k.params):
                    bound[k.params[i]] = a
            for kw in c.keywords:
                if kw.arg:
                    bound[kw.arg] = kw.value
            for p, a in bound.items():
                want = ikshape.tol_role(p)
                if want is None:
                    continue
                got = None
                if isinstance(a, ast.Attribute) and a.attr in FIELD_ROLE:
                    got = FIELD_ROLE[a.attr]
                if got is None:
                    rep.unresolved_item('R07.1', fi.where, 'role of argument %s unknown' % src(a))
                    continue
                rep.ob('R07.1', fi, '%s(... %s=%s ...)' % (k.name, p, src(a)), got == want,
                       'the arm\'s %s (%s) is bound to parameter `%s`, which %s uses as the %s' % (got, src(a), p, k.name, want), line=c.lineno)
            for pi, (role, accepted) in ARG_ROLES.get(k.name, {}).items():
                if pi >= len(c.args):
                    continue
                a = Inliner(fi).text(c.args[pi])
                if accepted is None:
                    ok = fi.params[1] in a
                else:
                    ok = a in accepted
                rep.ob('R07.1', fi, '%s arg %d (%s) = %s' % (k.name, pi, role, a[:40]), ok,
                       'parameter %d of %s is the %s; got %s' % (pi, k.name, role, a), line=c.lineno)
    rep.floor('R07.1', 'kernel call sites in Arm.IK/constrainedIK', n_sites, 2)

    # ---------------------------------------------------------------- R07.3
    rep.rule('R07.3', 'clamp block: for j in range(len(theta)): theta[j] < lo[j] -> lo[j]; theta[j] > hi[j] -> hi[j]; between the '
                      'Newton update and the error recomputation')
    helpers = clamp_helpers({**tv.toplevel_funcs(fm.tree)})
    cl = clamp_sites(kc.node, helpers)
    if len(cl) != 1:
        rep.ob('R07.3', kc, 'clamp block', False, 'expected exactly one clamp of the joint vector inside the Newton loop, found %d' % len(cl))
    else:
        w, cst, lp, hp, hcall = cl[0]
        kth, klo, khi = kc.params[3], kc.params[6], kc.params[7]
        th, lo_p, hi_p = hp if hp else (kth, klo, khi)
        where = kc if hp is None else model.func(FHP, hcall.func.id)
        if hcall is not None:
            a_ = [norm_text(x) for x in hcall.args]
            names0 = {x.id for x in ast.walk(hcall.args[0]) if isinstance(x, ast.Name)}
            rep.ob('R07.3', kc, 'clamp helper receives (joint vector, lower limits, upper limits)', kth in names0 and a_[1] == klo and a_[2] == khi,
                   'the clamp helper is called as %s(%s): the joint vector must be clamped between %s and %s' % (hcall.func.id, ', '.join(a_), klo, khi), line=hcall.lineno)
            par = kc.module.parents.get(hcall)
            stored = isinstance(cst, ast.Assign) and norm_text(cst.targets[0]) == kth and cst.value is hcall
            inplace = isinstance(cst, ast.Expr) and cst.value is hcall and a_[0] == kth
            rep.ob('R07.3', kc, 'the clamped vector is the one the iteration continues with', stored or inplace,
                   'the result of the clamp is not what the loop carries on with: %s' % src(cst)[:80], line=cst.lineno)
        jv = lp.target.id if isinstance(lp.target, ast.Name) else '?'
        ok_range = src(lp.iter).replace(' ', '') == 'range(len(%s))' % th
        rep.ob('R07.3', where, 'clamp ranges over every joint', ok_range, 'clamp loop iterates %s, not range(len(%s))' % (src(lp.iter), th), line=lp.lineno)
        seen = set()
        for st in [x for x in lp.body if isinstance(x, ast.If)]:
            t = st.test
            ok, which = False, None
            cp = cmp_parts(t, left='%s[%s]' % (th, jv))
            if cp is not None:
                rhs = cp[2]
                asg = [s_ for s_ in st.body if isinstance(s_, ast.Assign) and not _inert(s_)]
                if cp[1] in ('<', '<=') and rhs == '%s[%s]' % (lo_p, jv):
                    which = 'lower'
                    ok = len(asg) == 1 and norm_text(asg[0].targets[0]) == '%s[%s]' % (th, jv) and norm_text(asg[0].value) == rhs and not st.orelse
                elif cp[1] in ('>', '>=') and rhs == '%s[%s]' % (hi_p, jv):
                    which = 'upper'
                    ok = len(asg) == 1 and norm_text(asg[0].targets[0]) == '%s[%s]' % (th, jv) and norm_text(asg[0].value) == rhs and not st.orelse
            if which:
                seen.add(which)
            rep.ob('R07.3', where, 'clamp: ' + src(t), ok, 'clamp statement does not set joint j to the bound it violates: ' + src(st)[:90], line=st.lineno)
        rep.ob('R07.3', where, 'both bounds clamped', seen == {'lower', 'upper'}, 'clamp handles %s bound(s) only' % sorted(seen), line=lp.lineno)
        # order inside the while body: update <= clamp < recomputation of the pose

        def recomputes(e_, depth=0):
            for c_ in [x for x in ast.walk(e_) if isinstance(x, ast.Call)]:
                nm = c_.func.id if isinstance(c_.func, ast.Name) else (c_.func.attr if isinstance(c_.func, ast.Attribute) else None)
                if nm == 'FKinSpace':
                    return True
                for mod_ in (fm, model.module(tv.PORT_MOD)):
                    f_ = tv.toplevel_funcs(mod_.tree).get(nm)
                    if f_ is not None and nm not in ('IKinSpace', 'IKinBody', 'IKinSpaceConstrained') and depth < 3 and any(recomputes(s_, depth + 1) for s_ in f_.body):
                        return True
            return False
        def writes_th(s_):
            return (isinstance(s_, ast.Assign) and src(s_.targets[0]) == kth) or (isinstance(s_, ast.AugAssign) and src(s_.target) == kth)
        # the loop body is a cycle: read it starting at the first joint update (a loop written `while True: evaluate; if done: break;
        # update; clamp` recomputes the error at the top of the next round)
        first_upd = next((k_ for k_, s_ in enumerate(w.body) if writes_th(s_)), 0)
        cyc = w.body[first_upd:] + w.body[:first_upd]
        pos = cyc.index(cst)
        upd = [s_ for s_ in cyc[:pos + 1] if writes_th(s_)]
        rec = [s_ for s_ in cyc[pos + 1:] if isinstance(s_, ast.Assign) and recomputes(s_.value)]
        late = [s_ for s_ in cyc[pos + 1:] if writes_th(s_)]
        rep.ob('R07.3', kc, 'Newton update <= clamp < error recomputation', bool(upd) and bool(rec) and not late,
               'the clamp does not sit between the joint update and the recomputation of the pose error (or the joints are '
               'changed again after clamping)', line=cst.lineno)
    cik = arm.methods['constrainedIK']
    # retry seeds drawn inside the limits
    seeds = [c for c in walk_own(cik.node) if isinstance(c, ast.Call) and src(c.func) == 'random.uniform']
    for c in seeds:
        a = [src(x) for x in c.args]
        rep.ob('R07.3', cik, src(c), len(a) == 2 and a[0].startswith('self.joint_mins[') and a[1].startswith('self.joint_maxs['),
               'restart seeds are not drawn from inside the joint limits', line=c.lineno)

    # ---------------------------------------------------------------- R07.6
    rep.rule('R07.6', 'the IK kernels never write the storage of the start vector they are given (Arm.IK hands them a view of its own joint state)')
    from ..engine.effects import Effects
    fx = Effects(model)
    for kfi, pname in ((kc, kc.params[3]), (model.func(tv.PORT_MOD, 'IKinSpace'), 'thetalist0'), (model.func(tv.PORT_MOD, 'IKinBody'), 'thetalist0')):
        s_ = fx.summary(kfi)
        sites = [(n_, how) for (p_, k_), lst in s_.writes.items() if p_ == pname and k_ != 'meta' for (n_, how) in lst]
        rep.ob('R07.6', kfi, 'start vector `%s` left unwritten' % pname, not sites,
               ('the solver iterates in place in the caller\'s array (%s, line %d): Arm.IK passes a view of the stored joint vector, so a failed '
                'solve leaves the arm\'s joints at the last iterate while its reported tool pose is unchanged' % (sites[0][1], sites[0][0].lineno)) if sites else 'not written')
    # ---------------------------------------------------------------- R07.4
    rep.rule('R07.4', 'IK/constrainedIK: success may be true at a return only if FK(returned vector) wrote the state; the flag is the '
                      'kernel\'s; every exit leaves the reported pose coherent')
    from .common_ops import flat_method
    for name in ('IK', 'constrainedIK'):
        fi = flat_method(arm, name)          # solver attempts extracted into private helpers are read in place
        results = {}
        clamp = {}

        FREE_KERNELS = ('IKinSpace', 'IKinBody')

        class D(FactDomain):
            # user = (argument of the last FK write-back, that FK call cannot clamp, kernel that produced the current solution)
            def user_call(s, call, facts, user):
                f = call.func
                if isinstance(f, ast.Attribute) and f.attr == 'FK' and isinstance(f.value, ast.Name) and f.value.id == 'self' and call.args:
                    pv = None
                    for k in call.keywords:
                        if k.arg == 'protect':
                            pv = k.value
                    if pv is None and len(call.args) >= 2:
                        pv = call.args[1]
                    unclamped = (isinstance(pv, ast.Constant) and pv.value is True) or (
                        isinstance(pv, ast.Name) and (FactDomain.has(facts, True, pv.id) or FactDomain.has(facts, False, 'not ' + pv.id)))
                    return (src(call.args[0]), unclamped, user[2] if user else None)
                return user

            def user_store(s, target, value, stmt, facts, user):
                user = user or (None, False, None)
                if isinstance(stmt, ast.Assign) and isinstance(stmt.value, ast.Call) and isinstance(stmt.value.func, ast.Attribute) \
                        and stmt.value.func.attr in FREE_KERNELS + ('IKinSpaceConstrained', 'constrainedIK', 'IK'):
                    user = (user[0], user[1], stmt.value.func.attr)
                if isinstance(target, ast.Name) and user[0] is not None and target.id == user[0]:
                    return (None, False, user[2])
                return user
        exits = Flow(D()).run(fi.body(), {((frozenset(), None), frozenset())})
        n_ret = 0
        for e in exits:
            if e.kind != 'return' or e.node.value is None:
                continue
            v = e.node.value
            (facts, ust), _c = e.state
            fk_arg, unclamped, kernel = ust if ust else (None, False, None)
            if isinstance(v, ast.Call):
                # delegation to the sibling solver: its own obligation
                if isinstance(v.func, ast.Attribute) and v.func.attr in ('constrainedIK', 'IK'):
                    rep.ob('R07.4', fi, 'return ' + src(v)[:60], True, 'delegates to the checked sibling', line=e.node.lineno)
                continue
            if not (isinstance(v, ast.Tuple) and len(v.elts) == 2):
                if name == 'constrainedIK' and src(v) == 'self._theta':
                    continue        # input-validation exit (goal is not a transform): outside the property
                rep.ob('R07.4', fi, 'return ' + src(v)[:60], False, 'solver does not return (joint vector, success flag)', line=e.node.lineno)
                continue
            n_ret += 1
            sol, flag = src(v.elts[0]), src(v.elts[1])
            may_succeed = not FactDomain.has(facts, False, flag)
            ok = (not may_succeed) or fk_arg == sol
            key = 'return %s, %s [success %s]' % (sol, flag, 'possible' if may_succeed else 'excluded')
            prev = results.get(key, (True, e.node.lineno))
            results[key] = (prev[0] and ok, e.node.lineno)
            if may_succeed and fk_arg == sol and kernel in FREE_KERNELS:
                k2 = 'write-back of the %s solution cannot clamp' % kernel
                prev = clamp.get(k2, (True, e.node.lineno))
                clamp[k2] = (prev[0] and unclamped, e.node.lineno)
        for key, (ok, line) in sorted(results.items()):
            rep.ob('R07.4', fi, key, ok, 'a path can report success without having written the state through FK(<returned vector>) '
                   '(last FK argument differs or FK was not called)', line=line)
        for key, (ok, line) in sorted(clamp.items()):
            rep.ob('R07.4', fi, key, ok, 'the limit-free solver\'s solution is stored through FK without protect=True: FK clamps the joints to the '
                   'limits (in place - the returned vector too), so success is reported for joints that do not reach the pose the flag was '
                   'computed for', line=line)
        # the flag variable is only ever bound from solver results
        flags = set()
        for n in walk_own(fi.node):
            if isinstance(n, ast.Return) and isinstance(n.value, ast.Tuple) and len(n.value.elts) == 2 and isinstance(n.value.elts[1], ast.Name):
                flags.add(n.value.elts[1].id)
        for fl in sorted(flags):
            for n in walk_own(fi.node):
                if isinstance(n, ast.Assign):
                    for t in n.targets:
                        names = [x.id for x in ast.walk(t) if isinstance(x, ast.Name)]
                        if fl in names:
                            from_solver = isinstance(n.value, ast.Call) and isinstance(n.value.func, ast.Attribute) and \
                                n.value.func.attr in ('IKinSpace', 'IKinSpaceConstrained', 'IKinBody', 'constrainedIK', 'IK') and isinstance(t, ast.Tuple)
                            rep.ob('R07.4', fi, src(n)[:80], from_solver, 'the success flag `%s` is assigned something other than a '
                                   'solver\'s own flag' % fl, line=n.lineno)
    res, _w = ck.exit_marks('pose')
    for fi, (bad, n_exits, own) in res.items():
        if fi.name in ('IK', 'constrainedIK', 'IKFree'):
            for text, (line, ex) in sorted(bad.items()):
                rep.ob('R07.4', fi, text, False, 'after this store (line %s) the solver can leave through %s with the reported tool pose '
                       'not equal to FK(stored joints)' % (line, ex), line=line)
            if not bad:
                rep.ob('R07.4', fi, 'state coherent on every exit of ' + fi.name, True, '%d exits' % n_exits)

    # ---------------------------------------------------------------- R07.12
    # Methods that solve on the user's behalf (a base move that keeps the tool where it is re-solves the joints through self.IK): the state the
    # solver left - solution and its pose on success, a coherent state on failure - must survive to the method's exits.
    rep.rule('R07.12', 'Arm methods that solve through self.IK / self.constrainedIK / self.IKFree leave the solver\'s state: no store to joint vector, '
                       'tool pose, home or screws after the solve reaches an exit without FK re-deriving the tool pose')
    n712 = 0
    for fi, (bad, n_exits, own) in sorted(res.items(), key=lambda kv: kv[0].name):
        if fi.name in ('IK', 'constrainedIK', 'IKFree'):
            continue
        solves = [c for c in ast.walk(fi.node) if isinstance(c, ast.Call) and isinstance(c.func, ast.Attribute) and isinstance(c.func.value, ast.Name)
                  and c.func.value.id == 'self' and c.func.attr in ('IK', 'constrainedIK', 'IKFree')]
        if not solves:
            continue
        n712 += 1
        for text, (line, ex) in sorted(bad.items()):
            rep.ob('R07.12', fi, text, False, '%s solves through self.%s (line %d); after this store (line %s) it can leave through %s with the reported '
                   'tool pose not equal to FK(stored joints): neither the solution nor a coherent failure state'
                   % (fi.name, solves[0].func.attr, solves[0].lineno, line, ex), line=line)
        if not bad:
            rep.ob('R07.12', fi, 'state coherent on every exit of ' + fi.name, True, '%d exits' % n_exits)
    rep.count('Arm methods solving through the IK entry points', n712)
    rep.floor('R07.12', 'Arm methods solving through the IK entry points', n712, 1)

    # ---------------------------------------------------------------- R07.13
    # Between the joint vector a solver verified and the one that is returned and stored sits fsr.angleMod (Arm.FK wraps the vector in place
    # before evaluating it; IK(protect=True) wraps the solver's answer): the wrap must hand back an angle congruent to the one it was given
    rep.rule('R07.13', 'the angle wrap the solvers\' answers pass through (fsr.angleMod and its siblings) replaces an angle by its remainder modulo 2*pi only: '
                       'the vector returned and stored is the configuration the solver verified')
    from .c18 import wrap_store_rule as _wsr
    _wsr(model, rep, 'R07.13')
    # ---------------------------------------------------------------- R07.9
    rep.rule('R07.9', 'IKinSpaceConstrained: the pose error that can end the search is never evaluated for an unclamped joint vector - the start '
                      'vector is clamped before the first evaluation (or by the caller)')
    kth9 = kc.params[3]
    body9 = [s_ for s_ in kc.body()]
    first_eval = next((k_ for k_, s_ in enumerate(body9) if isinstance(s_, ast.Assign) and any(
        isinstance(c_, ast.Call) and (src(c_.func).endswith('FKinSpace')) for c_ in ast.walk(s_.value))), None)
    first_loop = next((k_ for k_, s_ in enumerate(body9) if isinstance(s_, ast.While)), len(body9))
    if first_eval is None or first_eval > first_loop:
        # no evaluation before the loop: a rotated loop (`while True: evaluate; if done: break; update; clamp`) evaluates the raw start too
        wl9 = [s_ for s_ in body9 if isinstance(s_, ast.While)]
        pre = body9[:first_loop] + (wl9[0].body if wl9 else [])
        first_eval = next((k_ for k_, s_ in enumerate(pre) if isinstance(s_, ast.Assign) and any(
            isinstance(c_, ast.Call) and (src(c_.func).endswith('FKinSpace')) for c_ in ast.walk(s_.value))), None)
        head = pre[:first_eval] if first_eval is not None else pre
    else:
        head = body9[:first_eval]
    helpers9 = clamp_helpers({**tv.toplevel_funcs(fm.tree)})
    clamped_in_kernel = any(_is_clamp_loop(s_) for s_ in head) or any(
        isinstance(c_, ast.Call) and ((isinstance(c_.func, ast.Name) and c_.func.id in helpers9) or src(c_.func) in ('np.clip', 'numpy.clip'))
        for s_ in head for c_ in ast.walk(s_))
    # ... or every caller in the library hands over a vector it has clamped (thetaProtector) or drawn inside the limits
    callers_ok = True
    n_calls9 = 0
    for f_ in model.all_funcs:
        for c_ in walk_own(f_.node):
            if isinstance(c_, ast.Call) and src(c_.func).endswith('IKinSpaceConstrained') and len(c_.args) > 3:
                n_calls9 += 1
                a_ = Inliner(f_).expand(c_.args[3])
                t_ = norm_text(a_)
                if not ('thetaProtector(' in t_ or 'np.clip(' in t_):
                    callers_ok = callers_ok and _drawn_inside(f_, c_.args[3])
    rep.ob('R07.9', kc, 'start vector clamped before the first error evaluation', clamped_in_kernel or (n_calls9 > 0 and callers_ok),
           'the error of the raw start vector `%s` can already report success: started outside the limits at (or near) the goal the solver returns '
           'that vector with success, the arm then clamps it, and the pose it reports as reached is not reached' % kth9, line=kc.node.lineno)
    rep.floor('R07.9', 'library call sites of IKinSpaceConstrained', n_calls9, 1)
    # ---------------------------------------------------------------- R07.8
    rep.rule('R07.8', 'IKFree reports success only on a path where the pose error of the very joint vector it returns was evaluated through FK and '
                      'found below the tolerance')
    from ..engine.paths import paths_of
    ikf = arm.methods.get('IKFree')
    if ikf is None:
        raise AnalysisError('anchor vanished: Arm.IKFree')
    goal_p = ikf.params[1]
    n_succ = 0
    for pth in paths_of(ikf.node, ikf.params):
        if pth.ret in (None, '<none>'):
            continue
        try:
            rt = ast.parse(pth.ret_src, mode='eval').body
        except SyntaxError:
            continue
        if not (isinstance(rt, ast.Tuple) and len(rt.elts) == 2):
            continue
        flag = rt.elts[1]
        if isinstance(flag, ast.Constant) and flag.value is not True:
            continue                      # a failure path
        n_succ += 1
        vec = ast.unparse(rt.elts[0]).replace(' ', '')

        def small_error_of_returned(f_):
            if not (isinstance(f_, ast.Compare) and len(f_.ops) == 1 and isinstance(f_.ops[0], (ast.Lt, ast.LtE, ast.Gt, ast.GtE))):
                return False
            lhs = f_.left if isinstance(f_.ops[0], (ast.Lt, ast.LtE)) else f_.comparators[0]        # the side that must be small
            fk_calls = [c for c in ast.walk(lhs) if isinstance(c, ast.Call) and ast.unparse(c.func) == 'self.FK' and c.args
                        and ast.unparse(c.args[0]).replace(' ', '') == vec]
            return bool(fk_calls) and goal_p in {x.id for x in ast.walk(lhs) if isinstance(x, ast.Name)}
        ok = False
        if isinstance(flag, ast.Constant):
            for text, tr in pth.facts.items():
                if tr is not True:
                    continue
                try:
                    f_ = ast.parse(pth.fact_src.get(text, text), mode='eval').body
                except SyntaxError:
                    continue
                if small_error_of_returned(f_):
                    ok = True
        else:
            # the flag is computed, not chosen by a branch: it must be that very comparison (possibly wrapped in bool(...))
            while isinstance(flag, ast.Call) and ast.unparse(flag.func) in ('bool', 'np.bool_') and len(flag.args) == 1:
                flag = flag.args[0]
            ok = small_error_of_returned(flag)
        rep.ob('R07.8', ikf, 'success path of IKFree (line %s)' % pth.ret_line, ok,
               'IKFree returns (%s, True) on a path whose conditions (%s) never compare FK(%s) with the goal: the reported success rests on '
               'something else than the pose the returned joints reach (e.g. the optimiser\'s residual, evaluated for a clamped copy)'
               % (vec[:40], '; '.join('%s is %s' % (k_[:60], v_) for k_, v_ in sorted(pth.facts.items()))[:160], vec[:40]), line=pth.ret_line)
    rep.floor('R07.8', 'success paths of IKFree', n_succ, 1)

    # ---------------------------------------------------------------- R07.10
    # every exit of the solvers writes the state through FK (R07.4): what FK stores must describe one configuration
    rep.rule('R07.10', 'Arm.FK, through which every solver exit writes the state, stores the joint vector it evaluated (the clamped one when it clamps) '
                       'together with the pose of that vector: the state left after a failed solve is coherent')
    from .c05 import fk_core
    fk_core(rep, 'R07.10', arm.methods['FK'])
    # ---------------------------------------------------------------- R07.11
    # A solver entry point that hands FK its own array and then returns THAT array reports the configuration FK evaluated only if the clamp
    # inside FK works in place.  (Returning the stored joints or the clamp's result is independent of that.)
    rep.rule('R07.11', 'a method that returns the array it handed to self.FK(...) relies on the in-place clamp: thetaProtector returns its argument object '
                       'on every clamping path (case analysis of the clamp), so the returned joints are the ones evaluated, checked and stored')
    from .c05 import clamp_rule as _clamp_rule
    from .clampcase import analyse as _clamp_analyse
    from .common_ops import flat_method as _fm711
    tp711 = arm.methods.get('thetaProtector')
    res711 = _clamp_analyse(_fm711(arm, 'thetaProtector').node, tp711.params[1]) if tp711 is not None else {'fresh_on_clamp': False, 'unknown': 'missing'}
    n711 = 0
    for name_, fi_ in sorted(arm.methods.items()):
        handed = {}
        for c_ in walk_own(fi_.node):
            if isinstance(c_, ast.Call) and src(c_.func) == 'self.FK' and c_.args and isinstance(c_.args[0], ast.Name) \
                    and not any(k_.arg == 'protect' for k_ in c_.keywords) and len(c_.args) < 2:
                handed.setdefault(c_.args[0].id, c_.lineno)
        if not handed:
            continue
        for r_ in [x_ for x_ in walk_own(fi_.node) if isinstance(x_, ast.Return) and x_.value is not None]:
            elts = r_.value.elts if isinstance(r_.value, ast.Tuple) else [r_.value]
            for e_ in elts:
                if isinstance(e_, ast.Name) and e_.id in handed and r_.lineno >= handed[e_.id]:
                    # re-bound in between (theta = self._theta.copy(), theta = self.thetaProtector(theta)): not the handed object any more
                    rebound = any(isinstance(a_, ast.Assign) and any(isinstance(t_, ast.Name) and t_.id == e_.id for t_ in a_.targets)
                                  and handed[e_.id] < a_.lineno <= r_.lineno for a_ in walk_own(fi_.node))
                    if rebound:
                        continue
                    n711 += 1
                    rep.ob('R07.11', fi_, '%s returns `%s`, the array it handed to FK (line %d)' % (name_, e_.id, handed[e_.id]), not res711.get('fresh_on_clamp'),
                           '%s evaluates self.FK(%s) for its success test and returns `%s` itself, but thetaProtector gives FK a NEW clamped array when a joint is out of '
                           'range: the caller gets the unclamped solver output together with success = True, while the pose that was checked and the state that was '
                           'stored belong to the clamped vector (joints outside their limits, goal not reached)' % (name_, e_.id, e_.id), line=r_.lineno)
    rep.count('R07.11 returns of an array handed to FK', n711)
    from .c02 import closure_obligations
    n = closure_obligations(model, rep, 'R07.7', [kc, arm.methods['IK'], arm.methods['constrainedIK']], 'the Newton IK solvers (FKinSpace, JacobianSpace, MatrixLog6, Adjoint, TransInv, IKinSpace)')
    rep.floor('R07.7', 'shared primitives under the IK solvers', len(n), 10)
    # ---------------------------------------------------------------- R07.5
    rep.rule('R07.5', 'IKinSpaceConstrained minus its clamp block, parameters mapped by role, has the normal form of IKinSpace')
    node = copy.deepcopy(kc.node)
    for w in [n for n in ast.walk(node) if isinstance(n, ast.While)]:
        w.body = [st for st in w.body if not _is_clamp_loop(st)]
    node.body = [st for st in node.body if not _is_clamp_loop(st)]        # a clamp of the start vector before the first evaluation

    class _Strip(ast.NodeTransformer):
        def visit_Call(s_, n):
            s_.generic_visit(n)
            if isinstance(n.func, ast.Name) and n.func.id in helpers and len(n.args) == 3:
                return n.args[0]            # clamp(x, lo, hi) without the clamp is x
            if src(n.func) in ('np.clip', 'numpy.clip') and len(n.args) == 3 and not n.keywords:
                return n.args[0]
            return n
    node = _Strip().visit(node)
    try:
        a_nz = tv._normalizer(model, fm, node, kc.name)
        a = a_nz.run()
        b, _ = tv.port_nf(model, 'IKinSpace')
    except Unsupported as e:
        raise AnalysisError('IK kernels can no longer be normalised: %s' % e)
    kparams = kc.params
    sparams = model.func(tv.PORT_MOD, 'IKinSpace').params
    role_map = {}
    by_role = {'screws': 0, 'home': 1, 'goal': 2, 'theta': 3}
    for i, p in enumerate(kparams):
        r = ikshape.tol_role(p)
        if r == ikshape.ANG:
            role_map[i] = [j for j, q in enumerate(sparams) if ikshape.tol_role(q) == ikshape.ANG][0]
        elif r == ikshape.LIN:
            role_map[i] = [j for j, q in enumerate(sparams) if ikshape.tol_role(q) == ikshape.LIN][0]
        elif 'iter' in p:
            role_map[i] = [j for j, q in enumerate(sparams) if 'iter' in q][0]
        elif i < 4:
            role_map[i] = i
        else:
            role_map[i] = 100 + i

    def remap(t):
        if isinstance(t, tuple):
            if t and t[0] == 'p' and len(t) == 2 and isinstance(t[1], int):
                return ('p', role_map.get(t[1], t[1]))
            return tuple(remap(x) for x in t)
        return t
    a2 = remap(a)
    same = a2 == b
    d = first_diff(a2, b) if not same else None
    rep.ob('R07.5', kc, 'IKinSpaceConstrained \\ clamp == IKinSpace', same,
           ('limit-respecting kernel deviates from its sibling: constrained: %s | IKinSpace: %s' % (show(d[0]), show(d[1]))) if d else 'equal normal forms')
