"""Shared typestate of class Arm (kinematic state coherence), used by C05 / C06 / C07.

Derived state:
  pose   _end_effector_pos_global  == FKinSpace(_end_effector_home, screw_list, _theta)
  body   screw_list_body           == Ad(inv(_end_effector_home)) . screw_list
Marks:   ('pose', store_text, line)  a source of the tool pose (or the pose itself, by a direct store that is
                                      not a forward-kinematics result) was written and the pose not re-derived
         ('body', store_text, line)  home pose / space screws written and the body screws not re-derived
Sync:    self.FK(x) with x definitely not None (FK writes _theta and the pose from the same clamped vector;
         FK itself is checked by R05.3); the body refresh = store(s) to screw_list_body computed from
         Adjoint(inv(_end_effector_home)) and screw_list.
Self-method calls are analysed inline (context-sensitive, memoised); loops over range(..num_dof..) run at least once.
"""
import ast

from ..engine.model import AnalysisError, src, walk_own
from ..engine.flow import Flow
from ..engine.typestate import FactDomain

ARM = 'basic_robotics.kinematics.arm_model'
POSE_SOURCES = ('_theta', '_end_effector_home', 'screw_list')
BODY_SOURCES = ('_end_effector_home', 'screw_list')
POSE = '_end_effector_pos_global'
BODY = 'screw_list_body'
HELPERS = {
    'initialize': 'dirty helper: rewrites home pose and space screws for a new base; every caller must re-derive the pose',
    'FK': 'the pose sync itself (checked by R05.3)',
}


def self_field(node):
    """node is self.<f> or a subscript chain on it -> f"""
    while isinstance(node, ast.Subscript):
        node = node.value
    if isinstance(node, ast.Attribute) and isinstance(node.value, ast.Name) and node.value.id == 'self':
        return node.attr
    return None


class ArmDomain(FactDomain):
    def __init__(self, ck, fi):
        self.ck = ck
        self.fi = fi
        self.none_params = {p for p, d in fi.defaults.items() if isinstance(d, ast.Constant) and d.value is None}

    def inliner(self):
        if getattr(self, '_il', None) is None:
            from ..engine.inline import Inliner
            self._il = Inliner(self.fi)
        return self._il

    def while_may_skip(self, node, state):
        if True:
            # `k = 0 ... while k < self.num_dof:` is the same at-least-once loop as `for k in range(self.num_dof)`
            t = node.test
            if not (isinstance(t, ast.Compare) and len(t.ops) == 1):
                return True
            l, op, r = t.left, t.ops[0], t.comparators[0]
            if isinstance(op, ast.Gt):
                l, r = r, l
            elif not isinstance(op, ast.Lt):
                return True
            bound = src(r)
            if not (isinstance(l, ast.Name) and ('num_dof' in bound or 'len(self._theta)' in bound)):
                return True
            before = [a for a in ast.walk(self.fi.node) if isinstance(a, (ast.Assign, ast.AugAssign, ast.For)) and a.lineno < node.lineno
                      and any(isinstance(x, ast.Name) and x.id == l.id and isinstance(x.ctx, ast.Store)
                              for tt in (a.targets if isinstance(a, ast.Assign) else [a.target]) for x in ast.walk(tt))]
            return not (len(before) == 1 and isinstance(before[0], ast.Assign) and isinstance(before[0].value, ast.Constant)
                        and before[0].value.value == 0)

    def loop_may_skip(self, node, state):
        it = src(node.iter)
        if it.startswith('range(') and ('num_dof' in it or 'len(self._theta)' in it):
            return False
        # iterating over the columns of a per-joint table (enumerate(self.screw_list.T ...), zip of such): one round per joint, num_dof >= 1
        if ('self.screw_list' in it or 'self._theta' in it or 'self.joint_mins' in it) and ('num_dof' in it or '.T' in it or 'enumerate(' in it or 'zip(' in it):
            return False
        return True

    def user_store(self, target, value, stmt, facts, user):
        f = self_field(target)
        if f is None:
            return user
        marks = set(user)
        key = src(stmt)
        org = self.fi.name
        if f in POSE_SOURCES:
            marks.add(('pose', key, stmt.lineno, org))
        if f in BODY_SOURCES:
            marks.add(('body', key, stmt.lineno, org))
        if f == POSE:
            marks = {m for m in marks if m[0] != 'pose'}
            if not (self.fi.name == 'FK' and self.fi.cls is self.ck.arm):
                marks.add(('pose', key, stmt.lineno, org))
        if f == '_end_effector_home' and value is not None and isinstance(target, ast.Attribute):
            # a base-change write (home pose re-expressed for a new base): the restore backup must follow it
            names = {n.id for n in ast.walk(value) if isinstance(n, ast.Name)}
            if names & {p for p in self.fi.params if 'base' in p}:
                marks.add(('orig', key, stmt.lineno, org))
        if f == '_original_end_effector_home' and value is not None:
            if '_end_effector_home' in src(value) and '_original' not in src(value):
                marks = {m for m in marks if m[0] != 'orig'}
        if f == BODY and value is not None:
            txt = src(self.inliner().expand(value))         # a hoisted Adjoint(inv(home)) is the same refresh
            # a loop variable running over the columns of the space screw table stands for that table
            par = self.fi.module.parents.get(stmt)
            names_v = {n.id for n in ast.walk(value) if isinstance(n, ast.Name)}
            while par is not None and par is not self.fi.node:
                if isinstance(par, ast.For) and names_v & {n.id for n in ast.walk(par.target) if isinstance(n, ast.Name)}:
                    txt += ' <- ' + src(par.iter)
                par = self.fi.module.parents.get(par)
            if 'Adjoint' in txt and '_end_effector_home' in txt and 'inv()' in txt and 'screw_list' in txt:
                marks = {m for m in marks if m[0] != 'body'}
            else:
                marks.add(('body', key, stmt.lineno, org))
        return frozenset(marks)

    def maybe_none(self, arg, facts):
        if isinstance(arg, ast.Constant) and arg.value is None:
            return True
        if isinstance(arg, ast.Name) and arg.id in self.none_params:
            if self.has(facts, False, '%s is None' % arg.id) or self.has(facts, False, '%s == None' % arg.id):
                return False
            # reassigned before use?  (theta = self._helper_ensure_theta_not_none(theta))
            for n in walk_own(self.fi.node):
                if isinstance(n, ast.Assign) and any(isinstance(t, ast.Name) and t.id == arg.id for t in n.targets):
                    if n.lineno <= arg.lineno:
                        return False
            return True
        return False

    def on_call(self, call, state):
        (facts, user), consts = state
        f = call.func
        if isinstance(f, ast.Attribute) and isinstance(f.value, ast.Name) and f.value.id == 'self':
            callee = self.ck.model.find_method(self.ck.arm, f.attr)
            if callee is not None and callee.cls is self.ck.arm:
                if f.attr == 'FK':
                    if call.args and not self.maybe_none(call.args[0], facts):
                        user = frozenset(m for m in user if m[0] != 'pose')
                    return (((facts, user), consts),)
                cc = self.callee_consts(callee, call, consts)
                outs = self.ck.summary(callee, user, cc)
                return tuple(((facts, o), consts) for o in outs)
        return super().on_call(call, state)

    def callee_consts(self, callee, call, consts):
        from ..engine.typestate import consts_get, _UNK, _const_of
        out = set()
        params = callee.params[1:]
        bound = {}
        for p, a in zip(params, call.args):
            bound[p] = a
        for k in call.keywords:
            if k.arg:
                bound[k.arg] = k.value
        for p in params:
            if p in bound:
                a = bound[p]
                v = _const_of(a)
                if v is _UNK and isinstance(a, ast.Name):
                    v = consts_get(consts, a.id)
            else:
                d = callee.defaults.get(p)
                v = _const_of(d) if d is not None else _UNK
            if v is not _UNK:
                out.add((p, v))
        return frozenset(out)

    def assume(self, test, truth, state):
        # type contract: parameters documented as transforms are transforms (input validation paths are out of scope)
        if isinstance(test, ast.Call) and isinstance(test.func, ast.Name) and test.func.id == 'isinstance' and len(test.args) == 2 \
                and isinstance(test.args[0], ast.Name) and test.args[0].id in self.fi.params and not truth:
            return None
        return super().assume(test, truth, state)


class ArmChecker:
    def __init__(self, model):
        self.model = model
        self.arm = model.cls(ARM, 'Arm')
        self._memo = {}
        self._stack = []

    def run_method(self, fi, entry, consts=frozenset()):
        dom = ArmDomain(self, fi)
        exits = Flow(dom).run(fi.body(), {((frozenset(), entry), consts)})
        return [e for e in exits if e.kind in ('return', 'fall')]

    def summary(self, fi, entry, consts=frozenset()):
        k = (fi.key, entry, consts)
        if k in self._memo:
            return self._memo[k]
        if k in self._stack:
            return {entry}
        self._stack.append(k)
        try:
            outs = {e.state[0][1] for e in self.run_method(fi, entry, consts)}
        finally:
            self._stack.pop()
        self._memo[k] = outs
        return outs

    def exit_marks(self, kind):
        """-> {method FuncInfo: {(store_text): (line, exit description)}} and set of writer methods"""
        res = {}
        writers = set()
        for name, fi in sorted(self.arm.methods.items()):
            own_writes = [n for n in walk_own(fi.node) if isinstance(n, (ast.Assign, ast.AugAssign))
                          and any(self_field(t) in POSE_SOURCES + (POSE, BODY) for t in (n.targets if isinstance(n, ast.Assign) else [n.target]))]
            if own_writes:
                writers.add(name)
            if name in HELPERS or (name.startswith('_') and not name.startswith('__')):
                continue
            bad = {}
            exits = self.run_method(fi, frozenset())
            for e in exits:
                for m in e.state[0][1]:
                    if m[0] == kind:
                        # root cause only: the store lies in this method or in a helper that is not itself an entry point
                        org = m[3]
                        if org != name and not (org in HELPERS or org.startswith('_')):
                            continue
                        ex = ('return at line %d' % e.node.lineno) if e.node is not None else 'end of method'
                        bad.setdefault(m[1], (m[2], ex))
            res[fi] = (bad, len(exits), own_writes)
        return res, writers
