"""C19 - message router delivers each received message exactly once per active rule.

Decided statically on Comms (interfaces/comms_core.py), for all rule histories / receive faults:
  R19.1 no fan-out of an empty receive: in getData every use of the received value as a call
        argument (forward / sink) is dominated by a live `received is not None` fact, given that
        some endpoint's getData may return None (may-None summary of the overrides).
  R19.2 registration truthfulness: on every path of setForwardData / setDataSink /
        setDataSource / deleteForwardingRule the returned constant is True iff the path mutated
        a rule table.
  R19.3 no duplicates / no clobbering: every append to a rule list is dominated by a `not in`
        test of the same element against the same list; every whole-key assignment of a rule
        list is dominated by `key not in table`; every remove by `in`.
  R19.4 exact fan-out: getData has one loop per table keyed by the received endpoint's name,
        with exactly one call per element whose argument is the received value; _single_spin
        sends each source's value exactly once to the endpoint of the same key and receives at
        most once per endpoint.
  R19.5 who-may-write: only the registration methods (and the constructor) write the three rule tables
        (forwarding / output_functions / input_functions).
Not decided: real socket behaviour.
"""
import ast

from ..engine.inline import norm_text
from ..engine.model import AnalysisError, src, walk_own
from ..engine.flow import Flow
from ..engine.inline import resolved_in_block
from ..engine.typestate import FactDomain, EventDomain, MUTATORS

MOD = 'basic_robotics.interfaces.comms_core'
TABLES = ('endpoints', 'forwarding', 'output_functions', 'input_functions')
RULE_TABLES = ('forwarding', 'output_functions', 'input_functions')
REGISTRATION = ('setForwardData', 'setDataSink', 'setDataSource', 'deleteForwardingRule')
WRITERS = {
    'endpoints': {'__init__', 'newComPort'},
    'forwarding': {'__init__', 'setForwardData', 'deleteForwardingRule'},
    'output_functions': {'__init__', 'setDataSink'},
    'input_functions': {'__init__', 'setDataSource'},
}


def table_of(expr):
    """expr is `self.<table>` or `self.<table>[k]` (or, as an iterable, `self.<table>.get(k, ())`) -> (table, key_src or None)."""
    if isinstance(expr, ast.Attribute) and isinstance(expr.value, ast.Name) and expr.value.id == 'self' and expr.attr in TABLES:
        return expr.attr, None
    if isinstance(expr, ast.Subscript):
        t = table_of(expr.value)
        if t and t[1] is None:
            return t[0], src(expr.slice)
    if isinstance(expr, ast.Call) and isinstance(expr.func, ast.Attribute) and expr.func.attr == 'get' and len(expr.args) == 2 and not expr.keywords \
            and isinstance(expr.args[1], (ast.Tuple, ast.List)) and not expr.args[1].elts:
        t = table_of(expr.func.value)
        if t and t[1] is None:
            return t[0], src(expr.args[0])          # the rule list of key k, or nothing when there is none
    return None


def dealias(fn_node):
    """locals bound exactly once to a rule list `self.<table>[k]` are replaced by that expression (the rules speak about tables)"""
    import copy
    binds = {}
    for n in ast.walk(fn_node):
        if isinstance(n, ast.Name) and isinstance(n.ctx, (ast.Store, ast.Del)):
            binds[n.id] = binds.get(n.id, 0) + 1
    alias = {}
    for n in ast.walk(fn_node):
        if isinstance(n, ast.Assign) and len(n.targets) == 1 and isinstance(n.targets[0], ast.Name) and binds.get(n.targets[0].id) == 1:
            t = table_of(n.value)
            if t and t[0] in TABLES and t[1] is not None and isinstance(n.value, ast.Subscript):
                alias[n.targets[0].id] = n.value
            v = n.value
            if isinstance(v, ast.Call) and isinstance(v.func, ast.Attribute) and v.func.attr == 'setdefault' and len(v.args) == 2 \
                    and isinstance(v.args[1], ast.List) and not v.args[1].elts:
                tt = table_of(v.func.value)
                if tt and tt[0] in TABLES and tt[1] is None:
                    # lst = self.<table>.setdefault(k, []) : the rule list of key k (an empty list is created when there is none)
                    alias[n.targets[0].id] = ast.copy_location(ast.Subscript(value=copy.deepcopy(v.func.value), slice=copy.deepcopy(v.args[0]), ctx=ast.Load()), v)
            if isinstance(v, ast.Call) and isinstance(v.func, ast.Attribute) and v.func.attr == 'get' and len(v.args) == 2 \
                    and isinstance(v.args[1], (ast.List, ast.Tuple)) and not v.args[1].elts:
                tt = table_of(v.func.value)
                if tt and tt[0] in TABLES and tt[1] is None:
                    # lst = self.<table>.get(k, ()) : the rule list of key k where there is one (an empty stand-in otherwise: nothing to find or remove in it)
                    alias[n.targets[0].id] = ast.copy_location(ast.Subscript(value=copy.deepcopy(v.func.value), slice=copy.deepcopy(v.args[0]), ctx=ast.Load()), v)

    class R(ast.NodeTransformer):
        def visit_Name(self, n):
            if isinstance(n.ctx, ast.Load) and n.id in alias:
                return ast.copy_location(copy.deepcopy(alias[n.id]), n)
            return n

        def visit_Attribute(self, n):
            # self.<table>.setdefault(k, []).append(x): the receiver is the rule list of key k
            self.generic_visit(n)
            v = n.value
            if isinstance(v, ast.Call) and isinstance(v.func, ast.Attribute) and v.func.attr == 'setdefault' and len(v.args) == 2 \
                    and isinstance(v.args[1], ast.List) and not v.args[1].elts:
                tt = table_of(v.func.value)
                if tt and tt[0] in TABLES and tt[1] is None:
                    n.value = ast.copy_location(ast.Subscript(value=v.func.value, slice=v.args[0], ctx=ast.Load()), v)
            return n
    chained = any(isinstance(n, ast.Attribute) and isinstance(n.value, ast.Call) and isinstance(n.value.func, ast.Attribute)
                  and n.value.func.attr == 'setdefault' for n in ast.walk(fn_node))
    return R().visit(fn_node) if (alias or chained) else fn_node


def _is_eq_membership(text, el, lst):
    """the fact text is `any(x == el for x in lst)` (membership by equality, spelled out)"""
    try:
        e = ast.parse(text, mode='eval').body
    except SyntaxError:
        return False
    if not (isinstance(e, ast.Call) and isinstance(e.func, ast.Name) and e.func.id == 'any' and len(e.args) == 1 and isinstance(e.args[0], (ast.GeneratorExp, ast.ListComp))):
        return False
    g = e.args[0]
    if len(g.generators) != 1 or g.generators[0].ifs or not isinstance(g.generators[0].target, ast.Name) or src(g.generators[0].iter) != lst:
        return False
    x = g.generators[0].target.id
    c = g.elt
    return isinstance(c, ast.Compare) and len(c.ops) == 1 and isinstance(c.ops[0], ast.Eq) and {src(c.left), src(c.comparators[0])} == {x, el}


def may_return_none(fi):
    for n in walk_own(fi.node):
        if isinstance(n, ast.Return):
            if n.value is None or (isinstance(n.value, ast.Constant) and n.value.value is None):
                return True
    # falls off the end?
    last = fi.body()[-1] if fi.body() else None
    return not isinstance(last, (ast.Return, ast.Raise))


class Checker:
    def __init__(self, model, rep):
        self.model = model
        self.rep = rep
        self.comms = model.cls(MOD, 'Comms')
        self._flat = {}

    def method(self, name):
        """the method with Comms' private helpers inlined and rule-list aliases resolved (AST partial evaluation; structure only)"""
        f = self.comms.methods.get(name)
        if f is None:
            raise AnalysisError('anchor vanished: Comms.' + name)
        if name in self._flat:
            return self._flat[name]
        import copy
        from ..engine import peval
        flat = peval.flatten({n_: f_.node for n_, f_ in self.comms.methods.items()}, f.node, depth=2, impure=True)
        flat = dealias(flat)

        class _Beta(ast.NodeTransformer):
            # an inlined helper that was handed a lambda applies it on the spot: (lambda p: <e>)(a) is <e> with a for p (plain-name arguments only)
            def visit_Call(s, n):
                n = s.generic_visit(n)
                fn_ = n.func
                if isinstance(fn_, ast.Lambda) and not n.keywords and not fn_.args.vararg and not fn_.args.kwarg and not fn_.args.kwonlyargs \
                        and not fn_.args.defaults and len(n.args) == len(fn_.args.posonlyargs + fn_.args.args) \
                        and all(isinstance(a_, (ast.Name, ast.Constant)) for a_ in n.args):
                    mp = {p_.arg: a_ for p_, a_ in zip(fn_.args.posonlyargs + fn_.args.args, n.args)}

                    class _S(ast.NodeTransformer):
                        def visit_Name(s2, m):
                            if isinstance(m.ctx, ast.Load) and m.id in mp:
                                return copy.deepcopy(mp[m.id])
                            return m
                    return ast.copy_location(_S().visit(copy.deepcopy(fn_.body)), n)
                return n
        flat = _Beta().visit(flat)
        ast.fix_missing_locations(flat)
        g = copy.copy(f)
        g.node = flat
        for parent in ast.walk(flat):
            for ch in ast.iter_child_nodes(parent):
                f.module.parents[ch] = parent
        f.module.parents[flat] = f.module.parents.get(f.node)
        self._flat[name] = g
        return g

    # -------------------------------------------------------------- R19.1
    def r191(self):
        rep = self.rep
        rep.rule('R19.1', 'in Comms.getData every call that passes the received value on is dominated by '
                          '`received is not None` (an endpoint receive may yield None)')
        base = self.model.cls('basic_robotics.interfaces.comms_object', 'CommsObject')
        impls = [c.methods['getData'] for c in [base] + self.model.subclasses(base) if 'getData' in c.methods]
        nones = [f for f in impls if may_return_none(f)]
        rep.count('endpoint getData implementations', len(impls))
        rep.count('endpoint getData implementations that may return None', len(nones))
        fi = self.method('getData')
        # variables holding a received value
        rx = set()
        for n in walk_own(fi.node):
            if isinstance(n, ast.Assign) and isinstance(n.value, ast.Call) and isinstance(n.value.func, ast.Attribute) \
                    and n.value.func.attr == 'getData' and not (isinstance(n.value.func.value, ast.Name) and n.value.func.value.id == 'self'):
                for t in n.targets:
                    if isinstance(t, ast.Name):
                        rx.add(t.id)
        if not rx:
            raise AnalysisError('R19.1: no receive (`x = <endpoint>.getData()`) found in Comms.getData')
        self.rx_names = rx
        found = {}

        class D(FactDomain):
            def user_call(s, call, facts, user):
                for a in list(call.args) + [k.value for k in call.keywords]:
                    if isinstance(a, ast.Name) and a.id in rx:
                        guarded = FactDomain.has(facts, False, '%s is None' % a.id) or FactDomain.has(facts, True, a.id) \
                            or FactDomain.has(facts, False, '%s == None' % a.id)
                        key = src(call)
                        prev = found.get(key, (True, call.lineno))
                        found[key] = (prev[0] and guarded, call.lineno)
                return user
        Flow(D()).run(fi.body(), {((frozenset(), None), frozenset())})
        if not found:
            raise AnalysisError('R19.1: getData passes the received value to nothing (fan-out code not recognised)')
        for key, (ok, line) in sorted(found.items()):
            if not nones:
                ok = True
            rep.ob('R19.1', fi, key, ok,
                   'delivery of a possibly-None receive: %s may return None (time-out / closed port) and this call is '
                   'not dominated by a not-None test' % ', '.join(f.qualname for f in nones) if not ok else 'guarded',
                   line=line)
        rep.floor('R19.1', 'fan-out call sites', len(found), 2)

    # -------------------------------------------------------------- R19.2 / R19.3
    def r192_193(self):
        rep = self.rep
        rep.rule('R19.2', 'registration methods return True exactly on the paths that mutate a rule table')
        rep.rule('R19.3', 'appends guarded by `not in` on the same list, whole-key assignment by `key not in table`, '
                          'remove by `in`')
        total_paths = 0
        for name in REGISTRATION:
            fi = self.method(name)
            r193 = {}

            class D(FactDomain):
                def user_store(s, target, value, stmt, facts, user):
                    t = table_of(target)
                    if t and t[0] in RULE_TABLES and t[1] is not None:
                        ok = FactDomain.has(facts, False, '%s in self.%s' % (t[1], t[0]))
                        k = src(stmt)
                        r193[k] = (r193.get(k, (True,))[0] and ok, stmt.lineno,
                                   'whole rule list of key %s overwritten without a dominating `%s not in self.%s` '
                                   '(existing rules for that endpoint would be dropped)' % (t[1], t[1], t[0]))
                        return True
                    if t and t[0] in RULE_TABLES:
                        return True
                    return user

                def user_call(s, call, facts, user):
                    f = call.func
                    if isinstance(f, ast.Attribute) and f.attr == 'setdefault' and len(call.args) == 2 and isinstance(call.args[1], ast.List) \
                            and not call.args[1].elts:
                        return user            # an empty rule list for a key holds no rule: not a change of the rule set
                    if isinstance(f, ast.Attribute) and f.attr in MUTATORS:
                        t = table_of(f.value)
                        if t and t[0] in RULE_TABLES:
                            lst = src(f.value)
                            if f.attr == 'append' and call.args:
                                el = src(call.args[0])
                                ok = FactDomain.has(facts, False, '%s in %s' % (el, lst)) or any(
                                    tr is False and _is_eq_membership(tx, el, lst) for (tr, tx, _n) in facts)
                                msg = 'append of %s to %s not dominated by `%s not in %s` (duplicate rule => duplicate delivery)' % (el, lst, el, lst)
                            elif f.attr == 'remove' and call.args:
                                el = src(call.args[0])
                                ok = FactDomain.has(facts, True, '%s in %s' % (el, lst))
                                msg = 'remove of %s from %s not dominated by `%s in %s`' % (el, lst, el, lst)
                            else:
                                ok, msg = True, ''
                            k = src(call)
                            r193[k] = (r193.get(k, (True,))[0] and ok, call.lineno, msg)
                            return True
                    return user
            exits = Flow(D()).run(fi.body(), {((frozenset(), False), frozenset())})
            n_paths = 0
            for e in exits:
                if e.kind not in ('return', 'fall'):
                    continue
                n_paths += 1
                (facts, mutated), consts = e.state
                if e.kind == 'fall' or e.node.value is None:
                    ret = None
                    rtxt = 'implicit None'
                else:
                    v = e.node.value
                    rtxt = src(v)
                    if isinstance(v, ast.Constant):
                        ret = v.value
                    elif isinstance(v, ast.Name):
                        from ..engine.typestate import consts_get, _UNK
                        c = consts_get(consts, v.id)
                        ret = c if c is not _UNK else '?'
                    else:
                        ret = '?'
                line = e.node.lineno if e.node is not None else fi.node.end_lineno
                if ret == '?':
                    rep.unresolved_item('R19.2', fi.where, 'return value %s not constant on this path' % rtxt)
                    continue
                ok = bool(ret) == bool(mutated)
                rep.ob('R19.2', fi, 'return %s [table %s]' % (rtxt, 'mutated' if mutated else 'unchanged'), ok,
                       ('path returns %s but %s the rule table' % (rtxt, 'mutated' if mutated else 'did not change'))
                       if not ok else 'truthful', line=line)
            total_paths += n_paths
            for k, (ok, line, msg) in sorted(r193.items()):
                rep.ob('R19.3', fi, k, ok, msg if not ok else 'guarded', line=line)
        rep.floor('R19.2', 'distinct (return, mutated) exits of the registration methods', total_paths, 10)

    # -------------------------------------------------------------- R19.4
    def r194(self):
        rep = self.rep
        rep.rule('R19.4', 'one loop per table keyed by the received endpoint name, exactly one call per element with '
                          'the received value; spin sends each source once to its own endpoint, receives <= once')
        fi = self.method('getData')
        params = fi.params[1:]
        if not params:
            raise AnalysisError('Comms.getData has no endpoint-name parameter')
        keyname = params[0]
        rx = self.rx_names
        # the endpoint read from must be looked up by the same key
        lookups = [n for n in walk_own(fi.node) if isinstance(n, ast.Call) and isinstance(n.func, ast.Attribute)
                   and n.func.attr == 'getCom' and n.args]
        for c in lookups:
            rep.ob('R19.4', fi, src(c), src(c.args[0]) == keyname,
                   'endpoint looked up by %s, not by the requested name %s' % (src(c.args[0]), keyname), line=c.lineno)
        loops = [n for n in walk_own(fi.node) if isinstance(n, ast.For)]
        seen_tables = {}
        for lp in loops:
            t = table_of(lp.iter)
            if not t or t[0] not in ('forwarding', 'output_functions'):
                continue
            seen_tables.setdefault(t[0], []).append(lp)
            ok_key = t[1] == keyname
            rep.ob('R19.4', fi, 'for %s in %s' % (src(lp.target), src(lp.iter)), ok_key,
                   'fan-out iterates the rules of key %s, not of the receiving endpoint %s' % (t[1], keyname), line=lp.lineno)
            lv = lp.target.id if isinstance(lp.target, ast.Name) else None
            # exactly one delivery call per iteration on every path of the body
            want_method = 'sendData' if t[0] == 'forwarding' else None

            def is_delivery(call):
                f = call.func
                if want_method:
                    return isinstance(f, ast.Attribute) and f.attr == want_method and isinstance(f.value, ast.Name) and f.value.id == lv
                return isinstance(f, ast.Name) and f.id == lv

            class Cnt(EventDomain):
                def on_call(s, call, state):
                    n, consts = state
                    if is_delivery(call):
                        good = len(call.args) >= 1 and isinstance(call.args[0], ast.Name) and call.args[0].id in rx
                        if not good:
                            return ((('badarg', src(call)), consts),)
                        if isinstance(n, int):
                            return ((min(n + 1, 2), consts),)
                    return (state,)
            exits = Flow(Cnt()).run(lp.body, {(0, frozenset())})
            counts = {e.state[0] for e in exits if e.kind == 'fall'} | {e.state[0] for e in exits if e.kind == 'return'}
            ok = counts == {1}
            rep.ob('R19.4', fi, 'deliveries per element of self.%s[%s]' % (t[0], t[1]), ok,
                   'per-iteration delivery counts/arguments on the paths of the loop body: %s (must be exactly one call '
                   'with the received value)' % sorted(map(str, counts)), line=lp.lineno)
        # eager comprehension forms of the same fan-out are accepted; short-circuiting consumers (all/any) are not
        for node in walk_own(fi.node):
            if isinstance(node, (ast.ListComp, ast.GeneratorExp, ast.SetComp)) and len(node.generators) == 1:
                t = table_of(node.generators[0].iter)
                if not t or t[0] not in ('forwarding', 'output_functions'):
                    continue
                par = fi.module.parents.get(node)
                eager = isinstance(node, ast.ListComp) or (isinstance(par, ast.Call) and isinstance(par.func, ast.Name) and par.func.id in ('list', 'tuple', 'sum', 'sorted'))
                lazy_consumer = src(par.func) if isinstance(par, ast.Call) else 'a generator'
                lv = node.generators[0].target.id if isinstance(node.generators[0].target, ast.Name) else None
                el = node.elt
                if t[0] == 'forwarding':
                    deliv = isinstance(el, ast.Call) and isinstance(el.func, ast.Attribute) and el.func.attr == 'sendData' and src(el.func.value) == lv
                else:
                    deliv = isinstance(el, ast.Call) and isinstance(el.func, ast.Name) and el.func.id == lv
                good_arg = deliv and len(el.args) >= 1 and isinstance(el.args[0], ast.Name) and el.args[0].id in rx
                ok = eager and good_arg and t[1] == keyname and not node.generators[0].ifs
                seen_tables.setdefault(t[0], []).append(node)
                rep.ob('R19.4', fi, 'fan-out comprehension over self.%s[%s]' % (t[0], t[1]), ok,
                       ('deliveries are produced lazily and consumed by %s, which stops at the first falsy result: later destinations never '
                        'receive the message' % lazy_consumer) if not eager else 'comprehension does not deliver the received value once per element of the '
                       'receiving endpoint\'s rule list', line=node.lineno)
        for tname in ('forwarding', 'output_functions'):
            n = len(seen_tables.get(tname, []))
            rep.ob('R19.4', fi, 'fan-out loops over self.%s' % tname, n == 1,
                   '%d loops over self.%s in getData (exactly one expected: zero loses messages, two duplicates them)' % (n, tname))
        # loops must not be nested in one another / in another loop
        for lp in loops:
            p = fi.module.parents.get(lp)
            while p is not None and p is not fi.node:
                if isinstance(p, (ast.For, ast.While)):
                    rep.ob('R19.4', fi, 'nesting of for %s' % src(lp.target), False,
                           'fan-out loop nested inside another loop: deliveries multiply', line=lp.lineno)
                p = fi.module.parents.get(p)
        # the value returned to the caller is the received one
        for n in walk_own(fi.node):
            if isinstance(n, ast.Return) and n.value is not None and not (isinstance(n.value, ast.Constant) and n.value.value is None):
                rep.ob('R19.4', fi, src(n), isinstance(n.value, ast.Name) and n.value.id in rx,
                       'getData returns something other than the received value', line=n.lineno)
        self._spin()

    def _spin(self):
        rep = self.rep
        fi = self.method('_single_spin')
        outer = [n for n in fi.body() if isinstance(n, ast.For)]
        if len(outer) != 1 or table_of(outer[0].iter) != ('endpoints', None) or not isinstance(outer[0].target, ast.Name):
            raise AnalysisError('R19.4: _single_spin is no longer a single loop over self.endpoints')
        lp = outer[0]
        name = lp.target.id
        # endpoint variables bound from getCom(name)
        ep_vars = {}
        for n in ast.walk(lp):
            if isinstance(n, ast.Assign) and isinstance(n.value, ast.Call) and isinstance(n.value.func, ast.Attribute) \
                    and n.value.func.attr == 'getCom' and n.value.args and isinstance(n.targets[0], ast.Name):
                ep_vars[n.targets[0].id] = src(n.value.args[0])
        inner = [n for n in ast.walk(lp) if isinstance(n, ast.For) and n is not lp]
        src_loops = [l for l in inner if (table_of(l.iter) or (None,))[0] == 'input_functions']
        rep.ob('R19.4', fi, 'source loops per endpoint', len(src_loops) == 1,
               '%d loops over self.input_functions in one spin (exactly one expected)' % len(src_loops), line=lp.lineno)
        for l in src_loops:
            t = table_of(l.iter)
            rep.ob('R19.4', fi, 'for %s in %s' % (src(l.target), src(l.iter)), t[1] == name,
                   'sources of key %s are sent while visiting endpoint %s' % (t[1], name), line=l.lineno)
            fv = l.target.id if isinstance(l.target, ast.Name) else None

            class Cnt(EventDomain):
                def on_call(s, call, state):
                    (sends, evals), consts = state
                    f = call.func
                    if isinstance(f, ast.Name) and f.id == fv:
                        evals = min(evals + 1, 2)
                    if isinstance(f, ast.Attribute) and f.attr == 'sendData':
                        recv = f.value
                        to_ok = isinstance(recv, ast.Name) and ep_vars.get(recv.id) == name
                        a0 = resolved_in_block(l.body, call.args[0]) if len(call.args) == 1 else None
                        arg_ok = isinstance(a0, ast.Call) and isinstance(a0.func, ast.Name) and a0.func.id == fv and not a0.args
                        if not (to_ok and arg_ok):
                            return (((('bad', src(call)), evals), consts),)
                        if isinstance(sends, int):
                            sends = min(sends + 1, 2)
                    return (((sends, evals), consts),)
            exits = Flow(Cnt()).run(l.body, {((0, 0), frozenset())})
            outs = {e.state[0] for e in exits if e.kind in ('fall', 'return')}
            rep.ob('R19.4', fi, 'sends per source of self.input_functions[%s]' % t[1], outs == {(1, 1)},
                   '(sends, source evaluations) per source on the paths of the loop body: %s; must be exactly (1, 1) to the '
                   'endpoint of the same key' % sorted(map(str, outs)), line=l.lineno)
        # receives per endpoint per spin: at most one, keyed by the loop variable

        class Rcv(EventDomain):
            def on_call(s, call, state):
                n, consts = state
                f = call.func
                if isinstance(f, ast.Attribute) and f.attr == 'getData':
                    if isinstance(f.value, ast.Name) and f.value.id == 'self':
                        if not (call.args and src(call.args[0]) == name):
                            return ((('badkey', src(call)), consts),)
                    if isinstance(n, int):
                        return ((min(n + 1, 2), consts),)
                return (state,)

            def enter_loop(s, node, state):
                return (state,)
        self._poll_guard(fi, lp, name)
        body_wo_sources = lp.body
        exits = Flow(Rcv()).run(body_wo_sources, {(0, frozenset())})
        outs = {e.state[0] for e in exits if e.kind in ('fall', 'return')}
        rep.ob('R19.4', fi, 'receives per endpoint per spin', outs <= {0, 1} and 1 in outs,
               'receive counts per endpoint visit: %s (must be 0 or 1, keyed by the visited endpoint)' % sorted(map(str, outs)), line=lp.lineno)

    # -------------------------------------------------------------- R19.7
    def r197(self):
        """What an endpoint's getData returns belongs to THIS receive: None, or a value made on the path (a local, or a field of the
        endpoint the path itself stored).  A field read back without having been stored on the path is what an earlier receive left
        there: a time-out would then deliver the previous message once more."""
        from ..engine.paths import paths_of
        rep = self.rep
        rep.rule('R19.7', 'endpoint getData returns None or a value of this very receive (never a field left by an earlier receive)')
        base = self.model.cls('basic_robotics.interfaces.comms_object', 'CommsObject')
        n = 0
        for c in self.model.subclasses(base):
            fi = c.methods.get('getData')
            if fi is None:
                continue
            try:
                ps = paths_of(fi.node, fi.params)
            except RuntimeError as ex:
                rep.unresolved_item('R19.7', fi.where, 'paths of %s not summarised (%s)' % (fi.qualname, ex))
                continue
            stale = []
            for pth in ps:
                if pth.ret in (None, '<none>', 'None'):
                    continue
                n += 1
                try:
                    rt = ast.parse(pth.ret_src, mode='eval').body
                except SyntaxError:
                    continue
                stored = {e[1] for e in pth.events if e[0] == 'store'}
                if any(isinstance(c_, ast.Call) for c_ in ast.walk(rt)):
                    continue              # obtained by a call made on this path (a read through the handle): of this receive
                for a in ast.walk(rt):
                    if isinstance(a, ast.Attribute) and isinstance(a.value, ast.Name) and a.value.id == 'self' and isinstance(a.ctx, ast.Load):
                        if 'self.%s' % a.attr not in stored:
                            stale.append(('self.%s' % a.attr, pth.ret_line, sorted(pth.facts.items())[:2]))
            rep.ob('R19.7', fi, '%s returns a value of this receive on every path' % fi.qualname, not stale,
                   '%s can return %s on a path that never stores it (%s): after a receive that brought nothing (time-out) the caller gets the PREVIOUS '
                   'message again, and Comms.getData forwards and sinks it a second time' % (fi.qualname, stale[0][0] if stale else '', stale[0][2] if stale else ''),
                   line=stale[0][1] if stale else None)
        rep.floor('R19.7', 'data-returning paths of endpoint receives', n, 1)

    # -------------------------------------------------------------- R19.6
    def _poll_guard(self, fi, lp, name):
        """An endpoint that has at least one active rule (a non-empty forwarding list or a non-empty sink list) must be polled in
        every spin: the condition under which `self.getData(name)` is skipped is evaluated, path by path, for every combination of
        (key present, list non-empty) of the two tables."""
        import itertools
        from ..engine.paths import paths_of_block
        rep = self.rep
        rep.rule('R19.6', 'spin polls every endpoint that has an active forwarding rule or sink (whatever the state of the other table)')

        def ev(e, A):
            """abstract value: ('list', nonempty) | ('none',) | ('bool', b) | None (not understood)"""
            if isinstance(e, ast.Constant):
                if e.value is None:
                    return ('none',)
                if isinstance(e.value, bool):
                    return ('bool', e.value)
                return None
            if isinstance(e, (ast.List, ast.Tuple)):
                return ('list', bool(e.elts))
            if isinstance(e, ast.UnaryOp) and isinstance(e.op, ast.Not):
                v = truth(ev(e.operand, A))
                return None if v is None else ('bool', not v)
            if isinstance(e, ast.BoolOp):
                vs = [truth(ev(x, A)) for x in e.values]
                if isinstance(e.op, ast.Or):
                    if any(v is True for v in vs):
                        return ('bool', True)
                    return None if any(v is None for v in vs) else ('bool', False)
                if any(v is False for v in vs):
                    return ('bool', False)
                return None if any(v is None for v in vs) else ('bool', True)
            if isinstance(e, ast.Compare) and len(e.ops) == 1:
                l, op, r = e.left, e.ops[0], e.comparators[0]
                if isinstance(op, (ast.In, ast.NotIn)) and src(l) == name:
                    t = table_of(r)
                    if t and t[1] is None and t[0] in ('forwarding', 'output_functions'):
                        return ('bool', A[t[0]][0] == isinstance(op, ast.In))
                # len(x) > 0 / len(x) != 0 / len(x) == 0
                if isinstance(l, ast.Call) and src(l.func) == 'len' and len(l.args) == 1 and isinstance(r, ast.Constant) and r.value == 0:
                    v = truth(ev(l.args[0], A))
                    if v is None:
                        return None
                    if isinstance(op, (ast.Gt, ast.NotEq)):
                        return ('bool', v)
                    if isinstance(op, ast.Eq):
                        return ('bool', not v)
                if isinstance(op, (ast.Is, ast.IsNot)) and isinstance(r, ast.Constant) and r.value is None:
                    v = ev(l, A)
                    if v is None:
                        return None
                    return ('bool', (v == ('none',)) == isinstance(op, ast.Is))
                return None
            if isinstance(e, ast.Call) and src(e.func) == 'len' and len(e.args) == 1:
                v = truth(ev(e.args[0], A))
                return None if v is None else ('bool', v)
            if isinstance(e, ast.Call) and isinstance(e.func, ast.Attribute) and e.func.attr == 'get' and 1 <= len(e.args) <= 2 and src(e.args[0]) == name:
                t = table_of(e.func.value)
                if t and t[1] is None and t[0] in ('forwarding', 'output_functions'):
                    present, nonempty = A[t[0]]
                    if present:
                        return ('list', nonempty)
                    return ('none',) if len(e.args) == 1 else ev(e.args[1], A)
                return None
            if isinstance(e, ast.Subscript):
                t = table_of(e)
                if t and t[1] == name and t[0] in ('forwarding', 'output_functions'):
                    return ('list', A[t[0]][1])
            return None

        def truth(v):
            if v is None:
                return None
            if v[0] == 'list' or v[0] == 'bool':
                return v[1]
            return False
        try:
            ends, brks, exits = paths_of_block(lp.body, fi.params)
        except RuntimeError as ex:
            raise AnalysisError('R19.6: _single_spin cannot be summarised (%s)' % ex)
        states = [(p_, n_) for (p_, n_) in ((True, True), (True, False), (False, False))]
        missed, unknown = [], []
        n_cases = 0
        for fa, oa in itertools.product(states, states):
            A = {'forwarding': fa, 'output_functions': oa}
            if not (fa[1] or oa[1]):
                continue                   # no active rule: nothing has to be delivered
            n_cases += 1
            for pth in list(ends) + list(brks) + list(exits):
                feasible, understood = True, True
                for text, tr in pth.facts.items():
                    try:
                        node = ast.parse(pth.fact_src.get(text, text), mode='eval').body
                    except SyntaxError:
                        understood = False
                        continue
                    v = truth(ev(node, A))
                    if v is None:
                        if any(tb in text for tb in ('forwarding', 'output_functions')):
                            understood = False
                        continue               # a condition about something else (debug flags, ...): either way
                    if v != tr:
                        feasible = False
                        break
                if not feasible:
                    continue
                polled = bool(pth.calls(lambda t: t == 'self.getData'))
                if not polled:
                    (missed if understood else unknown).append((A, sorted(pth.facts.items())))
        desc = lambda A: ', '.join('%s: %s' % (k_, 'non-empty list' if v_[1] else ('empty list' if v_[0] else 'no entry')) for k_, v_ in sorted(A.items()))
        rep.ob('R19.6', fi, 'poll guard understood', not unknown,
               'the condition guarding self.getData(%s) is not understood: %s' % (name, unknown[0][1] if unknown else ''), shape=True, line=lp.lineno)
        rep.ob('R19.6', fi, 'every endpoint with an active rule is polled', not missed,
               'an endpoint with an active rule is not polled when the tables hold (%s): its sinks / forwarding destinations stop receiving '
               '(e.g. after the last forwarding rule was deleted while sinks remain)' % (desc(missed[0][0]) if missed else ''), line=lp.lineno)
        rep.floor('R19.6', 'table states with an active rule examined', n_cases, 5)

    # -------------------------------------------------------------- R19.5
    def r195(self):
        rep = self.rep
        rep.rule('R19.5', 'only the registration methods (and the constructor) write the three rule tables (whole repository)')
        n = 0
        for fi in self.model.all_funcs:
            n += 1
            for node in walk_own(fi.node):
                hits = []
                if isinstance(node, (ast.Assign, ast.AugAssign, ast.AnnAssign)):
                    tg = node.targets if isinstance(node, ast.Assign) else [node.target]
                    for t in tg:
                        hits.extend(self._table_refs(t))
                elif isinstance(node, ast.Delete):
                    for t in node.targets:
                        hits.extend(self._table_refs(t))
                elif isinstance(node, ast.Call) and isinstance(node.func, ast.Attribute) and node.func.attr in MUTATORS:
                    hits.extend(self._table_refs(node.func.value))
                for tbl, is_self in hits:
                    if is_self and not (fi.cls is not None and self.comms in self.model.mro(fi.cls)):
                        continue          # `self.<name>` of an unrelated class (e.g. the OPC client's own endpoints)
                    if tbl == 'endpoints':
                        continue          # the endpoint map is not a rule table; subclasses (OPC client) register endpoints too
                    allowed = fi.cls is not None and self.comms in self.model.mro(fi.cls) and fi.name in WRITERS[tbl]
                    rep.ob('R19.5', fi, src(node), allowed,
                           'write to rule table .%s outside its registration methods %s' % (tbl, sorted(WRITERS[tbl])),
                           line=node.lineno)
        rep.count('functions scanned for table writers', n)

    def r198(self):
        """spin(n) runs its rounds whatever happened before.  A hub field that spin both tests and writes (a latch such as a re-entrancy flag)
        must be back at its initial value on every way out of spin on which it was written; otherwise one early exit silences every later
        spin - nothing is sent, forwarded or given to the sinks any more."""
        from ..engine.paths import paths_of
        rep = self.rep
        rep.rule('R19.8', 'spin leaves no latch behind: a field of the hub that spin tests and writes has its initial value again on every exit of spin '
                          'on which it was written')
        sp = self.comms.methods.get('spin')
        if sp is None:
            raise AnalysisError('anchor vanished: Comms.spin')

        def field(e):
            return e.attr if isinstance(e, ast.Attribute) and isinstance(e.value, ast.Name) and e.value.id == 'self' else None
        tested = set()
        for n in walk_own(sp.node):
            if isinstance(n, (ast.If, ast.While)):
                tested |= {field(x) for x in ast.walk(n.test) if field(x)}
        written = {}
        for n in walk_own(sp.node):
            if isinstance(n, ast.Assign):
                for t in n.targets:
                    if field(t):
                        written.setdefault(field(t), []).append(n)
        latches = sorted((tested & set(written)) - set(TABLES))
        init = {}
        for n in self.comms.node.body:
            if isinstance(n, ast.Assign) and len(n.targets) == 1 and isinstance(n.targets[0], ast.Name):
                init[n.targets[0].id] = norm_text(n.value)
        ini = self.comms.methods.get('__init__')
        if ini is not None:
            for n in walk_own(ini.node):
                if isinstance(n, ast.Assign):
                    for t in n.targets:
                        if field(t):
                            init[field(t)] = norm_text(n.value)
        if not latches:
            rep.ob('R19.8', sp, 'spin tests only its argument and the rule tables', True, 'no field of the hub is both tested and written by spin')
            return
        for f_ in latches:
            v0 = init.get(f_)
            for pth in paths_of(sp.node, sp.params):
                if pth.kind not in ('return', 'fall'):
                    continue
                st = [e for e in pth.events if e[0] == 'store' and e[1] == 'self.' + f_ and len(e) > 3]
                if not st:
                    continue
                last = norm_text(st[-1][3])
                rep.ob('R19.8', sp, 'self.%s back at %s on the exit at line %s' % (f_, v0, pth.ret_line or 'end'), v0 is not None and last == v0,
                       'spin can leave through %s with self.%s = %s (it starts as %s and spin tests it on entry): after that exit every later spin '
                       'returns at once - sources are not sent, received messages are neither forwarded nor given to the sinks'
                       % ('line %s' % pth.ret_line if pth.ret_line else 'its end', f_, last, v0), line=pth.ret_line or st[-1][2])

    # -------------------------------------------------------------- R19.9
    def r199(self):
        """Every message handed to an endpoint is transmitted: whether sendData transmits may depend on the endpoint (open / closed), never on
        what the message is.  The hub hands endpoints exactly what was received or produced - including '' (a zero-length datagram) and other
        falsy payloads - after filtering None itself, so a value test in sendData drops messages the router has counted as delivered."""
        from ..engine.paths import paths_of
        rep = self.rep
        rep.rule('R19.9', 'sendData (every endpoint class, and the hub) transmits every message: no path that skips the transmission is selected by a test '
                          'of the message value (identity tests against None excepted)')
        base = self.model.cls('basic_robotics.interfaces.comms_object', 'CommsObject')
        targets = [c.methods['sendData'] for c in self.model.subclasses(base) if 'sendData' in c.methods]
        if 'sendData' in self.comms.methods:
            targets.append(self.comms.methods['sendData'])
        n = 0
        for fi in targets:
            msgp = fi.params[2] if fi in self.comms.methods.values() and len(fi.params) > 2 else (fi.params[1] if len(fi.params) > 1 else None)
            if msgp is None:
                continue
            try:
                ps = paths_of(fi.node, fi.params)
            except RuntimeError as ex:
                rep.unresolved_item('R19.9', fi.where, 'paths of %s not summarised (%s)' % (fi.qualname, ex))
                continue
            n += 1
            bad = None
            for pth in ps:
                if pth.kind not in ('return', 'fall'):
                    continue

                def mentions(txt):
                    try:
                        return any(isinstance(x, ast.Name) and x.id == msgp for x in ast.walk(ast.parse(txt, mode='eval')))
                    except SyntaxError:
                        return msgp in txt
                # a transmission hands the message (or something made from it) to a callee; inspecting it (len, isinstance, ...) is not one
                INSPECT = ('len', 'isinstance', 'type', 'bool', 'str', 'repr', 'print', 'int', 'float', 'hash', 'id', 'bytes', 'disp')
                sent = any(e[0] == 'call' and e[1] not in INSPECT and any(mentions(a) for a in (e[4] if len(e) > 4 else e[2])) for e in pth.events)
                if sent:
                    continue
                for k, truth in pth.facts.items():
                    srck = pth.fact_src.get(k, k)
                    if not mentions(srck):
                        continue
                    kk = k.replace(' ', '')
                    if kk in ('%sisNone' % msgp, '%s==None' % msgp, '%sisnotNone' % msgp, '%s!=None' % msgp):
                        continue
                    bad = (srck, truth, pth.ret_line)
                    break
                if bad:
                    break
            rep.ob('R19.9', fi, '%s transmits whatever the message is' % fi.qualname, bad is None,
                   ('%s skips the transmission when `%s` is %s: a valid message for which that holds (the empty string of a zero-length datagram, b\'\', 0, ...) is '
                    'dropped although the hub delivered it - the destination sees it zero times, the sinks of the same endpoint once' % (fi.qualname, bad[0], bad[1])) if bad else 'ok',
                   line=bad[2] if bad else None)
        rep.floor('R19.9', 'sendData implementations examined', n, 2)

    # -------------------------------------------------------------- R19.10
    def r1910(self):
        """openAll / closeAll reach EVERY endpoint: the per-endpoint open / close call sits in the loop over the endpoint table and is
        evaluated in every round - not in the right operand of `and` / `or`, an arm of a conditional expression, or under a test of what the
        earlier endpoints returned (then one endpoint's result silently decides whether the others are opened)."""
        rep = self.rep
        rep.rule('R19.10', 'openAll / closeAll call openCom / closeCom on every endpoint unconditionally (one loop over the endpoint table, the call not short-circuited '
                           'or guarded by earlier results)')
        n = 0
        for meth, want in (('openAll', 'openCom'), ('closeAll', 'closeCom')):
            fi = self.comms.methods.get(meth)
            if fi is None:
                continue
            loops = [l_ for l_ in walk_own(fi.node) if isinstance(l_, ast.For) and 'endpoints' in norm_text(l_.iter)]
            calls = [c_ for l_ in loops for c_ in ast.walk(l_) if isinstance(c_, ast.Call) and isinstance(c_.func, ast.Attribute) and c_.func.attr == want]
            rep.ob('R19.10', fi, '%s: %s() called inside a loop over the endpoint table' % (meth, want), bool(calls),
                   '%s has no %s() call in a loop over self.endpoints' % (meth, want))
            assigned = {t_.id for a_ in walk_own(fi.node) if isinstance(a_, (ast.Assign, ast.AugAssign)) for t0 in (a_.targets if isinstance(a_, ast.Assign) else [a_.target])
                        for t_ in ast.walk(t0) if isinstance(t_, ast.Name)}
            for c_ in calls:
                n += 1
                why = None
                node, par = c_, fi.module.parents.get(c_)
                while par is not None and par not in loops:
                    if isinstance(par, ast.BoolOp) and node is not par.values[0]:
                        why = 'the right operand of `%s`' % ('and' if isinstance(par.op, ast.And) else 'or')
                    elif isinstance(par, ast.IfExp) and node is not par.test:
                        why = 'an arm of a conditional expression'
                    elif isinstance(par, ast.If) and node not in ([par.test] + list(ast.walk(par.test))) and \
                            any(isinstance(x_, ast.Name) and x_.id in assigned for x_ in ast.walk(par.test)):
                        why = 'a branch taken depending on `%s`' % norm_text(par.test)[:40]
                    elif isinstance(par, (ast.Try,)) and node in [x_ for h_ in par.handlers for x_ in ast.walk(h_)]:
                        why = 'an exception handler'
                    if why:
                        break
                    node, par = par, fi.module.parents.get(par)
                rep.ob('R19.10', fi, '%s: %s evaluated in every round' % (meth, norm_text(c_)[:50]), why is None,
                       '%s() sits in %s: once an earlier endpoint makes that skip it, the remaining endpoints are silently left %s - messages forwarded to them are dropped, '
                       'their sources are not sent, receives on them yield nothing' % (want, why, 'closed' if want == 'openCom' else 'open'), line=c_.lineno)
        rep.floor('R19.10', 'per-endpoint open / close calls', n, 2)

    def r1911(self):
        """Which names are endpoints: the registration methods take `getCom(name) is None` as `unknown endpoint`, while deliveries and source polls
        are driven by the KEYS of the endpoint table (spin loops over them; getData(name) looks the rule tables up under the key it was given).
        The two agree only when getCom finds an endpoint by its key and by nothing else: every value it returns is None or the table entry
        under its argument.  (An endpoint also found by a display name makes a registration under that name `succeed` and never be served.)"""
        from ..engine.paths import paths_of
        rep = self.rep
        rep.rule('R19.11', 'Comms.getCom returns None or the endpoint-table entry stored under its argument: an endpoint is known exactly under its table key')
        fi = self.comms.methods.get('getCom')
        if fi is None:
            raise AnalysisError('anchor vanished: Comms.getCom')
        nm = fi.params[1] if len(fi.params) > 1 else None
        n = 0
        keyed = {'self.endpoints[%s]' % nm, 'self.endpoints.get(%s)' % nm, 'self.endpoints.get(%s,None)' % nm}
        for pth in paths_of(fi.node, fi.params):
            if pth.kind == 'fall' or pth.ret is None or pth.ret == 'None':
                continue
            n += 1
            r = pth.ret
            ok = r in keyed
            if not ok and r.startswith('self.endpoints[') and r.endswith(']'):
                k_ = r[len('self.endpoints['):-1]
                ok = any(pth.facts.get(f_) is True for f_ in ('%s==%s' % (k_, nm), '%s==%s' % (nm, k_)))
            rep.ob('R19.11', fi, 'returns %s' % r[:60], ok,
                   'getCom can return %s, which is not the entry stored under `%s`: a name that is not a key of the endpoint table is then a known endpoint '
                   'for the registration methods (they report success and create table rows) but never for spin / getData, which go by the keys' % (r[:60], nm),
                   line=pth.ret_line)
        rep.floor('R19.11', 'non-None returns of getCom', n, 1)

    def r1912(self):
        """The forwarding table holds endpoint OBJECTS; `destination not in rules`, `rules.remove(destination)` and the exactly-once delivery loop
        all decide by equality.  Endpoints are distinct channels exactly when they are distinct objects (default identity equality): an
        __eq__ / __hash__ on the endpoint classes that calls two registered endpoints equal (same display name, same type, ...) merges their
        rules - the second registration is refused, one removal deletes the other's rule."""
        rep = self.rep
        rep.rule('R19.12', 'endpoint classes (CommsObject and its subclasses) keep identity equality: none defines __eq__ / __ne__ / __hash__, on which the rule tables\' '
                           'membership tests and removals rely')
        base = self.model.cls('basic_robotics.interfaces.comms_object', 'CommsObject')
        if base is None:
            raise AnalysisError('anchor vanished: CommsObject')
        classes = [base] + [c for c in self.model.subclasses(base) if c is not base]
        for c in classes:
            present = [h for h in ('__eq__', '__ne__', '__hash__') if h in c.methods]
            rep.ob('R19.12', c.methods[present[0]] if present else (next(iter(c.methods.values())) if c.methods else c.module.relpath),
                   '%s compares by identity' % c.name, not present,
                   '%s defines %s: two distinct registered endpoints that this equality calls equal are one destination for the hub - `not in` refuses the second '
                   'forwarding rule although the rule set would change, `remove` deletes the other endpoint\'s rule, and messages reach one of them only'
                   % (c.name, ', '.join(present)), qualname=c.name)
        rep.floor('R19.12', 'endpoint classes', len(classes), 2)

    # -------------------------------------------------------------- R19.13
    def r1913(self):
        """An empty message is a message.  Whether a receive brought something is decided by comparing what the transport handed back with
        None (identity or equality), in the endpoint receives and in the hub: a truthiness / length / emptiness test of the received value on
        the way to `return None` makes a zero-length datagram (b'', '') a time-out - it reaches no forwarding destination and no sink although
        it was received."""
        from ..engine.paths import paths_of
        rep = self.rep
        rep.rule('R19.13', 'getData (every endpoint class, and the hub): a path that reports "nothing received" is selected only by None-comparisons of the '
                           'received value, never by its truth value, length or content (an empty message is delivered like any other)')
        base = self.model.cls('basic_robotics.interfaces.comms_object', 'CommsObject')
        targets = [c.methods['getData'] for c in self.model.subclasses(base) if 'getData' in c.methods]
        if 'getData' in self.comms.methods:
            targets.append(self.comms.methods['getData'])
        n = 0
        for fi in targets:
            params = set(fi.params)
            rcv = set()
            for a in ast.walk(fi.node):
                if isinstance(a, ast.Name) and isinstance(a.ctx, ast.Store) and a.id not in params:
                    rcv.add(a.id)
            if not rcv:
                continue
            try:
                ps = paths_of(fi.node, fi.params)
            except RuntimeError as ex:
                rep.unresolved_item('R19.13', fi.where, 'paths of %s not summarised (%s)' % (fi.qualname, ex))
                continue
            n += 1
            bad = None
            for pth in ps:
                if pth.kind not in ('return', 'fall') or pth.ret not in (None, '<none>', 'None'):
                    continue
                for k, truth in pth.facts.items():
                    srck = pth.fact_src.get(k, k)
                    try:
                        tree = ast.parse(srck, mode='eval').body
                    except SyntaxError:
                        continue
                    # the path engine writes locals as the expressions they were bound to: what a call made on this path handed back is
                    # (part of) the received value, like a local bound on the path that could not be expanded
                    def about(t):
                        return any((isinstance(x, ast.Name) and x.id in rcv) or isinstance(x, ast.Call) for x in ast.walk(t))
                    if not about(tree):
                        continue
                    names = ({x.id for x in ast.walk(tree) if isinstance(x, ast.Name)} & rcv) or {norm_text(tree)[:60]}
                    # accepted: conjunctions / negations of `<expr> is|is not|==|!= None` (and tests that mention no received local)
                    def fine(t):
                        if isinstance(t, ast.BoolOp):
                            return all(fine(v) for v in t.values)
                        if isinstance(t, ast.UnaryOp) and isinstance(t.op, ast.Not):
                            return fine(t.operand)
                        if not about(t):
                            return True
                        return (isinstance(t, ast.Compare) and len(t.ops) == 1 and isinstance(t.ops[0], (ast.Is, ast.IsNot, ast.Eq, ast.NotEq))
                                and ((isinstance(t.comparators[0], ast.Constant) and t.comparators[0].value is None)
                                     or (isinstance(t.left, ast.Constant) and t.left.value is None)))
                    if not fine(tree):
                        bad = (srck, truth, pth.ret_line, sorted(names)[0])
                        break
                if bad:
                    break
            rep.ob('R19.13', fi, '%s: "nothing received" is a None comparison' % fi.qualname, bad is None,
                   ('%s returns None when `%s` is %s: `%s` holds what the transport handed back, so a received message for which that holds (a zero-length '
                    'datagram, an empty string) is reported as a time-out - no forwarding destination and no sink sees it' % (fi.qualname, bad[0], bad[1], bad[3])) if bad else 'ok',
                   line=bad[2] if bad else None)
        rep.floor('R19.13', 'getData implementations examined', n, 2)

    def _table_refs(self, t):
        """tables written by storing to / mutating expression t (any receiver whose attribute is a table name,
        restricted to receivers that can be a Comms: `self` inside Comms, or any non-self receiver)."""
        out = []
        base = t
        while isinstance(base, ast.Subscript):
            base = base.value
        if isinstance(base, ast.Attribute) and base.attr in TABLES:
            out.append((base.attr, isinstance(base.value, ast.Name) and base.value.id == 'self'))
        return out


def check(model, rep):
    rep.extra['explanation'] = (
        'Path-sensitive must-fact analysis of Comms.getData, the four registration methods and _single_spin: guard '
        'dominance of every delivery by a not-None test, return value == table-mutated on every path, membership guards on '
        'every append/remove, per-iteration delivery counting, key agreement, and a whole-repository table-writer scan.')
    rep.assumptions.append('endpoints honour the CommsObject interface (getData returns data or None; sendData delivers)')
    ck = Checker(model, rep)
    ck.r191()
    ck.r192_193()
    ck.r194()
    ck.r195()
    ck.r197()
    ck.r198()
    ck.r199()
    ck.r1910()
    ck.r1911()
    ck.r1912()
    ck.r1913()
