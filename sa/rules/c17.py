"""C17 - compiled kernels never index out of bounds.

Decided statically (E8, symbolic extents):
  R17.1 kernel-internal bounds: in every @jit function of the two JIT modules, every integer subscript
        and every constant slice of a value whose shape follows from the documented parameter contracts
        is inside that shape - for every loop counter value (affine ranges; constant-trip loops are
        unrolled so manual counters are exact).
  R17.2 call-site agreement: at every call of a kernel from the Python layers whose contract ties two
        extents together (cols(Slist) = len(thetalist), len(joint_mins) = len(theta), ...), the
        extents that are visible in the argument expressions (explicit slices) agree.
Not decided: compiled == interpreted values (Numba's code generation is the trusted base); which
layouts/dtypes the explicitly-signed kernels accept (a dispatch TypeError is not an index error).
"""
import ast
import re

from ..engine.flow import Domain, Flow
from ..engine.model import AnalysisError, src, walk_own
from ..engine.bounds import Bounds, Aff, Shp, sign, parse_extent
from ..engine.mrspec import P as CONTRACTS, R as RETURNS

JIT_MODS = ['basic_robotics.modern_robotics_numba.modern_high_performance',
            'basic_robotics.general.faser_high_performance']


def kernels(model):
    out = []
    for mn in JIT_MODS:
        m = model.module(mn)
        for name, fi in m.funcs.items():
            if fi.jit is not None:
                out.append(fi)
    return out


def arg_shape(e, depth=0, env=None):
    """Extents visible in an argument expression of a Python-layer call: explicit slices give affine extents
    over local names, everything else a symbol derived from the expression text.  `env` maps local names to the
    shape of the value they hold on the path being analysed (ShapeDomain)."""
    if isinstance(e, ast.Name) and env and e.id in env:
        return env[e.id]
    if isinstance(e, ast.Name) and depth == 0 and env is not None and e.id in env.get('$params', ()):
        return (Aff.sym('len(%s)' % e.id), '?')           # an unsliced parameter: whole vector, extent unknown
    if isinstance(e, ast.Subscript):
        items = e.slice.elts if isinstance(e.slice, ast.Tuple) else [e.slice]
        base = arg_shape(e.value, depth + 1, env)
        out = []
        for k, it in enumerate(items):
            if isinstance(it, ast.Slice):
                if it.step is not None:
                    return None
                lo = Aff(0) if it.lower is None else to_aff(it.lower)
                hi = None if it.upper is None else to_aff(it.upper)
                if lo is None:
                    return None
                if hi is None:
                    if base is not None and k < len(base):
                        out.append(base[k] - lo)
                    else:
                        out.append(Aff.sym('dim%d(%s)' % (k, src(e.value))) - lo)
                else:
                    out.append(hi - lo)
            else:
                continue        # integer index drops the dimension
        if base is not None and len(base) > len(items):
            out.extend(base[len(items):])
        elif base is None:
            # unknown trailing dimensions: cannot tell the rank
            if not all(isinstance(it, ast.Slice) or True for it in items):
                return None
            # rank is only trustworthy when every dimension was subscripted; we cannot know: mark as partial
            return tuple(out) + ('?',)
        return tuple(out)
    if isinstance(e, ast.Call) and isinstance(e.func, ast.Attribute) and e.func.attr in ('thetaProtector', 'angleMod') and len(e.args) == 1:
        return arg_shape(e.args[0], depth + 1, env)          # clamps / wraps element-wise: same extent as the argument
    if isinstance(e, ast.Call) and isinstance(e.func, ast.Attribute):
        if e.func.attr in ('gTM',) or False:
            return (Aff(4), Aff(4))
        if e.func.attr in ('copy',):
            return arg_shape(e.func.value, depth + 1, env)
        if e.func.attr in ('flatten', 'reshape'):
            return None
    if isinstance(e, ast.Attribute) and e.attr == 'TM':
        return (Aff(4), Aff(4))
    if isinstance(e, ast.Attribute) and isinstance(e.value, ast.Name) and e.value.id == 'self' and e.attr in WHOLE_TABLES:
        # a per-joint table of the object passed whole: its joint extent is the object's number of joints
        return tuple(Aff(x) if isinstance(x, int) else Aff.sym(x) for x in WHOLE_TABLES[e.attr])
    return None


# per-joint tables of class Arm (shapes established by its constructor; C05 R05.x keeps them in step with num_dof)
WHOLE_TABLES = {'screw_list': (6, 'self.num_dof'), 'screw_list_body': (6, 'self.num_dof'), 'original_screw_list': (6, 'self.num_dof'),
                '_theta': ('self.num_dof',), 'joint_mins': ('self.num_dof',), 'joint_maxs': ('self.num_dof',)}


def to_aff(e):
    if isinstance(e, ast.Constant) and isinstance(e.value, int) and not isinstance(e.value, bool):
        return Aff(e.value)
    if isinstance(e, ast.Name):
        return Aff.sym(e.id)
    if isinstance(e, ast.Attribute):
        return Aff.sym(src(e))
    if isinstance(e, ast.BinOp) and isinstance(e.op, (ast.Add, ast.Sub)):
        a, b = to_aff(e.left), to_aff(e.right)
        if a is None or b is None:
            return None
        return a + b if isinstance(e.op, ast.Add) else a - b
    if isinstance(e, ast.BinOp) and isinstance(e.op, ast.Mult):
        a, b = to_aff(e.left), to_aff(e.right)
        if a is not None and b is not None:
            if a.is_const():
                return b.scale(a.c)
            if b.is_const():
                return a.scale(b.c)
    if isinstance(e, ast.Call) and isinstance(e.func, ast.Name) and e.func.id == 'len' and e.args:
        return Aff.sym('len(%s)' % src(e.args[0]))
    return None


def site_check(k, c, contract, env):
    unres = []
    binding = {}
    conflict = None
    for pi, a in enumerate(c.args):
        if pi >= len(k.params):
            break
        shp = contract.get(k.params[pi])
        if not shp or shp == ():
            continue
        got = arg_shape(a, 0, env)
        if got is None:
            continue
        partial = got and got[-1] == '?'
        if partial:
            got = got[:-1]
        if not partial and len(got) != len(shp):
            continue
        for d, ext in enumerate(got[:len(shp)]):
            want = shp[d]
            if isinstance(want, int):
                if ext.is_const() and ext.c != want:
                    conflict = ('argument %d (%s) has extent %r in dimension %d, the kernel contract says %d'
                                % (pi, src(a)[:50], ext, d, want))
                continue
            sym = parse_extent(want)
            if len(sym.t) != 1:
                continue
            (sname, coef), = sym.t.items()
            val = (ext - Aff(sym.c))
            if sname in binding:
                prev, parg = binding[sname]
                diff = prev - val
                if diff.is_const() and diff.c != 0:
                    conflict = ('extent `%s` of the contract is %r according to %s but %r according to %s: the kernel '
                                'indexes %d element(s) past the shorter argument' % (sname, prev, parg, val, src(a)[:50], abs(diff.c)))
                elif not diff.is_const():
                    whole = [x for x in (prev, val) if len(x.t) == 1 and (next(iter(x.t)).startswith('len(') or next(iter(x.t)) == 'self.num_dof') and x.c == 0
                             and next(iter(x.t.values())) == 1]
                    if len(whole) == 1:
                        other = val if whole[0] is prev else prev
                        wname = next(iter(whole[0].t))
                        conflict = ('extent `%s` of the contract is %r for one argument, while %s is passed whole (%s): the kernel loops over the longer of the '
                                    'two and indexes past the %r-wide slice whenever the whole one is longer' % (
                                        sname, other, wname[4:-1] if wname.startswith('len(') else 'a per-joint table of the arm',
                                        'its length is whatever the caller supplied' if wname.startswith('len(') else 'extent self.num_dof', other))
                    else:
                        unres.append('cannot compare %r and %r' % (prev, val))
            else:
                binding[sname] = (val, src(a)[:50])
    return binding, conflict, unres


class ShapeDomain(Domain):
    """Path-sensitive map local name -> shape of the (sliced) value it holds; records the map at every Call node."""

    def __init__(self):
        self.at_call = {}

    def _record(self, node, state):
        for n in ast.walk(node):
            if isinstance(n, ast.Call):
                self.at_call.setdefault(n, set()).add(state)

    @staticmethod
    def _kill(state, text):
        pat = re.compile(r'(?<![\w.])%s(?![\w])' % re.escape(text))
        return frozenset((n, shp) for (n, shp) in state
                         if n != text and not any(isinstance(a, Aff) and any(pat.search(sym) for sym in a.t) for a in shp))

    def _targets(self, t):
        if isinstance(t, (ast.Tuple, ast.List)):
            for x in t.elts:
                yield from self._targets(x)
        elif isinstance(t, ast.Starred):
            yield from self._targets(t.value)
        elif isinstance(t, ast.Subscript):
            yield from self._targets(t.value)
        else:
            yield src(t)

    def transfer(self, stmt, state):
        self._record(stmt, state)
        tgts = []
        if isinstance(stmt, ast.Assign):
            for t in stmt.targets:
                tgts.extend(self._targets(t))
        elif isinstance(stmt, (ast.AugAssign, ast.AnnAssign)):
            tgts.extend(self._targets(stmt.target))
        elif isinstance(stmt, (ast.FunctionDef, ast.ClassDef)):
            tgts.append(stmt.name)
        new = None
        if isinstance(stmt, ast.Assign) and len(stmt.targets) == 1 and isinstance(stmt.targets[0], ast.Name):
            shp = arg_shape(stmt.value, 0, dict(state))
            if shp is not None:
                new = (stmt.targets[0].id, tuple(shp))
        for t in tgts:
            state = self._kill(state, t)
        if new is not None and not any(re.search(r'(?<![\w.])%s(?![\w])' % re.escape(new[0]), sym) for a in new[1] if isinstance(a, Aff) for sym in a.t):
            state = state | {new}
        return (state,)

    def enter_loop(self, node, state):
        if isinstance(node, (ast.For, ast.AsyncFor)):
            for t in self._targets(node.target):
                state = self._kill(state, t)
        return (state,)

    def with_enter(self, node, state):
        for it in node.items:
            self._record(it.context_expr, state)
            if it.optional_vars is not None:
                for t in self._targets(it.optional_vars):
                    state = self._kill(state, t)
        return (state,)

    def on_return(self, node, state):
        if node.value is not None:
            self._record(node.value, state)
        return (state,)

    def effects(self, expr, state):
        self._record(expr, state)
        return (state,)


def check(model, rep):
    rep.extra['explanation'] = (
        'Abstract interpretation of each @jit kernel with symbolic array extents taken from the documented contracts: '
        'every integer subscript / constant slice is compared with the extent of the value it indexes, for all loop '
        'counter values (affine ranges, exact unrolling of constant-trip loops); plus extent agreement of explicitly '
        'sliced arguments at every kernel call site in the Python layers.')
    rep.trusted_base += ['shape contracts of sa/engine/mrspec.py (from the docstrings)', 'Numba code generation (compiled == interpreted)']
    rep.rule('R17.1', 'every integer index / constant slice inside a @jit kernel lies within the contracted extent')
    rep.rule('R17.2', 'explicitly sliced arguments at kernel call sites give the contract-tied extents the same value')
    ks = kernels(model)
    callee_contracts = {k_.name: (list(k_.params), CONTRACTS[k_.name]) for k_ in ks if k_.name in CONTRACTS}
    n_int = n_sl = 0
    n_unres = 0
    for fi in sorted(ks, key=lambda f: f.key):
        contract = CONTRACTS.get(fi.name)
        if contract is None:
            rep.unresolved_item('R17.1', fi.where, 'no shape contract recorded for kernel %s' % fi.name)
            continue
        b = Bounds(fi.node, contract, RETURNS, callee_contracts=callee_contracts).run()
        n_int += b.n_int
        n_sl += b.n_slice
        seen = set()
        for s in b.sites:
            key = (s.text, s.kind, s.ok)
            if key in seen:
                continue
            seen.add(key)
            rep.ob('R17.1', fi, s.text, s.ok, s.msg or 'in bounds', line=s.node.lineno)
        for node, why in b.unresolved:
            n_unres += 1
            rep.unresolved_item('R17.1', '%s:%d' % (fi.module.relpath, node.lineno), '%s: %s' % (ast.unparse(node)[:50], why))
    rep.count('@jit kernels analysed', len(ks))
    rep.count('integer index components checked', n_int)
    rep.count('slice components checked', n_sl)
    rep.floor('R17.1', '@jit kernels', len(ks), 40)
    rep.floor('R17.1', 'integer index components', n_int, 150)
    # ---------------------------------------------------------------- R17.3
    # Direction of the (screw table, joint vector) contract.  The Python layers hand these kernels the arm's WHOLE screw table together
    # with a joint vector of the caller's length (Arm.FK clamps `theta[0:len(theta)]` against prefixes of the limits: a vector shorter than
    # the chain is accepted and means "remaining joints at home").  Every kernel below is driven by the joint vector today: with a table
    # that has MORE columns than the vector has entries all its indices stay in bounds.  Decided by re-running the interval analysis
    # with cols(table) = n + slack, slack >= 0 unknown: an index that is only in bounds when slack = 0 reads past the joint vector.
    rep.rule('R17.3', 'kernels taking (screw table, joint vector) are driven by the joint vector: every index stays in bounds when the table has more '
                      'columns than the vector has entries')
    DRIVEN = ('FKinBody', 'FKinSpace', 'JacobianBody', 'JacobianSpace', 'IKinBody', 'IKinSpace', 'IKinSpaceConstrained')
    n_driven = 0
    for fi in sorted(ks, key=lambda f: f.key):
        if fi.name not in DRIVEN or fi.name not in CONTRACTS:
            continue
        contract = dict(CONTRACTS[fi.name])
        tabs = [p_ for p_, sh in contract.items() if isinstance(sh, tuple) and len(sh) == 2 and sh[0] == 6 and sh[1] == 'n']
        if not tabs or not any(sh == ('n',) for sh in contract.values()):
            continue
        for t_ in tabs:
            contract[t_] = (6, 'n+slack')
        b = Bounds(fi.node, contract, RETURNS, callee_contracts=callee_contracts).run()
        n_driven += 1
        bad = [(s_.node, s_.text, s_.msg) for s_ in b.sites if not s_.ok] + [(n_, ast.unparse(n_)[:60], why) for n_, why in b.unresolved if 'slack' in why]
        rep.ob('R17.3', fi, '%s: indices in bounds for cols(%s) >= len(joint vector)' % (fi.name, ', '.join(tabs)), not bad,
               ('%s: %s - the index is bounded by the column count of %s, not by the length of the joint vector: called with a joint vector shorter '
                'than the screw table (Arm.FK(theta[:k]) passes the whole table) the compiled kernel reads past the end of the vector '
                '(IndexError under NUMBA_BOUNDSCHECK / in the interpreter, neighbouring memory otherwise)' % (bad[0][1], bad[0][2], ', '.join(tabs))) if bad else 'driven by the joint vector',
               line=bad[0][0].lineno if bad else None)
    rep.floor('R17.3', 'kernels taking a screw table and a joint vector', n_driven, 7)
    # ---------------------------------------------------------------- R17.5
    # Index offsets handed in by the caller.  A kernel parameter that has no shape contract (an integer offset / count a caller passes) and is
    # used inside a subscript makes the kernel's bounds depend on the call: R17.1 has no value for it.  Every call of such a kernel in the
    # package is analysed with the argument's integer value substituted for the parameter (the default where the call omits it), under the
    # kernel's own shape contract - the extents the callers hand in are tied to that contract by R17.1's callee check.
    rep.rule('R17.5', 'kernels indexed through an un-contracted integer parameter are in bounds at every call: the kernel is re-analysed with the '
                      'integer each call passes (or the default) substituted for the parameter')
    import copy as _copy17
    n_off = n_calls5 = 0
    for fi in sorted(ks, key=lambda f: f.key):
        contract = CONTRACTS.get(fi.name)
        if contract is None:
            continue
        offs = []
        for p_ in fi.params:
            if p_ in contract:
                continue
            used = any(isinstance(sub, ast.Subscript) and any(isinstance(x_, ast.Name) and x_.id == p_ for x_ in ast.walk(sub.slice))
                       for sub in ast.walk(fi.node))
            if used:
                offs.append(p_)
        if not offs:
            continue
        n_off += 1
        sites = []
        for m_ in model.modules.values():
            if m_.tree is None:
                continue
            for c_ in ast.walk(m_.tree):
                if isinstance(c_, ast.Call) and ((isinstance(c_.func, ast.Name) and c_.func.id == fi.name) or
                                                 (isinstance(c_.func, ast.Attribute) and c_.func.attr == fi.name)):
                    sites.append((m_, c_))
        for m_, c_ in sites:
            vals = {}
            okv = True
            for p_ in offs:
                k_ = fi.params.index(p_)
                a_ = c_.args[k_] if k_ < len(c_.args) else next((kw.value for kw in c_.keywords if kw.arg == p_), fi.defaults.get(p_))
                if isinstance(a_, ast.UnaryOp) and isinstance(a_.op, ast.USub) and isinstance(a_.operand, ast.Constant):
                    a_ = ast.Constant(-a_.operand.value)
                if isinstance(a_, ast.Constant) and isinstance(a_.value, int) and not isinstance(a_.value, bool):
                    vals[p_] = a_.value
                else:
                    okv = False
                    rep.unresolved_item('R17.5', '%s:%d' % (m_.relpath, c_.lineno), 'argument for %s.%s is not an integer constant: %s'
                                        % (fi.name, p_, ast.unparse(a_)[:40] if a_ is not None else 'missing'))
            if not okv:
                continue
            n_calls5 += 1
            fn2 = _copy17.deepcopy(fi.node)
            fn2.args.args = [x_ for x_ in fn2.args.args if x_.arg not in vals]
            fn2.args.defaults = []

            class _Sub(ast.NodeTransformer):
                def visit_Name(self, n_):
                    if n_.id in vals and isinstance(n_.ctx, ast.Load):
                        return ast.copy_location(ast.Constant(vals[n_.id]), n_)
                    return n_
            fn2 = ast.fix_missing_locations(_Sub().visit(fn2))
            b = Bounds(fn2, contract, RETURNS, callee_contracts=callee_contracts).run()
            bad = [(s_.text, s_.msg) for s_ in b.sites if not s_.ok]
            rep.ob('R17.5', m_.relpath, '%s(%s) at line %d' % (fi.name, ', '.join('%s=%d' % kv for kv in sorted(vals.items())), c_.lineno), not bad,
                   ('the call %s passes %s: inside %s the access %s is out of bounds - %s (IndexError under NUMBA_BOUNDSCHECK / in the interpreter, '
                    'neighbouring memory otherwise)' % (ast.unparse(c_)[:60], ', '.join('%s=%d' % kv for kv in sorted(vals.items())), fi.name, bad[0][0], bad[0][1])) if bad
                   else 'in bounds for the passed integer', qualname=fi.name, line=c_.lineno)
    rep.count('R17.5 kernels indexed through an un-contracted parameter', n_off)
    rep.count('R17.5 call sites specialised', n_calls5)
    rep.ob('R17.5', model.module(JIT_MODS[0]).relpath, 'kernels indexed through un-contracted integer parameters', True,
           '%d kernels, %d call sites specialised' % (n_off, n_calls5), qualname='<module>', line=1, nontrivial=False)
    # ---------------------------------------------------------------- R17.4
    # An explicit signature switches off Numba's specialisation on the argument types: a float handed to a parameter declared int64 is
    # CAST (truncated toward zero) without an error, while the interpreted source computes with the float - compiled != interpreted.
    rep.rule('R17.4', 'explicit @jit signatures declare no integer scalar type for a parameter that the kernel uses as a value (arithmetic, stored, '
                      'returned, passed on): a real-valued argument would be truncated silently by the compiled kernel only')
    import re as _re17
    n_sig = 0
    for fi in sorted(ks, key=lambda f: f.key):
        d_ = fi.jit
        sigs = []
        if isinstance(d_, ast.Call):
            for a_ in d_.args:
                if isinstance(a_, ast.Constant) and isinstance(a_.value, str):
                    sigs.append(a_.value)
                elif isinstance(a_, (ast.List, ast.Tuple)):
                    sigs += [x_.value for x_ in a_.elts if isinstance(x_, ast.Constant) and isinstance(x_.value, str)]
        for sg in sigs:
            n_sig += 1
            t_ = sg.strip()
            if not t_.endswith(')'):
                rep.ob('R17.4', fi, 'signature %s' % sg[:60], False, 'signature text not understood', shape=True)
                continue
            depth, start = 0, None
            for i_ in range(len(t_) - 1, -1, -1):
                if t_[i_] == ')':
                    depth += 1
                elif t_[i_] == '(':
                    depth -= 1
                    if depth == 0:
                        start = i_
                        break
            if start is None:
                rep.ob('R17.4', fi, 'signature %s' % sg[:60], False, 'signature text not understood', shape=True)
                continue
            args_, cur, depth = [], '', 0
            for ch in t_[start + 1:-1]:
                if ch in '([':
                    depth += 1
                elif ch in ')]':
                    depth -= 1
                if ch == ',' and depth == 0:
                    args_.append(cur.strip())
                    cur = ''
                else:
                    cur += ch
            if cur.strip():
                args_.append(cur.strip())
            for k_, ty in enumerate(args_):
                if k_ >= len(fi.params) or not _re17.match(r'^(u?int(8|16|32|64|p|c)?|uintp|boolean|bool_?|b1|i[1248]|u[1248])$', ty):
                    continue
                pnm = fi.params[k_]
                value_use = None
                for n_ in walk_own(fi.node):
                    if not (isinstance(n_, ast.Name) and n_.id == pnm and isinstance(n_.ctx, ast.Load)):
                        continue
                    par = fi.module.parents.get(n_)
                    if isinstance(par, ast.BinOp) or (isinstance(par, ast.UnaryOp) and isinstance(par.op, ast.USub)) or isinstance(par, (ast.Return, ast.Tuple, ast.List)):
                        value_use = par
                    elif isinstance(par, ast.Assign) and par.value is n_ and any(isinstance(t2, ast.Subscript) for t2 in par.targets):
                        value_use = par
                    elif isinstance(par, ast.Call) and n_ in par.args and src(par.func).split('.')[-1] not in ('range', 'len', 'zeros', 'ones', 'empty', 'eye', 'identity', 'arange'):
                        value_use = par
                    if value_use is not None:
                        break
                rep.ob('R17.4', fi, '%s: parameter `%s` declared %s' % (fi.name, pnm, ty), value_use is None,
                       ('the signature %s declares `%s` as %s, but the kernel uses it as a value (`%s`): called with a real number the compiled kernel computes with the '
                        'truncated integer - no error - while %s.py_func and the interpreter use the number given' % (sg[:70], pnm, ty, src(value_use)[:50] if value_use is not None else '', fi.name))
                       if value_use is not None else 'used as a count / index only', line=fi.node.lineno)
    rep.count('explicit @jit signatures examined', n_sig)
    rep.floor('R17.4', 'explicit @jit signatures', n_sig, 1)
    # ---------------------------------------------------------------- R17.2
    kernel_by_name = {fi.name: fi for fi in ks}
    _envs = {}

    def call_envs(fi):
        if fi.key not in _envs:
            d = ShapeDomain()
            if any(isinstance(n, ast.Name) for c_ in walk_own(fi.node) if isinstance(c_, ast.Call) for n in c_.args):
                Flow(d).run(fi.node.body, {frozenset()})
            _envs[fi.key] = d.at_call
        return _envs[fi.key]
    n_sites = 0
    n_tied = 0
    for fi in model.all_funcs:
        if fi.module.name in JIT_MODS:
            continue
        for c in [n for n in walk_own(fi.node) if isinstance(n, ast.Call)]:
            f = c.func
            nm = f.attr if isinstance(f, ast.Attribute) else (f.id if isinstance(f, ast.Name) else None)
            if nm not in kernel_by_name:
                continue
            r = model.resolve_call(fi, c)
            if not (r and r[0] == 'func' and r[1].jit is not None):
                continue
            k = r[1]
            n_sites += 1
            contract = CONTRACTS.get(k.name)
            if not contract:
                continue
            envs = call_envs(fi).get(c) or {frozenset()}
            binding = {}
            conflict = None
            for st in sorted(envs, key=lambda z: sorted(map(repr, z))):
                env_ = dict(st)
                env_['$params'] = tuple(fi.params)
                b_, c_, unres_ = site_check(k, c, contract, env_)
                for u in unres_:
                    rep.unresolved_item('R17.2', '%s:%d' % (fi.module.relpath, c.lineno), u)
                binding.update(b_)
                conflict = conflict or c_
            if binding:
                n_tied += 1
            if conflict or binding:
                rep.ob('R17.2', fi, src(c)[:110], conflict is None, conflict or 'extents agree: %s' % {k_: repr(v[0]) for k_, v in binding.items()},
                       line=c.lineno)
    rep.count('kernel call sites in the Python layers', n_sites)
    rep.count('call sites with visible tied extents', n_tied)
    rep.floor('R17.2', 'kernel call sites', n_sites, 60)
