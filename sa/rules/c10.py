"""C10 - Stewart platform state stays coherent and 'valid' means valid over any history.

Decided statically on kinematics/sp_model.py:
  R10.1 ownership: the derived state (leg lengths, joint positions in space, relative plate transform) and
        the plate poses are written only by the methods listed with a reason; no other method, and no code
        outside class SP, writes them.
  R10.2 coherence typestate (value numbering, see rules/spstate.py): every public method maps a coherent
        platform (derived state computed by _IKHelper from exactly the stored plate poses; relative transform
        from the same poses; nothing overwritten since) to a coherent platform on EVERY path to a normal
        exit - self-calls inlined with constant propagation, including the corrective paths.
  R10.3 validation chain: validator k consults switch k and constraint k, never turns a False into True
        (`valid and temp_valid`), takes its corrective action only when `not donothing`, then re-validates
        with validate(True, L), L >= k+1; validate() runs the four validators in switch order, each under
        its own limit.
  R10.4 pure queries (inverseJacobian and the force queries built on it, with default arguments) end with
        both stored plate poses equal to the poses they started with.
  R10.5 'returns normally': abstract call-tree exploration with constant propagation finds no method that
        can re-enter itself with the same constant bindings (unbounded mutual recursion).
Not decided: that the constraint predicates compute the right geometry.
"""
import ast

from ..engine.inline import Inliner, cmp_parts
from ..engine.model import AnalysisError, src, walk_own
from .spstate import SPAnalysis, SPM, DERIVED, REL, POSE_B, POSE_T, self_field, St, SPDomain
from ..engine.flow import Flow

WRITERS = {
    # field -> {method: reason}
    'lengths': {'_IKHelper': 'owner', '_FKSolve': 'stores the request; always followed by _IKHelper (R10.2)',
                '_FKRaphson': 'stores the request; always followed by _IKHelper (R10.2)',
                '_rescaleLegLengths': 'corrective request, followed by FK (R10.2)', '_addLegsToMinimum': 'corrective request, followed by FK (R10.2)',
                '_subLegsToMaximum': 'corrective request, followed by FK (R10.2)', '_fixUpsideDown': 'mirrored geometry; FK re-derives afterwards (R10.2)'},
    '_bottom_joints_space': {'_IKHelper': 'owner', '__init__': 'allocation', 'spinCustom': 're-spin; followed by move() (R10.2)'},
    '_top_joints_space': {'_IKHelper': 'owner', '__init__': 'allocation', 'spinCustom': 're-spin; followed by move() (R10.2)',
                          '_fixUpsideDown': 'mirrored geometry; FK re-derives afterwards (R10.2)'},
    REL: {'_IKHelper': 'owner', '__init__': 'allocation', 'FK': 'from the stored poses (R10.2)', 'move': 'from the stored poses before the base changes (R10.2)'},
    POSE_B: {'_setPlatePos': 'owner', '__init__': 'initial pose', 'move': 'new base, followed by IK (R10.2)'},
    POSE_T: {'_setPlatePos': 'owner', '__init__': 'initial pose', '_fixUpsideDown': 'un-inverted pose; FK re-derives afterwards (R10.2)'},
}
QUERIES = ['inverseJacobian', 'carryMassCalc', 'carryMassCalcBody', 'sumActuatorWrenches', 'componentForces', 'getActuatorLoc',
           'getJointAnglesFromNorm', 'getJointAnglesFromVertical', 'getLens', 'getTopT', 'getBottomT', 'getTopJoints', 'getBottomJoints',
           'getCurrentLocalTransform']
VALIDATORS = [('validateLegs', 0, '_legLengthConstraint', 1), ('validateContinuousTranslation', 1, '_continuousTranslationConstraint', 2),
              ('validateInteriorAngles', 2, '_interiorAnglesConstraint', 3), ('validatePlateRotation', 3, '_plateRotationConstraint', 4)]


def coherence(model, rep, an, rule, only=None):
    """R10.2-style obligations; returns per-method problem sets"""
    results = {}
    for fi in an.public_methods():
        exits = an.run_public(fi)
        probs = {}
        for e in exits:
            for p in e.state[0].coherent_problems():
                probs[p] = probs.get(p, 0) + 1
        results[fi.name] = (fi, probs, len(exits))
    # root causes: a method inherits a problem if a public method it calls has the same problem
    calls = {}
    for name, (fi, probs, n) in results.items():
        cs = set()
        seen = set()
        work = [fi]
        while work:
            f = work.pop()
            if f.key in seen:
                continue
            seen.add(f.key)
            for c in ast.walk(f.node):
                if isinstance(c, ast.Call) and isinstance(c.func, ast.Attribute) and isinstance(c.func.value, ast.Name) and c.func.value.id == 'self':
                    g = model.find_method(an.sp, c.func.attr)
                    if g is not None and g is not fi:
                        if g.name in results:
                            cs.add(g.name)
                        work.append(g)
        calls[name] = cs
    n_states = 0
    for name, (fi, probs, n) in sorted(results.items()):
        n_states += n
        if only is not None and name not in only:
            continue
        # inherited = some callee that does not call back into this method already has the problem; inside a call cycle
        # the problem is reported at the alphabetically first member so that it is reported exactly once
        def inherited(p):
            for c in calls[name]:
                if p in results[c][1]:
                    if name not in calls[c]:
                        return True
                    if c < name:
                        return True
            return False
        own = {p for p in probs if not inherited(p)}
        if probs and not own:
            rep.ob(rule, fi, 'coherent on every exit of ' + name, True, 'incoherence inherited from %s (reported there)' % sorted(c for c in calls[name] if results[c][1]))
            continue
        if own:
            for p in sorted(own)[:6]:
                rep.ob(rule, fi, p[:120], False, 'a path through %s ends with an incoherent platform: %s' % (name, p))
        else:
            rep.ob(rule, fi, 'coherent on every exit of ' + name, True, '%d abstract exit states' % n)
    rep.count('abstract exit states examined', n_states)
    return results


def check(model, rep):
    rep.extra['explanation'] = (
        'Value-numbering typestate over all paths of every public SP method with inlined self-calls and constant propagation '
        '(protect / donothing / validation_limit / _fallback): derived state must have been computed by _IKHelper from exactly '
        'the stored plate poses at every normal exit; ownership table of the derived fields; structural rules of the validation '
        'chain; stored poses unchanged by pure queries; unbounded-recursion detection on the abstract call tree.')
    rep.assumptions.append('a token names one pose value along a path (expressions re-evaluated inside solver loops get one token); '
                           'external solvers (fsolve) only call the closure they are given')
    from ..engine import peval as _pe
    ho = _pe.resolve_higher_order(model, model.cls(SPM, 'SP'))
    if ho:
        rep.note('methods analysed after resolving callbacks / loops over bound methods (partial evaluation): %s' % sorted(ho))
    an = SPAnalysis(model)
    sp = an.sp
    # ---------------------------------------------------------------- R10.1
    rep.rule('R10.1', 'derived state / plate poses are written only by their listed writers (whole repository)')
    n_w = 0
    for fi in model.all_funcs:
        for n in walk_own(fi.node):
            tg = []
            if isinstance(n, ast.Assign):
                tg = n.targets
            elif isinstance(n, (ast.AugAssign, ast.AnnAssign)):
                tg = [n.target]
            flat = []
            for t in tg:
                flat.extend(t.elts if isinstance(t, (ast.Tuple, ast.List)) else [t])
            for t in flat:
                base = t
                while isinstance(base, ast.Subscript):
                    base = base.value
                if not (isinstance(base, ast.Attribute) and base.attr in WRITERS):
                    continue
                fld = base.attr
                is_self = isinstance(base.value, ast.Name) and base.value.id == 'self'
                in_sp = fi.cls is not None and sp in model.mro(fi.cls)
                if is_self and not in_sp:
                    if fld in (POSE_B, POSE_T):
                        continue       # another Robot subclass has its own poses
                    continue
                if not is_self and fld in (POSE_B, POSE_T, 'lengths'):
                    continue           # receiver of unknown type: unknown => silent
                n_w += 1
                ok = in_sp and fi.name in WRITERS[fld]
                rep.ob('R10.1', fi, src(n)[:100], ok,
                       'self.%s is written by %s, which is not one of its listed writers %s: the derived state can no longer be '
                       'assumed to come from _IKHelper' % (fld, fi.qualname, sorted(WRITERS[fld])), line=n.lineno)
    rep.floor('R10.1', 'writes of derived state / poses', n_w, 15)

    # ---------------------------------------------------------------- R10.2
    rep.rule('R10.2', 'every public method maps a coherent platform to a coherent platform on every path (derived == f(stored poses))')
    coherence(model, rep, an, 'R10.2')
    # ---------------------------------------------------------------- R10.7
    rep.rule('R10.7', 'the validity an operation returns was evaluated for the state it leaves: after the validate() whose verdict is returned, the '
                      'platform is only moved by a validating call or by one rigid motion of both plates (current relative transform)')
    stale = {}
    for (f_, rline, vline) in an.stale_verdicts:
        stale.setdefault(f_.qualname, (f_, rline, vline))
    n_verdicts = 0
    for name_ in ('FK', 'IK'):
        f_ = sp.methods.get(name_)
        if f_ is None:
            continue
        n_verdicts += sum(1 for n in ast.walk(f_.node) if isinstance(n, ast.Call) and src(n.func) == 'self.validate')
        hit = stale.get(f_.qualname)
        rep.ob('R10.7', f_, 'returned validity describes the final state of ' + name_, hit is None,
               'the verdict of validate() (line %s) is returned (line %s) after the platform was moved again without re-validation: '
               '`valid` may be True for a configuration the platform is no longer in' % ((hit[2], hit[1]) if hit else ('?', '?')),
               line=hit[1] if hit else None)
    for q, (f_, rline, vline) in sorted(stale.items()):
        if f_.name not in ('FK', 'IK'):
            rep.ob('R10.7', f_, 'returned validity describes the final state of ' + f_.name, False,
                   'the verdict of validate() (line %s) is returned (line %s) after the platform was moved again without re-validation' % (vline, rline), line=rline)
    rep.floor('R10.7', 'validate() verdicts returned by FK / IK', n_verdicts, 2)

    # ---------------------------------------------------------------- R10.3
    rep.rule('R10.3', 'validator k: switch k, constraint k, `valid and temp_valid`, corrective action only if not donothing, then '
                      'validate(True, L >= k+1); validate() calls the validators in order under limits 0..3')
    from ..engine import peval
    from ..engine.paths import paths_of
    sp_methods = {n_: f_.node for n_, f_ in sp.methods.items()}
    STOP = {c_ for (_n, _k, c_, _l) in VALIDATORS} | {n_ for n_ in sp_methods if 'CorrectiveAction' in n_ or 'Corrective' in n_ or n_.startswith('_fix')}
    READ_ONLY = ('get', '_get')

    def state_changing(callee):
        """calls that may move the platform (anything on self that is not a getter, a constraint predicate or validate itself)"""
        if not callee.startswith('self.'):
            return False
        nm = callee[5:]
        return not (nm.startswith(READ_ONLY) or nm in STOP - {n_ for n_ in STOP if 'orrective' in n_ or n_.startswith('_fix')} or nm == 'validate'
                    or nm.startswith('validation_'))
    for name, k, constraint, lim in VALIDATORS:
        fi = sp.methods.get(name)
        if fi is None:
            raise AnalysisError('anchor vanished: SP.' + name)
        pv, pd = fi.params[1], fi.params[2]
        flat = peval.flatten(sp_methods, fi.node, depth=3, stop=STOP)
        paths = paths_of(flat, fi.params)
        SW, C = 'self.validation_settings[%d]' % k, 'self.%s()' % constraint
        n_off = n_on = 0
        probs = {}

        def bad(key, msg, line):
            probs.setdefault(key, (msg, line))
        for p_ in paths:
            if p_.ret is None:
                bad('every path returns a verdict', 'a path through %s falls off the end without returning a verdict' % name, fi.node.lineno)
                continue
            sw = p_.facts.get(SW)
            c_calls = p_.calls(lambda c_: c_ == 'self.' + constraint)
            acts = [e for e in p_.events if (e[0] == 'call' and state_changing(e[1])) or (e[0] == 'store' and e[1].startswith('self.') and not e[1].startswith('self.validation_error'))]
            revals = p_.calls(lambda c_: c_ == 'self.validate')
            if sw is None:
                bad('guarded by validation_settings[%d]' % k, 'a path through %s does not consult its switch validation_settings[%d]' % (name, k), p_.ret_line)
                continue
            if sw is False:
                n_off += 1
                if c_calls or acts or revals:
                    bad('switched off: nothing is evaluated or corrected', 'with the switch off the validator still calls %s' % [e[1] for e in (c_calls + acts + revals)][:3], p_.ret_line)
                if p_.ret != pv:
                    bad('switched off: the verdict passes through unchanged', 'with the switch off the validator returns %s instead of `%s`' % (p_.ret, pv), p_.ret_line)
                continue
            n_on += 1
            if len(c_calls) != 1:
                bad('verdict of %s() consulted' % constraint, 'the constraint %s is evaluated %d times on a path (exactly once expected)' % (constraint, len(c_calls)), p_.ret_line)
                continue
            ctruth = p_.facts.get(C)
            if acts:
                if not (ctruth is False and p_.facts.get(pd) is False):
                    bad('corrective action only if the constraint fails and not donothing',
                        'a corrective action (%s) runs on a path where the constraint %s and %s %s' % (
                            acts[0][1], 'holds' if ctruth else 'was not tested', pd, 'is set' if p_.facts.get(pd) else 'was not tested'), acts[0][-1])
                last_act = max(p_.events.index(e) for e in acts)
                after = [e for e in revals if p_.events.index(e) > last_act]
                okr = len(after) == 1 and len(after[0][2]) == 2 and after[0][2][0] == 'True' and after[0][2][1].lstrip('-').isdigit() and int(after[0][2][1]) >= k + 1
                if not okr:
                    bad('after a corrective action the state is validated again up to this stage',
                        'after the corrective action the verdict is %s; it must be validate(True, L) with L >= %d so that this constraint is '
                        're-checked on the corrected state' % ([('validate(%s)' % ', '.join(e[2])) for e in revals] or p_.ret, k + 1), p_.ret_line)
                elif p_.ret != 'self.validate(%s)' % ','.join(after[0][2]):
                    bad('the re-validation verdict is returned', 'the validator returns %s, not the verdict of the re-validation' % p_.ret, p_.ret_line)
            else:
                if revals:
                    bad('no re-validation without a corrective action', 'validate() is called again although nothing was corrected', p_.ret_line)
                ok_ret = p_.ret in ('%sand%s' % (pv, C), '%sand%s' % (C, pv)) or (ctruth is True and p_.ret == pv and False)
                if not ok_ret:
                    bad('valid = valid and <constraint verdict>', 'the verdict returned on a path without correction is `%s`; expected `%s and %s` '
                        '(an earlier False, or this constraint\'s False, would be lost)' % (p_.ret, pv, C), p_.ret_line)
        for key in ('every path returns a verdict', 'guarded by validation_settings[%d]' % k, 'switched off: nothing is evaluated or corrected',
                    'switched off: the verdict passes through unchanged', 'verdict of %s() consulted' % constraint,
                    'corrective action only if the constraint fails and not donothing', 'after a corrective action the state is validated again up to this stage',
                    'the re-validation verdict is returned', 'no re-validation without a corrective action', 'valid = valid and <constraint verdict>'):
            msg, line = probs.get(key, ('ok', None))
            rep.ob('R10.3', fi, key, key not in probs, msg, line=line)
        rep.ob('R10.3', fi, 'both switch positions have paths', n_off >= 1 and n_on >= 2, '%d paths with the switch off, %d with it on' % (n_off, n_on))
    v = sp.methods.get('validate')
    v_flat = peval.flatten(sp_methods, v.node, depth=1, stop=set(sp_methods))
    rets = [n for n in ast.walk(v_flat) if isinstance(n, ast.Return)]
    acc = src(rets[0].value) if len(rets) == 1 and isinstance(rets[0].value, ast.Name) else None
    pd_, pl_ = v.params[1], v.params[2]
    chain = []
    for n in v_flat.body:
        cp = cmp_parts(n.test, left=pl_) if isinstance(n, ast.If) else None
        if cp is not None and cp[1] == '>':
            cs = [x for x in n.body if isinstance(x, ast.Assign) and src(x.targets[0]) == acc]
            c = cs[0] if len(cs) == 1 else None
            if isinstance(c, ast.Assign) and src(c.targets[0]) == acc and isinstance(c.value, ast.Call):
                chain.append(('%s>%s' % (cp[0], cp[2]), src(c.value).replace(' ', '')))
    want = [('%s>%d' % (pl_, i), 'self.%s(%s,%s)' % (VALIDATORS[i][0], acc, pd_)) for i in range(4)]
    rep.ob('R10.3', v, 'validate(): four validators in switch order under limits 0..3', chain == want, 'chain is %s' % chain)
    rep.ob('R10.3', v, 'validate() returns the accumulated verdict', acc is not None, 'validate does not return the accumulated verdict')

    rep.rule('R10.6', 'each constraint predicate tests the documented quantity of the current state (lengths vs limits, top height in the BOTTOM frame, joint deflection, relative-rotation diagonal)')
    constraint_definitions(model, rep, 'R10.6')

    # ---------------------------------------------------------------- R10.4
    rep.rule('R10.4', 'pure queries (default arguments) end with the stored plate poses they started with')
    for name in QUERIES:
        fi = sp.methods.get(name)
        if fi is None:
            continue
        moved = []
        for explicit in (False, True):
            consts = set()
            ptok = {}
            for p in fi.params[1:]:
                d = fi.defaults.get(p)
                ptok[p] = 'p:%s' % p
                if d is not None and isinstance(d, ast.Constant):
                    if d.value is None and explicit and 'plate_pos' in p:
                        continue        # an explicit pose is passed for this optional parameter
                    consts.add((p, d.value))
                    if d.value is None:
                        ptok[p] = None
            entry = St('B0', 'T0', 'B0', 'T0', 'B0', 'T0')
            an._stack = [(fi.key, frozenset(consts))]
            dom = SPDomain(an, fi, ptok)
            exits = [e for e in Flow(dom).run(fi.body(), {(entry, frozenset(consts))}) if e.kind in ('return', 'fall')]
            an._stack = []
            moved += sorted({(e.state[0].sB, e.state[0].sT) for e in exits if (e.state[0].sB, e.state[0].sT) != ('B0', 'T0')})
        rep.ob('R10.4', fi, 'stored poses unchanged by ' + name, not moved,
               'a path through the query %s ends with stored plate poses %s instead of the ones it started with' % (name, moved[:2]))

    # ---------------------------------------------------------------- R10.5
    rep.rule('R10.5', 'no method can re-enter itself with the same constant bindings (bounded recursion => every call returns)')
    for fi in an.public_methods():
        an.run_public(fi)
    cycles = {}
    for chain, consts in an.recursions:
        cycles.setdefault(tuple(chain), consts)
    for chain, consts in sorted(cycles.items()):
        fi = sp.methods.get(chain[0].split('.')[-1])
        rep.ob('R10.5', fi if fi is not None else sp.module.relpath, 'call cycle ' + ' -> '.join(chain), False,
               'the helpers can call each other back without any argument that bounds the recursion (bindings %s): RecursionError when both '
               'solvers keep failing' % (consts or 'none'), qualname='SP')
    # cycles in the syntactic call graph (for the record / floor)
    graph = {}
    for name, fi in sp.methods.items():
        graph[name] = {c.func.attr for c in ast.walk(fi.node) if isinstance(c, ast.Call) and isinstance(c.func, ast.Attribute)
                       and isinstance(c.func.value, ast.Name) and c.func.value.id == 'self' and c.func.attr in sp.methods}

    def reach(a):
        seen, work = set(), [a]
        while work:
            x = work.pop()
            for y in graph.get(x, ()):
                if y not in seen:
                    seen.add(y)
                    work.append(y)
        return seen
    cyclic = sorted(n for n in graph if n in reach(n))
    rep.count('methods on a syntactic call cycle', len(cyclic))
    rep.ob('R10.5', sp.module.relpath, 'syntactic call cycles among SP methods: %s' % ', '.join(cyclic)[:150], not cycles,
           'unbounded recursion found' if cycles else 'every cycle is cut by a constant argument (protect / donothing / validation_limit / _fallback)',
           qualname='SP', line=0)
    rep.floor('R10.5', 'methods on a syntactic call cycle', len(cyclic), 5)

    from .common_ops import shared_field_objects
    rep.rule('R10.9', 'no mutable object (array, pose, list) is bound to two fields of the platform in one method without a copy')
    n9 = shared_field_objects(rep, 'R10.9', sp, what='the platform\'s state')
    rep.floor('R10.9', 'field stores of SP examined', n9, 40)
    # ---------------------------------------------------------------- R10.8
    # every method that changes plate poses or plate-fixed joints relies on _IKHelper to re-derive joints and leg lengths; it must do so on
    # every call - a remembered solve keyed on the plate poses alone goes stale when the plate-fixed joints are replaced (re-spin)
    from ..engine.paths import paths_of
    from .common_ops import flat_method
    rep.rule('R10.8', '_IKHelper re-derives the joint positions and leg lengths on every call: every returning path runs the IK kernel (no result '
                      'remembered across calls)')
    ih = flat_method(sp, '_IKHelper')
    n_ih = 0
    for pth in paths_of(ih.node, ih.params):
        if pth.kind not in ('return', 'fall'):
            continue
        n_ih += 1
        solved = any(e[0] == 'call' and e[1].split('.')[-1] == 'SPIKinSpace' for e in pth.events)
        rep.ob('R10.8', ih, '_IKHelper path ending at line %s runs SPIKinSpace' % (pth.ret_line or 'end'), solved,
               'a path through _IKHelper (conditions: %s) hands back leg lengths without running the IK kernel: joints and lengths remembered from an '
               'earlier call are republished although the plate-fixed joints may have been replaced since (spinCustom relies on its final move to '
               'rebuild them)' % ('; '.join('%s is %s' % (k_[:60], v_) for k_, v_ in sorted(pth.facts.items()))[:220] or 'none'), line=pth.ret_line)
    rep.floor('R10.8', 'returning paths of _IKHelper', n_ih, 1)


def constraint_definitions(model, rep, rule, only=None):
    """Each constraint predicate of SP tests the documented quantity of the CURRENT state (structural; the comparison may be
    written either way round, intermediate names are inlined):
      leg lengths     any(lengths < leg_ext_min) or any(lengths > leg_ext_max)            -> False
      top above bottom  z of the top plate origin IN THE BOTTOM PLATE'S FRAME < 0           -> False
      joint deflection  NaN or any(|angles from normal| > joint_deflection_max)            -> False
      plate tilt      diagonal entry i of the RELATIVE plate rotation <= limit - margin    -> False (i = 0, 1, 2)"""
    from ..engine.inline import Inliner, cmp_parts, norm_text
    sp = model.cls(SPM, 'SP')

    def compares(fi):
        il = Inliner(fi)
        out = []
        for n in walk_own(fi.node):
            if isinstance(n, ast.Compare) and len(n.ops) == 1:
                e = il.expand(n)
                out.append((n, e))
        return il, out

    def method(name):
        from .common_ops import flat_method
        if sp.methods.get(name) is None:
            raise AnalysisError('anchor vanished: SP.' + name)
        return flat_method(sp, name)          # private helpers (a plate-pose snapshot) read in place
    if only is None or '_continuousTranslationConstraint' in only:
        fi = method('_continuousTranslationConstraint')
        il, cs = compares(fi)
        REL = ('fsr.globalToLocal(self.getBottomT(),self.getTopT())[2]', '(self.getBottomT().inv()@self.getTopT())[2]',
               'fsr.globalToLocal(self._base_pos_global,self._end_effector_pos_global)[2]', 'self._current_plate_transform_local[2]')
        seen = 0
        for n, e in cs:
            cp = cmp_parts(e, left=lambda t: t in REL)
            if cp is not None:
                seen += 1
                rep.ob(rule, fi, 'height of the top plate in the bottom frame vs 0: ' + norm_text(n)[:60], cp[1] in ('<', '<=') and cp[2] in ('0', '0.0'),
                       'the configuration is declared invalid when %s %s %s' % cp, line=n.lineno)
            else:
                t = norm_text(e)
                if 'getTopT()' in t or 'getBottomT()' in t or '_end_effector_pos_global' in t or '_base_pos_global' in t:
                    seen += 1
                    rep.ob(rule, fi, 'height of the top plate in the bottom frame vs 0: ' + norm_text(n)[:60], False,
                           'the test `%s` compares world-frame components of the plate poses: for a base that is tilted (wall / ceiling mount) the '
                           'sign of the world-z difference says nothing about which side of the bottom plate the top plate is on, so a correct '
                           'pose is taken for an inverted one (and mirrored)' % t[:90], line=n.lineno)
        rep.ob(rule, fi, 'top-above-bottom test present', seen >= 1, 'no comparison of the relative plate height found')
    if only is None or '_legLengthConstraint' in only:
        fi = method('_legLengthConstraint')
        il, cs = compares(fi)
        got = set()
        altered = []
        import re as _re10

        def _lengths(t):
            # the stored lengths, possibly through a layout-only view
            return _re10.sub(r'\.(flatten|ravel|copy|squeeze)\(\)|\.reshape\(\(?6,?\)?\)', '', t) in ('self.lengths', 'np.copy(self.lengths)', 'np.array(self.lengths)')
        for n, e in cs:
            cp = cmp_parts(e, left=_lengths)
            if cp is not None:
                got.add((cp[1].rstrip('='), cp[2]))
            elif 'self.lengths' in norm_text(e):
                altered.append(norm_text(e)[:80])
        rep.ob(rule, fi, 'lengths < leg_ext_min or lengths > leg_ext_max', got == {('<', 'self.leg_ext_min'), ('>', 'self.leg_ext_max')} and not altered,
               ('the stroke limits are tested on a function of the leg lengths, not on the lengths themselves: %s - lengths just outside a limit (within the '
                'rounding / offset applied) are reported valid and no corrective action runs' % '; '.join(altered[:2])) if altered else
               'leg-length constraint compares %s' % sorted(got))
    if only is None or '_interiorAnglesConstraint' in only:
        fi = method('_interiorAnglesConstraint')
        il, cs = compares(fi)
        ok = any((cmp_parts(e, left=lambda t: t in ('abs(self.getJointAnglesFromNorm())', 'np.abs(self.getJointAnglesFromNorm())', 'np.absolute(self.getJointAnglesFromNorm())'))
                  or ('', '', ''))[1:] in (('>', 'self.joint_deflection_max'), ('>=', 'self.joint_deflection_max')) for n, e in cs)
        rep.ob(rule, fi, '|angles from normal| > joint_deflection_max', ok, 'joint-deflection constraint compares %s' % [norm_text(e)[:70] for n, e in cs])
    if only is None or '_plateRotationConstraint' in only:
        fi = method('_plateRotationConstraint')
        il, cs = compares(fi)
        loops = [n for n in walk_own(fi.node) if isinstance(n, ast.For) and isinstance(n.target, ast.Name)]
        # the three axes may also be visited by a comprehension (`[i for i in range(3) if M[i, i] <= limit]`)
        gens = [g for n in walk_own(fi.node) if isinstance(n, (ast.ListComp, ast.GeneratorExp, ast.SetComp)) for g in n.generators if isinstance(g.target, ast.Name)]
        axes3 = [(l_.target.id, l_.iter) for l_ in loops] + [(g_.target.id, g_.iter) for g_ in gens]
        DIAG = ('self._current_plate_transform_local.gTM()[%s,%s]', 'self._current_plate_transform_local.gTM()[%s][%s]', 'self._current_plate_transform_local.TM[%s,%s]')
        ok = any(norm_text(it_) == 'range(3)' and any(
            (cmp_parts(e, left=lambda t, iv_=iv_: t in tuple(d_ % (iv_, iv_) for d_ in DIAG)) or ('', '', ''))[1] in ('<', '<=') for n, e in cs) for iv_, it_ in axes3)
        loops = loops or [type('L', (), {'iter': axes3[0][1]})()] if axes3 else loops
        rep.ob(rule, fi, 'diagonal of the relative rotation vs plate_rotation_limit (three axes)', ok,
               'plate-tilt constraint compares %s over %s' % ([norm_text(e)[:70] for n, e in cs], norm_text(loops[0].iter) if loops else '?'))
